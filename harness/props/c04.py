"""C04 - the bytes sent to the terminal paint exactly the rendered canvas.

Pieces (all hand-written here, the Coq side is Model/TermRef.v + Model/DrawScreen.v):
  * CapScreen        the real raw_display Screen with write()/flush() captured (no tty)
  * tokenize         real character stream -> tokens (ints), a hand scanner
  * RefTerm          reference VT100/xterm subset interpreter over the REAL stream (regex parser, independent
                     of the tokenizer), written from the VT100/xterm semantics
  * expectations     canvas content + palette -> the cells the property demands
  * HTML oracle      HtmlGenerator fragments parsed back and compared with the canvas text
"""
import html as _html
import re
import warnings

from harness import core

warnings.simplefilter("ignore")

# ----------------------------------------------------------------------------------------------
# attribute encoding shared by the reference terminal, the expectations and the wire format
#   colour = (kind, a, b, c): kind 0 default, 1 basic n (0..15), 2 high n, 3 rgb
#   flags bitmask: bold 1, italics 2, underline 4, blink 8, standout 16, strikethrough 32
# ----------------------------------------------------------------------------------------------
DEF_COL = (0, 0, 0, 0)
DEF_ATTR = DEF_COL + DEF_COL + (0,)
F_BOLD, F_ITAL, F_UNDER, F_BLINK, F_STAND, F_STRIKE = 1, 2, 4, 8, 16, 32
CS_CODE = {None: 0, "0": 1, "U": 2}
CS_NAME = {0: None, 1: "0", 2: "U"}
COLOR_IDX = {16: 0, 1: 1, 88: 2, 256: 3, 2 ** 24: 4}

BLANK = (32, 1, 0, DEF_ATTR, ())      # cell = (code point, width, charset, attr, combining marks); continuation half = (-1, 0, cs, attr, ())
GARBAGE_ATTR = (1, 5, 0, 0, 1, 3, 0, 0, F_BOLD | F_UNDER | F_STRIKE)


def scramble_row(cols, kind):
    """deterministic garbage put on the terminal by a resize / a scrambling clear (same in TermRef.v)"""
    g = (35, 1, 0, GARBAGE_ATTR, ())
    w1 = (19990, 2, 0, GARBAGE_ATTR, ())
    w2 = (-1, 0, 0, GARBAGE_ATTR, ())
    row = []
    if kind == 2 and cols > 0:
        row.append(g)
    while kind in (1, 2) and len(row) + 2 <= cols:
        row += [w1, w2]
    while len(row) < cols:
        row.append(g)
    return row


class RefTerm:
    """Reference terminal: VT100 autowrap with the pending-wrap state, IRM, EL with BCE, SGR, SO/SI with
    a designated G1, SGR 10/11 (IBMPC), DECTCEM.  Scrolling is detected, not avoided."""

    CSI = re.compile(r"\x1b\[(\??)([0-9;]*)([@-~])")

    def __init__(self, cols, rows, bce=True):
        self.cols, self.rows, self.bce = cols, rows, bce
        self.grid = [[BLANK] * cols for _ in range(rows)]
        self.x = self.y = 0
        self.pending = False
        self.attr = DEF_ATTR
        self.irm = self.so = self.ibmpc = self.g1 = False
        self.visible = True
        self.scrolled = False
        self.unknown = []

    # -- helpers
    def cs(self):
        if self.ibmpc:
            return 2
        return 1 if (self.so and self.g1) else 0

    @staticmethod
    def fix_split(row):
        out = []
        prev_wide = False
        for i, c in enumerate(row):
            cp, w, cs, at, _comb = c
            if w == 0:
                out.append(c if prev_wide else (32, 1, cs, at, ()))
                prev_wide = False
            elif w == 2:
                if i + 1 < len(row) and row[i + 1][1] == 0:
                    out.append(c)
                    prev_wide = True
                else:
                    out.append((32, 1, cs, at, ()))
                    prev_wide = False
            else:
                out.append(c)
                prev_wide = False
        return out

    def scroll_up(self):
        self.scrolled = True
        self.grid.pop(0)
        self.grid.append([BLANK] * self.cols)

    def put(self, cp, w):
        if w == 0:
            # a zero-width (combining) character joins the character before the cursor and does not advance;
            # with nothing before the cursor on this line it is dropped
            idx = self.x if self.pending else self.x - 1
            row = self.grid[self.y]
            if 0 <= idx < len(row) and row[idx][1] == 0:
                idx -= 1
            if 0 <= idx < len(row):
                c = row[idx]
                self.grid[self.y] = row[:idx] + [(c[0], c[1], c[2], c[3], c[4] + (cp,))] + row[idx + 1:]
            return
        if w > self.cols:
            return
        if self.pending or self.x + w > self.cols:
            self.pending = False
            self.x = 0
            if self.y == self.rows - 1:
                self.scroll_up()
            else:
                self.y += 1
        row = self.grid[self.y]
        cs = self.cs()
        cells = [(cp, w, cs, self.attr, ())] + ([(-1, 0, cs, self.attr, ())] if w == 2 else [])
        if self.irm:
            row = (row[:self.x] + cells + row[self.x:])[:self.cols]
        else:
            row = row[:self.x] + cells + row[self.x + w:]
        self.grid[self.y] = self.fix_split(row)
        self.x += w
        if self.x >= self.cols:
            self.x = self.cols - 1
            self.pending = True

    def resize(self, cols, rows, kind):
        self.cols, self.rows = cols, rows
        self.grid = [scramble_row(cols, kind) for _ in range(rows)]
        self.x = self.y = 0
        self.pending = False

    def scramble(self, kind):
        self.grid = [scramble_row(self.cols, kind) for _ in range(self.rows)]

    # -- input
    def feed(self, data, width_of):
        i, n = 0, len(data)
        while i < n:
            c = data[i]
            if c == "\x1b":
                m = self.CSI.match(data, i)
                if m:
                    i = m.end()
                    self.csi(m.group(1), m.group(2), m.group(3))
                    continue
                if data.startswith("\x1b)0", i):
                    self.g1 = True
                    i += 3
                    continue
                self.unknown.append(data[i:i + 8])
                i += 1
                continue
            i += 1
            o = ord(c)
            if c == "\r":
                self.x = 0
                self.pending = False
            elif c == "\n":
                if self.y == self.rows - 1:
                    self.scroll_up()
                else:
                    self.y += 1
            elif c == "\b":
                if self.x > 0:
                    self.x -= 1
                self.pending = False
            elif c == "\x0e":
                self.so = True
            elif c == "\x0f":
                self.so = False
            elif o < 32:
                self.unknown.append(c)
            else:
                self.put(o, width_of(c))

    def csi(self, priv, params, final):
        nums = [int(p) if p else 0 for p in params.split(";")] if params else []
        n1 = nums[0] if nums and nums[0] else 1
        if priv:
            if params == "25" and final in "hl":
                self.visible = final == "h"
            else:
                self.unknown.append("CSI ?" + params + final)
            return
        if final == "H":
            row = n1
            col = nums[1] if len(nums) > 1 and nums[1] else 1
            self.y = min(max(row - 1, 0), self.rows - 1)
            self.x = min(max(col - 1, 0), self.cols - 1)
            self.pending = False
        elif final == "A":
            self.y = max(0, self.y - n1)
            self.pending = False
        elif final == "B":
            self.y = min(self.rows - 1, self.y + n1)
            self.pending = False
        elif final == "C":
            self.x = min(self.cols - 1, self.x + n1)
            self.pending = False
        elif final == "K" and not nums:
            bg = self.attr[4:8] if self.bce else DEF_COL
            er = (32, 1, 0, DEF_COL + bg + (0,), ())
            row = self.grid[self.y]
            self.grid[self.y] = self.fix_split(row[:self.x] + [er] * (self.cols - self.x))
        elif final in "hl" and params == "4":
            self.irm = final == "h"
        elif final == "m":
            if nums == [10]:
                self.ibmpc = False
            elif nums == [11]:
                self.ibmpc = True
            else:
                self.sgr(nums or [0])
        else:
            self.unknown.append("CSI " + params + final)

    def sgr(self, nums):
        fg, bg, fl = self.attr[0:4], self.attr[4:8], self.attr[8]
        i = 0
        while i < len(nums):
            n = nums[i]
            if n == 0:
                fg, bg, fl = DEF_COL, DEF_COL, 0
            elif n == 1:
                fl |= F_BOLD
            elif n == 3:
                fl |= F_ITAL
            elif n == 4:
                fl |= F_UNDER
            elif n == 5:
                fl |= F_BLINK
            elif n == 7:
                fl |= F_STAND
            elif n == 9:
                fl |= F_STRIKE
            elif 30 <= n <= 37:
                fg = (1, n - 30, 0, 0)
            elif 90 <= n <= 97:
                fg = (1, n - 90 + 8, 0, 0)
            elif n == 39:
                fg = DEF_COL
            elif 40 <= n <= 47:
                bg = (1, n - 40, 0, 0)
            elif 100 <= n <= 107:
                bg = (1, n - 100 + 8, 0, 0)
            elif n == 49:
                bg = DEF_COL
            elif n in (38, 48) and i + 2 < len(nums) and nums[i + 1] == 5:
                v = (2, nums[i + 2], 0, 0)
                i += 2
                if n == 38:
                    fg = v
                else:
                    bg = v
            elif n in (38, 48) and i + 4 < len(nums) and nums[i + 1] == 2:
                v = (3, nums[i + 2], nums[i + 3], nums[i + 4])
                i += 4
                if n == 38:
                    fg = v
                else:
                    bg = v
            else:
                self.unknown.append("SGR %d" % n)
            i += 1
        self.attr = fg + bg + (fl,)

    def snapshot(self):
        out = [self.cols, self.rows, self.x, self.y, int(self.pending), int(self.visible), int(self.scrolled),
               int(self.irm), int(self.so), int(self.ibmpc), int(self.g1)]
        out += list(self.attr)
        for row in self.grid:
            for cp, w, cs, at, comb in row:
                out += [cp, w, cs]
                out += list(at)
                out += [len(comb)] + list(comb)
        return out


# ----------------------------------------------------------------------------------------------
# tokenizer for the real stream (hand scanner; token numbers are those of Model/TermRef.v)
# ----------------------------------------------------------------------------------------------
T_CH, T_CUP, T_HOME, T_CR, T_LF, T_BS, T_CUU, T_CUD, T_CUF, T_SGR, T_EL = 1, 2, 3, 4, 5, 6, 7, 8, 9, 10, 11
T_IRM_ON, T_IRM_OFF, T_SO, T_SI, T_IBM_ON, T_IBM_OFF, T_HIDE, T_SHOW, T_G1, T_UNKNOWN = 12, 13, 14, 15, 16, 17, 18, 19, 20, 99


def tokenize(data, width_of):
    out = []
    i, n = 0, len(data)
    while i < n:
        c = data[i]
        o = ord(c)
        if o == 27:
            if i + 1 < n and data[i + 1] == "[":
                j = i + 2
                priv = False
                if j < n and data[j] == "?":
                    priv = True
                    j += 1
                k = j
                while k < n and (data[k].isdigit() or data[k] == ";"):
                    k += 1
                if k >= n:
                    out += [T_UNKNOWN, o]
                    i += 1
                    continue
                body, fin = data[j:k], data[k]
                nums = [int(p) if p else 0 for p in body.split(";")] if body else []
                i = k + 1
                if priv:
                    if body == "25" and fin == "l":
                        out.append(T_HIDE)
                    elif body == "25" and fin == "h":
                        out.append(T_SHOW)
                    else:
                        out += [T_UNKNOWN, ord(fin)]
                elif fin == "H" and not nums:
                    out.append(T_HOME)
                elif fin == "H" and len(nums) == 2:
                    out += [T_CUP, nums[0], nums[1]]
                elif fin == "A" and len(nums) == 1:
                    out += [T_CUU, nums[0]]
                elif fin == "B" and len(nums) == 1:
                    out += [T_CUD, nums[0]]
                elif fin == "C" and len(nums) == 1:
                    out += [T_CUF, nums[0]]
                elif fin == "K" and not nums:
                    out.append(T_EL)
                elif fin == "h" and body == "4":
                    out.append(T_IRM_ON)
                elif fin == "l" and body == "4":
                    out.append(T_IRM_OFF)
                elif fin == "m" and nums == [11]:
                    out.append(T_IBM_ON)
                elif fin == "m" and nums == [10]:
                    out.append(T_IBM_OFF)
                elif fin == "m":
                    out += [T_SGR, len(nums)] + nums
                else:
                    out += [T_UNKNOWN, ord(fin)]
                continue
            if data[i:i + 3] == "\x1b)0":
                out.append(T_G1)
                i += 3
                continue
            out += [T_UNKNOWN, o]
            i += 1
            continue
        i += 1
        if o == 13:
            out.append(T_CR)
        elif o == 10:
            out.append(T_LF)
        elif o == 8:
            out.append(T_BS)
        elif o == 14:
            out.append(T_SO)
        elif o == 15:
            out.append(T_SI)
        elif o < 32:
            out += [T_UNKNOWN, o]
        else:
            out += [T_CH, o, width_of(c)]
    return out


def print_tokens(toks):
    """tokens (as nested lists [code, args...]) -> character stream; inverse of tokenize"""
    out = []
    for t in toks:
        k = t[0]
        if k == T_CH:
            out.append(chr(t[1]))
        elif k == T_CUP:
            out.append("\x1b[%d;%dH" % (t[1], t[2]))
        elif k == T_HOME:
            out.append("\x1b[H")
        elif k == T_CR:
            out.append("\r")
        elif k == T_LF:
            out.append("\n")
        elif k == T_BS:
            out.append("\b")
        elif k in (T_CUU, T_CUD, T_CUF):
            out.append("\x1b[%d%s" % (t[1], {T_CUU: "A", T_CUD: "B", T_CUF: "C"}[k]))
        elif k == T_SGR:
            out.append("\x1b[" + ";".join(str(p) for p in t[1:]) + "m")
        elif k == T_EL:
            out.append("\x1b[K")
        elif k == T_IRM_ON:
            out.append("\x1b[4h")
        elif k == T_IRM_OFF:
            out.append("\x1b[4l")
        elif k == T_SO:
            out.append("\x0e")
        elif k == T_SI:
            out.append("\x0f")
        elif k == T_IBM_ON:
            out.append("\x1b[11m")
        elif k == T_IBM_OFF:
            out.append("\x1b[10m")
        elif k == T_HIDE:
            out.append("\x1b[?25l")
        elif k == T_SHOW:
            out.append("\x1b[?25h")
        elif k == T_G1:
            out.append("\x1b)0")
        else:
            raise core.MachineryError("cannot print token %r" % (t,))
    return "".join(out)


# ----------------------------------------------------------------------------------------------
# the implementation under test
# ----------------------------------------------------------------------------------------------
class FakeCanvas:
    """rows: list of rows, each a list of (attr, cs, bytes) - only what draw_screen uses"""

    def __init__(self, rows, cursor=None):
        self._rows = rows
        self.cursor = cursor

    def rows(self):
        return len(self._rows)

    def cols(self):
        return 0

    def content(self, *args, **kwargs):
        for row in self._rows:
            yield list(row)


class InterruptingCanvas:
    """delegates to a canvas; SIGWINCH (the screen's handler) is delivered while row k is being produced"""

    def __init__(self, canvas, scr, k):
        self._canvas, self._scr, self._k = canvas, scr, k
        self.cursor = canvas.cursor

    def rows(self):
        return self._canvas.rows()

    def cols(self):
        return self._canvas.cols()

    def content(self, *args, **kwargs):
        for y, row in enumerate(self._canvas.content(*args, **kwargs)):
            if y == self._k:
                self._scr._sigwinch_handler()
            yield row


def make_screen(case):
    import urwid
    from urwid.display import raw

    class CapScreen(raw.Screen):
        def __init__(self):
            super().__init__(input=None, output=None)
            self.out = []

        def write(self, data):
            self.out.append(data)

        def flush(self):
            pass

        def take(self):
            data = "".join(self.out)
            self.out = []
            return data

    scr = CapScreen()
    scr.term = "xterm"
    scr.fg_bright_is_bold = not bool(case["bib"])      # force the re-registration below
    scr.bg_bright_is_blink = bool(case.get("bbb"))
    scr.back_color_erase = bool(case["bce"])
    if case.get("props_late"):
        # the palette is registered at the default depth, the terminal properties are set afterwards
        scr.register_palette([tuple(p) for p in case.get("palette", [])])
        scr.set_terminal_properties(colors=case["colors"], bright_is_bold=bool(case["bib"]))
    else:
        scr.set_terminal_properties(colors=case["colors"], bright_is_bold=bool(case["bib"]))
        scr.register_palette([tuple(p) for p in case.get("palette", [])])
    scr._started = True
    scr._c04_palette = {p[0]: p for p in case.get("palette", [])}
    if case.get("partial"):
        scr._rows_used = 0
    return scr


def width_fn(enc):
    from urwid import str_util
    if enc == "utf-8":
        return str_util.get_char_width
    return lambda ch: 1


def attr_object(desc, cache):
    """case attribute descriptor -> the object put into the canvas"""
    from urwid.display.common import AttrSpec
    if desc is None:
        return None
    key = core.canon(desc)
    if key not in cache:
        if desc[0] in ("pal", "undef"):
            cache[key] = desc[1]
        elif desc[0] == "spec":
            cache[key] = AttrSpec(desc[1], desc[2], desc[3])
        else:
            raise core.MachineryError("bad attribute descriptor %r" % (desc,))
    return cache[key]


def build_widget(spec, attrs, cache):
    """tiny widget description language -> (widget, 'box' | 'flow')"""
    import urwid
    k = spec[0]
    if k == "text":
        markup = []
        for a, s in spec[1]:
            markup.append((attr_object(attrs[a], cache), s))
        return urwid.Text(markup or "", align=spec[2], wrap=spec[3]), "flow"
    if k == "edit":
        return urwid.Edit(spec[1], spec[2]), "flow"
    if k == "solid":
        return urwid.SolidFill(spec[1]), "box"
    if k == "attr":
        w, kind = build_widget(spec[2], attrs, cache)
        return urwid.AttrMap(w, attr_object(attrs[spec[1]], cache)), kind
    if k == "filler":
        w, kind = build_widget(spec[2], attrs, cache)
        return urwid.Filler(w, valign=spec[1]), "box"
    if k == "cols":
        items = []
        for sub in spec[1]:
            w, kind = build_widget(sub, attrs, cache)
            if kind == "flow":
                w = urwid.Filler(w, valign="top")
            items.append(w)
        return urwid.Columns(items, dividechars=spec[2]), "box"
    if k == "pile":
        items = []
        for sub in spec[1]:
            w, kind = build_widget(sub, attrs, cache)
            items.append(w if kind == "box" else ("pack", w))
        if not any(not isinstance(i, tuple) for i in items):
            items.append(urwid.SolidFill(" "))
        return urwid.Pile(items), "box"
    if k == "linebox":
        w, kind = build_widget(spec[1], attrs, cache)
        if kind == "flow":
            w = urwid.Filler(w, valign="top")
        return urwid.LineBox(w), "box"
    raise core.MachineryError("bad widget spec %r" % (spec,))


def build_canvas(frame, case, cache):
    """frame descriptor -> canvas object handed to draw_screen"""
    import urwid
    cols, rows = frame["cols"], frame["rows"]
    cv = frame["canvas"]
    cursor = tuple(frame["cursor"]) if frame.get("cursor") is not None else None
    enc = case["enc"]
    if cv[0] == "rows":
        rws = []
        for row in cv[1]:
            rws.append([(attr_object(case["attrs"][a], cache), CS_NAME[cs], t.encode(enc if cs != 2 else "iso8859-1"))
                        for a, cs, t in row])
        return FakeCanvas(rws, cursor)
    if cv[0] == "textcanvas":
        text, attr, csl = [], [], []
        for row in cv[1]:
            bs = [t.encode(enc if cs != 2 else "iso8859-1") for _a, cs, t in row]
            text.append(b"".join(bs))
            attr.append([(attr_object(case["attrs"][a], cache), len(b)) for (a, _cs, _t), b in zip(row, bs)])
            csl.append([(CS_NAME[cs], len(b)) for (_a, cs, _t), b in zip(row, bs)])
        c = urwid.TextCanvas(text, attr, csl, cursor=cursor, maxcol=cols, check_width=False)
        return c
    if cv[0] == "widget":
        w, kind = build_widget(cv[1], case["attrs"], cache)
        if kind == "flow":
            w = urwid.Filler(w, valign="top")
        c = urwid.CompositeCanvas(w.render((cols, rows), focus=True))
        if cursor is not None:
            c.cursor = cursor
        return c
    raise core.MachineryError("bad canvas descriptor %r" % (cv[0],))


def intern_attr(a, table):
    """index of a in table under Python equality with type distinction (what `!=` and `==` on rows see)"""
    for i, b in enumerate(table):
        if type(a) is type(b) and a == b:
            return i
    table.append(a)
    return len(table) - 1


def run_history(case, with_html=True):
    """Drive the real Screen through the frames.  Returns (result, aux) where aux keeps the per-frame
    canvas rows (objects) for the model encoder and the oracle."""
    import urwid
    from urwid import str_util
    enc = case["enc"]
    urwid.set_encoding(enc)
    try:
        scr = make_screen(case)
        wof = width_fn(enc)
        term = None
        cache = {}
        frames_out = []
        aux = {"screen": scr, "frames": [], "attr_table": [None]}
        prev_canvas = None
        origin = case.get("origin", 0) if case.get("partial") else 0
        for fr in case["frames"]:
            op = fr["op"]
            rec = {"op": op}
            if op == "clear":
                scr.clear()
                if term is not None and fr.get("scramble") is not None and not case.get("partial"):
                    term.scramble(fr["scramble"])
                frames_out.append({"toks": [], "term": term.snapshot() if term else []})
                aux["frames"].append(rec)
                continue
            if op == "winch":
                scr._sigwinch_handler()
                frames_out.append({"toks": [], "term": term.snapshot() if term else []})
                aux["frames"].append(rec)
                continue
            if op == "ack":
                scr.parse_input(None, None, [], wait_for_more=False)
                frames_out.append({"toks": [], "term": term.snapshot() if term else []})
                aux["frames"].append(rec)
                continue
            if op != "draw":
                raise core.MachineryError("unknown op " + str(op))
            cols, rows = fr["cols"], fr["rows"]
            if term is None:
                term = RefTerm(cols, rows, bce=True)
                if case.get("partial"):
                    term.y = origin
                elif fr.get("scramble") is not None:
                    term.scramble(fr["scramble"])
            elif (term.cols, term.rows) != (cols, rows):
                term.resize(cols, rows, fr.get("scramble") or 0)
            if fr.get("same") and prev_canvas is not None:
                canvas = prev_canvas
            else:
                canvas = build_canvas(fr, case, cache)
            content = [list(r) for r in canvas.content()] if not fr.get("badrows") else None
            err = None
            resized = bool(scr._resized)
            drawn = canvas
            if fr.get("intr") is not None:
                drawn = InterruptingCanvas(canvas, scr, fr["intr"])
                resized = True          # nothing is painted, nothing is demanded
            try:
                scr.draw_screen((cols, rows + (1 if fr.get("badrows") else 0)), drawn)
            except (ValueError, IndexError, TypeError, KeyError, RuntimeError, AssertionError, UnicodeError) as e:
                err = type(e).__name__
            data = scr.take()
            term.feed(data, wof)
            toks = tokenize(data, wof)
            rec.update(canvas=canvas, content=content, cursor=canvas.cursor, err=err, cols=cols, rows=rows,
                       rows_used=scr._rows_used, same=bool(fr.get("same") and prev_canvas is not None),
                       unknown=list(term.unknown), data=data, resized=resized, cy_attr=scr._cy,
                       grid=[list(r) for r in term.grid], tx=term.x, ty=term.y, pending=term.pending,
                       visible=term.visible, scrolled=term.scrolled, irm=term.irm, ibmpc=term.ibmpc)
            if with_html and content is not None and not err and not resized and fr.get("html"):
                rec["html"] = html_check(case, fr, canvas, content, cols, rows)
            fo = {"toks": toks, "term": term.snapshot()}
            if err:
                fo["err"] = err
            frames_out.append(fo)
            aux["frames"].append(rec)
            if not err and fr.get("intr") is None:
                prev_canvas = canvas
        aux["term"] = term
        return {"frames": frames_out}, aux
    finally:
        urwid.set_encoding("utf-8")


# ----------------------------------------------------------------------------------------------
# what the property demands: canvas content -> expected cells
# ----------------------------------------------------------------------------------------------
def palette_spec(entry, colors):
    """the AttrSpec a palette entry (name, fg, bg, mono, fg_high, bg_high) stands for at a colour depth, written from
    the documentation of register_palette_entry: 16 colours -> fg/bg; monochrome -> mono; 256 / 2**24 -> the high
    colours (default: fg/bg); 88 colours -> the high colours unless one of them is 'hN' with N > 15 (those differ
    between 88 and 256 colours), then fg/bg"""
    from urwid.display.common import AttrSpec
    _name, fg, bg = entry[0], entry[1], entry[2]
    mono = entry[3] if len(entry) > 3 and entry[3] is not None else "default"
    fgh = entry[4] if len(entry) > 4 and entry[4] is not None else fg
    bgh = entry[5] if len(entry) > 5 and entry[5] is not None else bg
    if colors == 16:
        return AttrSpec(fg, bg, 16)
    if colors == 1:
        return AttrSpec(mono or "default", "default", 1)
    if colors == 88:
        def large(desc):
            first = desc.split(",")[0].strip()
            return first.startswith("h") and first[1:].isdigit() and int(first[1:]) > 15
        if large(fgh) or large(bgh):
            return AttrSpec(fg, bg, 16)
        return AttrSpec(fgh, bgh, 88)
    return AttrSpec(fgh, bgh, colors)


def expected_attr(a, scr):
    """(fg, bg, flags) a correct display shows for canvas attribute a - from the palette definition / the AttrSpec"""
    from urwid.display.common import AttrSpec
    if isinstance(a, AttrSpec):
        sp = a
    else:
        ent = getattr(scr, "_c04_palette", {}).get(a) if isinstance(a, str) else None
        if ent is not None:
            sp = palette_spec(ent, scr.colors)
        else:
            sp = AttrSpec("default", "default")

    def col(basic, high, true, num, rgb):
        if true:
            return (3,) + tuple(rgb)
        if high:
            return (2, num, 0, 0)
        if basic:
            return (1, num, 0, 0)
        return DEF_COL
    rgb = sp.get_rgb_values() if (sp.foreground_true or sp.background_true) else (0,) * 6
    fg = col(sp.foreground_basic, sp.foreground_high, sp.foreground_true, sp.foreground_number, rgb[0:3])
    bg = col(sp.background_basic, sp.background_high, sp.background_true, sp.background_number, rgb[3:6])
    fl = 0
    for bit, name in ((F_BOLD, "bold"), (F_ITAL, "italics"), (F_UNDER, "underline"), (F_BLINK, "blink"),
                      (F_STAND, "standout"), (F_STRIKE, "strikethrough")):
        if getattr(sp, name):
            fl |= bit
    if fg[0] == 1 and fg[1] > 7 and scr.fg_bright_is_bold:
        fg = (1, fg[1] - 8, 0, 0)
        fl |= F_BOLD
    if bg[0] == 1 and bg[1] > 7 and scr.bg_bright_is_blink:
        bg = (1, bg[1] - 8, 0, 0)
        fl |= F_BLINK
    return fg + bg + (fl,)


def expected_cells(row, enc, scr, wof):
    out = []
    for a, cs, run in row:
        at = expected_attr(a, scr)
        for ch in run.decode(enc, "replace"):
            o = ord(ch)
            if o < 32 and cs != "U":
                if enc == "utf-8":
                    continue            # takes no column in the canvas (str_util), takes no cell on the screen
                o, ch = 63, "?"
            w = wof(ch)
            if w == 0:
                # joins the character before it in the row (also across runs); dropped at the start of a row
                k = len(out) - 1
                if k >= 0 and out[k][1] == 0:
                    k -= 1
                if k >= 0:
                    c = out[k]
                    out[k] = (c[0], c[1], c[2], c[3], c[4] + (o,))
                continue
            out.append((o, w, CS_CODE[cs], at, ()))
            if w == 2:
                out.append((-1, 0, CS_CODE[cs], at, ()))
    return out


def visually_equal(exp, got):
    """VISUAL cell equality: on a blank only what can be seen on a blank is compared"""
    ecp, ew, ecs, eat, ecomb = exp
    gcp, gw, gcs, gat, gcomb = got
    if (ecp, ew, ecomb) != (gcp, gw, gcomb):
        return False
    vis = F_UNDER | F_STAND | F_STRIKE
    if ecp == 32 and not ecomb:
        if (eat[8] & vis) != (gat[8] & vis):
            return False
        if eat[8] & F_STAND:          # reverse video: the foreground colour is what fills the cell
            return eat[0:8] == gat[0:8]
        return eat[4:8] == gat[4:8]
    return eat == gat and ecs == gcs


def cellstr(c):
    cp, w, cs, at, comb = c
    ch = "<cont>" if cp < 0 else repr(chr(cp) + "".join(chr(k) for k in comb))
    return "%s cs=%s fg=%s bg=%s flags=%d" % (ch, CS_NAME.get(cs), list(at[0:4]), list(at[4:8]), at[8])


def comb_first_run(row, enc, wof):
    """some run of the row starts with a zero-width character"""
    for _a, _cs, run in row:
        t = run.decode(enc, "replace")
        if t and wof(t[0]) == 0:
            return True
    return False


def is_blank_row(row):
    return len(row) == 1 and not row[0][2].strip()


# ----------------------------------------------------------------------------------------------
# HTML back-end oracle
# ----------------------------------------------------------------------------------------------
SPAN = re.compile(r'<span style="color:(#[0-9a-f]{6});background:(#[0-9a-f]{6})([^"]*)">([^<]*)</span>')


def html_colours(sp):
    """(fg, bg) strings html_span uses for an AttrSpec (before the cursor swap)"""
    from urwid.display import html_fragment
    rgb = sp.get_rgb_values()
    d = html_fragment._default_aspec.get_rgb_values()
    f = rgb[0:3] if rgb[0] is not None else d[0:3]
    b = rgb[3:6] if rgb[3] is not None else d[3:6]
    hf, hb = "#%02x%02x%02x" % tuple(f), "#%02x%02x%02x" % tuple(b)
    if sp.standout:
        hf, hb = hb, hf
    return hf, hb


def html_generator(case):
    from urwid.display import html_fragment
    gen = html_fragment.HtmlGenerator()
    gen.set_terminal_properties(colors=case["colors"])
    gen.register_palette([tuple(p) for p in case.get("palette", [])])
    return gen


def html_run(case):
    """kind 'html': draw one canvas with the real HtmlGenerator, parse the fragment into rows of [fg, bg, text]"""
    import urwid
    from urwid.display import html_fragment
    urwid.set_encoding(case["enc"])
    try:
        gen = html_generator(case)
        canvas = build_canvas(case, case, {})
        html_fragment.HtmlGenerator.fragments = []
        try:
            gen.draw_screen((case["cols"], case["rows"] + (1 if case.get("badrows") else 0)), canvas)
        except (KeyError, ValueError, IndexError, TypeError, UnicodeError) as e:
            return {"err": type(e).__name__}
        finally:
            frags, html_fragment.HtmlGenerator.fragments = html_fragment.HtmlGenerator.fragments, []
        frag = frags[-1]
        if not (frag.startswith("<pre>") and frag.endswith("</pre>")):
            return {"unparsed": frag[:200]}
        lines = frag[5:-6].split("\n")
        if lines and lines[-1] == "":
            lines.pop()
        rows = []
        for line in lines:
            pos, spans = 0, []
            for m in SPAN.finditer(line):
                if m.start() != pos:
                    return {"unparsed": line[:200]}
                pos = m.end()
                spans.append([m.group(1), m.group(2), m.group(4)])      # the markup as emitted (escaped)
            if pos != len(line):
                return {"unparsed": line[:200]}
            rows.append(spans)
        return {"html": rows}
    finally:
        urwid.set_encoding("utf-8")


def html_check(case, fr, canvas, content, cols, rows):
    """draw the canvas with HtmlGenerator and compare: text row by row, <= 1 highlighted cell"""
    import urwid
    from urwid import str_util
    from urwid.display import html_fragment
    from urwid.display.common import AttrSpec
    msgs = []
    gen = html_fragment.HtmlGenerator()
    gen.set_terminal_properties(colors=case["colors"])
    gen.register_palette([tuple(p) for p in case.get("palette", [])])
    html_fragment.HtmlGenerator.fragments = []
    undefined = any(not isinstance(a, AttrSpec) and a not in gen._palette for row in content for a, _cs, _r in row)
    try:
        gen.draw_screen((cols, rows), canvas)
    except Exception as e:  # noqa: BLE001
        html_fragment.HtmlGenerator.fragments = []
        if undefined and isinstance(e, KeyError):
            return ["html: HtmlGenerator.draw_screen raised KeyError for an undefined palette name"]
        return ["html: HtmlGenerator.draw_screen raised " + type(e).__name__]
    frag = html_fragment.HtmlGenerator.fragments[-1]
    html_fragment.HtmlGenerator.fragments = []
    if not (frag.startswith("<pre>") and frag.endswith("</pre>")):
        return ["html: fragment is not a <pre> block"]
    body = frag[5:-6]
    lines = body.split("\n")
    if lines and lines[-1] == "":
        lines.pop()
    if len(lines) != len(content):
        return ["html: %d rows emitted for a canvas of %d rows" % (len(lines), len(content))]
    enc = case["enc"]
    highlights = []
    for y, (line, row) in enumerate(zip(lines, content)):
        pos = 0
        spans = []
        for m in SPAN.finditer(line):
            if m.start() != pos:
                msgs.append("html: row %d has text outside spans" % y)
                break
            pos = m.end()
            spans.append((m.group(1), m.group(2), _html.unescape(m.group(4))))
        else:
            if pos != len(line):
                msgs.append("html: row %d has text outside spans" % y)
        got = "".join(s[2] for s in spans)
        want = "".join("".join("?" if ord(ch) < 32 else ch for ch in run.decode(enc, "replace")) for _a, _cs, run in row)
        if got != want:
            msgs.append("html: row %d text %r differs from the canvas text %r" % (y, got, want))
            continue
        # highlight detection: a non-empty span whose colours are the swap of what its run's attribute gives
        col = 0
        chars = []                     # (column, expected (fg,bg)) per character
        for a, _cs, run in row:
            if isinstance(a, AttrSpec):
                sp = a
            else:
                sp = gen._palette.get(a, gen._palette[None])[COLOR_IDX[gen.colors]]
            hf, hb = html_colours(sp)
            for ch in run.decode(enc, "replace"):
                chars.append((col, hf, hb))
                col += str_util.get_char_width(ch) if enc == "utf-8" else 1
        k = 0
        for fgc, bgc, text in spans:
            if text:
                c0, hf, hb = chars[k]
                if hf != hb and (fgc, bgc) == (hb, hf):
                    highlights.append((y, c0, text))
                elif (fgc, bgc) != (hf, hb):
                    msgs.append("html: row %d column %d colours %s/%s, the attribute gives %s/%s" % (y, c0, fgc, bgc, hf, hb))
            k += len(text)
    if len(highlights) > 1:
        msgs.append("html: %d cursor cells highlighted" % len(highlights))
    cur = canvas.cursor
    if cur is None and highlights:
        msgs.append("html: a cell is highlighted but the canvas has no cursor")
    if cur is not None and len(highlights) == 1:
        hy, hx, text = highlights[0]
        w = sum(str_util.get_char_width(ch) if enc == "utf-8" else 1 for ch in text)
        if hy != cur[1] or not (hx <= cur[0] < hx + max(w, 1)):
            msgs.append("html: highlighted cell at (%d,%d), canvas cursor at %r" % (hx, hy, tuple(cur)))
    return msgs


# ----------------------------------------------------------------------------------------------
# the check
# ----------------------------------------------------------------------------------------------
PALETTE = [
    ["p", "dark red", "light gray", "bold", "#f00", "g50"],
    ["q", "yellow,underline", "dark blue", "underline", "#ff0,underline", "#006"],
    ["s", "white,standout", "black", "standout", "#fff,standout", "g7"],
    ["k", "light green,strikethrough", "default", "strikethrough", "#0f0,strikethrough", "default"],
    ["b", "light blue,italics", "dark gray", "bold", "h12,blink", "h8"],
    ["g", "black", "dark green", "", "g19", "#080"],
    ["u", "dark red", "default", "standout", "#f00,underline", "default"],      # standout / underline only at some depths
    ["h", "dark green", "black", "", "h15", "h0"],                               # largest hN still used at 88 colours
    ["i", "dark cyan", "brown", "underline", "h16,bold", "h15"],                 # smallest hN that falls back to fg/bg at 88
]


class C04(core.Check):
    pid = "C04"
    gen_modules = ["attrspec_escape"]
    model_targets = ["theories/Model/TermRef.vo", "theories/Model/DrawScreen.vo", "theories/Model/HtmlGen.vo"]
    prop_file = "theories/Properties/C04.v"
    extract_v = "Extract/C04X.v"
    allowed_axioms = set()
    design_ref = "DESIGN.md section 5, C04 (+ section 6 rows C04)"
    search_budget = {"quick": 60, "thorough": 300}
    correspondence_name = "tokenised real output vs model tokens; Python reference terminal vs extracted TermRef"
    technique = ("Coq theorems (row/loop invariants, refinement of the escape stream to a reference VT100/xterm "
                 "interpreter) about a hand model of draw_screen/_last_row/_attrspec_to_escape; exact token-stream "
                 "correspondence with the real Screen on every frame; independent Python terminal interpreter fed with "
                 "the real bytes as oracle; HTML back-end judged by the oracle only")
    level_text = ("Proved in Coq (Properties/C04.v, closed under the global context), for every screen size >= 1x1, every "
                  "attribute table / colour depth / bright-is-bold / bright-is-blink / BCE setting, UTF-8 canvases with "
                  "characters of width 1 and 2 and narrow 8-bit encodings with charset flags None, '0' and 'U': "
                  "(sgr_means_visual_attribute) the SGR list of every AttrSpec sets exactly its visual attribute; "
                  "(draw_paints) from ANY state where Screen object and terminal agree, the tokens of one draw_screen make "
                  "the reference terminal show the canvas in every cell under visual equality, cursor shown at the canvas "
                  "cursor or hidden, no scrolling, agreement re-established - covering the row diff, the EL shortcut and "
                  "the bottom-right insert trick; (history_paints, history_keeps_sync, draws_paint_fullscreen) for every "
                  "history of draws, redraws of the same canvas object, clear() over arbitrary terminal contents and size "
                  "changes; (incremental_eq_full) incremental redraw and forced full repaint paint the same picture; "
                  "(redraw_same_canvas_writes_nothing); (draw_paints_partial, draws_paint_partial, "
                  "partial_clear_keeps_sync) partial display mode with the display origin on terminal row 0: rows "
                  "0.._rows_used shown (a blank canvas row left off the display is demanded as blank text only), rows below "
                  "blank, cursor, no scrolling, for every history of draws, clear() and frames abandoned by a mid-draw SIGWINCH "
                  "(partial_history_paints, partial_history_keeps_sync); (html_exact) the HTML back-end's "
                  "spans carry exactly the canvas text row by row with at most one one-character span swapped, for every "
                  "canvas and cursor; (html_markup_reads_back) reading the html.escape'd markup back gives the canvas text; "
                  "(html_cursor_cell) with the cursor on a canvas cell exactly one span is highlighted and it is the "
                  "character covering the cursor column; spec_to_sgr is _attrspec_to_escape translated from the source on every "
                  "run (py2v), so sgr_means_visual_attribute is re-checked against the code; (visual_colours) the colour of every kind (true, high, basic, default) spelled out; "
                  "(row_cells_is_threaded) zero-width (combining) characters and C0 control characters (dropped under UTF-8, '?' "
                  "under narrow encodings) are covered by all of the above except as the first character of a run - the "
                  "reference terminal joins a zero-width character to the character before the cursor.  (draw_paints_any_text, "
                  "draws_paint_any, full-screen mode) the same for ANY text: runs that start with a zero-column character or hold "
                  "no column, with the row spec threading combining characters across runs (both earlier refutation witnesses "
                  "are now instances, kept in the corpus).  Correspondence/oracle only: everything above on the real code (exact token streams, all "
                  "five colour depths, utf-8/ascii/iso8859-1, widgets), partial display with an origin below row 0, and for "
                  "the HTML back-end the colour strings.")
    level_note = ("Trusted: Coq kernel; the hand-written model (tied by exact correspondence, not proved against Python); "
                  "TermRef.v as the definition of 'VT100/xterm-compatible' for the modelled subset (cross-checked against a "
                  "second, independently parsed Python interpreter on real and random streams); the harness decoding of "
                  "bytes to (code point, width) with urwid's own width function; ExtrOcamlBasic + driver; Python oracle.  "
                  "Assumes the terminal measures characters like urwid; fbterm, the Windows branch, wide (CJK double-byte) "
                  "encodings and anything a physical terminal does beyond the modelled subset are not covered.")
    rule = ("case = configuration (encoding, colour depth, bright-is-bold/blink, BCE, partial display + origin) + history of "
            "frames (draw of explicit rows via FakeCanvas or TextCanvas / of a rendered widget tree, same-canvas redraw, "
            "clear() with terminal scrambling, SIGWINCH + ack + new size, draw while resize pending, size/rows mismatch), "
            "plus terminal-only random token streams and single HtmlGenerator draws (rows, TextCanvas, widgets; cursor on/off); exhaustive single frames for every row over {a, blank, wide} x "
            "{default, standout} up to 4 (thorough 5) columns as only/bottom/top row, BCE on/off; non-trivial = some "
            "frame wrote tokens; distinct by hash of (case, outcome)")
    trusted_base = [
        "Coq 8.16.1 kernel (coqc; vm_compute only in closed examples)",
        "tools/py2v translator + tools/py2v/mods/attrspec_escape.py (f-strings of _attrspec_to_escape -> SGR parameter lists; "
        "the body of spec_to_sgr is regenerated from _raw_display_base.py on every run)",
        "hand-written Model/DrawScreen.v and Model/HtmlGen.v (validated by the exact token / span correspondence on every case, "
        "not proved against Python)",
        "Model/TermRef.v as the meaning of a VT100/xterm-compatible terminal for the modelled subset "
        "(compared cell by cell with the independently parsed Python RefTerm on real and random streams)",
        "Model/PaintSpec.v: visual cell equality and the AttrSpec -> visible attribute table as the meaning of 'shows the canvas'",
        "harness decoding of canvas bytes to (code point, column width) using urwid.str_util.get_char_width, attribute "
        "interning by Python equality, the reading of AttrSpec properties",
        "extraction: ExtrOcamlBasic only; tools/driver/driver.ml",
        "Python oracle (RefTerm, expectations, HTML parser) in harness/props/c04.py",
    ]
    assumptions = [
        "the terminal measures character widths like urwid (str_util.get_char_width); a zero-width character joins the character "
        "before the cursor (the last one written in the pending-wrap state) and is dropped at the start of a line",
        "canvas rows are exactly maxcol columns wide and runs are non-empty; runs in the IBMPC charset 'U' carry no C0 control "
        "characters (they are sent untranslated)",
        "under UTF-8 the canvas carries no charset flags",
        "palette entries are registered before drawing and terminal properties are changed only through set_terminal_properties",
        "partial display: the lines at and below the display origin are blank when the screen starts and the used rows fit on the terminal; "
        "for rows that are blank in the canvas only the text is compared",
        "fbterm, the Windows branch, double-byte (CJK) encodings are not covered",
    ]

    # ---------- implementation ----------
    _memo = (None, None)

    def history(self, case):
        key = core.canon(case)
        if self._memo[0] != key:
            C04._memo = (key, run_history(case))
        return self._memo[1]

    def run_impl(self, case):
        if case.get("kind") == "term":
            return self.run_term(case)
        if case.get("kind") == "html":
            return html_run(case)
        res, _aux = self.history(case)
        return res

    @staticmethod
    def run_term(case):
        """terminal-only case: the Python reference terminal on a printed token stream (ties RefTerm to TermRef.v
        also on streams draw_screen never writes: wrapping, scrolling, LF, relative moves at the edges)"""
        from urwid import str_util
        data = print_tokens(case["toks"])
        term = RefTerm(case["cols"], case["rows"])
        term.feed(data, str_util.get_char_width)
        toks = tokenize(data, str_util.get_char_width)
        return {"toks": toks, "term": term.snapshot()}

    # ---------- wire ----------
    @staticmethod
    def spec_ints(kind, sp):
        fl = 0
        for bit, name in ((1, "bold"), (2, "italics"), (4, "underline"), (8, "blink"), (16, "standout"), (32, "strikethrough")):
            if getattr(sp, name):
                fl |= bit

        def col(true, high, basic, num, rgb):
            if true:
                return [3, num] + list(rgb)
            if high:
                return [2, num, 0, 0, 0]
            if basic:
                return [1, num, 0, 0, 0]
            return [0, num, 0, 0, 0]
        rgb = sp.get_rgb_values() if (sp.foreground_true or sp.background_true) else (0,) * 6
        rgb = [v if v is not None else 0 for v in rgb]
        return ([kind] + col(sp.foreground_true, sp.foreground_high, sp.foreground_basic, sp.foreground_number, rgb[0:3])
                + col(sp.background_true, sp.background_high, sp.background_basic, sp.background_number, rgb[3:6]) + [fl])

    def encode(self, case):
        """history -> ints for sub-model 1 of DrawScreen.run_case (built from the canvases actually drawn)"""
        from urwid.display.common import AttrSpec
        if case.get("kind") == "term":
            from urwid import str_util
            return [2, case["cols"], case["rows"]] + tokenize(print_tokens(case["toks"]), str_util.get_char_width)
        if case.get("kind") == "html":
            return self.encode_html(case)
        _res, aux = self.history(case)
        scr = aux["screen"]
        wof = width_fn(case["enc"])
        enc = case["enc"]
        table = [None]
        frames = []
        for fr, rec in zip(case["frames"], aux["frames"]):
            op = rec["op"]
            if op == "clear":
                k = fr.get("scramble")
                frames.append([2, -1 if k is None else k])
            elif op == "winch":
                frames.append([3])
            elif op == "ack":
                frames.append([4])
            else:
                k = fr.get("scramble")
                f = [1, rec["cols"], rec["rows"], rec["rows"] + (1 if fr.get("badrows") else 0), -1 if k is None else k,
                     1 if rec["same"] else 0, 1 if fr.get("intr") is not None else 0]
                cur = rec["cursor"]
                f += [0] if cur is None else [1, cur[0], cur[1]]
                content = rec["content"]
                if content is None:
                    content = [list(r) for r in rec["canvas"].content()]
                f.append(len(content))
                for row in content:
                    f.append(len(row))
                    for a, cs, run in row:
                        chars = run.decode(enc, "replace")
                        f += [intern_attr(a, table), CS_CODE[cs], len(chars)]
                        for ch in chars:
                            f += [ord(ch), wof(ch)]
                frames.append(f)
        default = AttrSpec("default", "default")
        tab = []
        for a in table:
            try:
                registered = a in scr._pal_escape
            except TypeError:
                registered = False
            if registered:
                tab += self.spec_ints(0, scr._pal_attrspec[a])
            elif isinstance(a, AttrSpec):
                tab += self.spec_ints(1, a)
            else:
                tab += self.spec_ints(2, default)
        out = [1, int(enc == "utf-8"), int(bool(case["bce"])), int(bool(case["bib"])), int(bool(case.get("bbb"))),
               int(bool(case.get("partial"))), case.get("origin", 0) if case.get("partial") else 0, len(table)] + tab
        out.append(len(frames))
        for f in frames:
            out += f
        return out

    _html_memo = (None, None)

    def encode_html(self, case):
        import urwid
        from urwid import str_util
        from urwid.display.common import AttrSpec
        urwid.set_encoding(case["enc"])
        try:
            gen = html_generator(case)
            canvas = build_canvas(case, case, {})
            table = [None]
            out_rows = []
            for row in canvas.content():
                r = [len(row)]
                for a, cs, run in row:
                    chars = run.decode(case["enc"], "replace")
                    r += [intern_attr(a, table), CS_CODE[cs], len(chars)]
                    for ch in chars:
                        r += [ord(ch), str_util.get_char_width(ch)]
                out_rows.append(r)
            kinds, colours = [], []
            for a in table:
                if isinstance(a, AttrSpec):
                    kinds.append(1)
                    colours.append(html_colours(a))
                elif a in gen._palette:
                    kinds.append(0)
                    colours.append(html_colours(gen._palette[a][COLOR_IDX[gen.colors]]))
                else:
                    kinds.append(2)
                    colours.append(html_colours(gen._palette[None][COLOR_IDX[gen.colors]]))
            C04._html_memo = (core.canon(case), colours)
            cur = case.get("cursor")
            out = [3, case["rows"] + (1 if case.get("badrows") else 0)] + ([0] if cur is None else [1, cur[0], cur[1]])
            out += [len(out_rows)]
            for r in out_rows:
                out += r
            return out
        finally:
            urwid.set_encoding("utf-8")

    def decode_html(self, case, ints):
        if self._html_memo[0] != core.canon(case):
            self.encode_html(case)
        colours = self._html_memo[1]
        if not ints or ints[0] != 0:
            return {"err": {1: "IndexError", 2: "ValueError", 3: "TypeError", 8: "KeyError"}.get(ints[0] if ints else -9, "model-error")}
        it = iter(ints[1:])
        try:
            rows = []
            for _ in range(next(it)):
                spans = []
                for _ in range(next(it)):
                    a, sw, n = next(it), next(it), next(it)
                    text = "".join(chr(next(it)) for _ in range(n))
                    hf, hb = colours[a]
                    spans.append([hb, hf, text] if sw else [hf, hb, text])
                rows.append(spans)
        except StopIteration:
            return {"malformed": ints[:40]}
        return {"html": rows}

    def decode(self, case, ints):
        if case.get("kind") == "html":
            return self.decode_html(case, ints)
        if case.get("kind") == "term":
            from urwid import str_util
            return {"toks": tokenize(print_tokens(case["toks"]), str_util.get_char_width), "term": list(ints)}
        it = iter(ints)
        frames = []
        try:
            for _ in case["frames"]:
                err = next(it)
                n = next(it)
                toks = [next(it) for _ in range(n)]
                n = next(it)
                term = [next(it) for _ in range(n)]
                fo = {"toks": toks, "term": term}
                if err:
                    fo["err"] = {1: "IndexError", 2: "ValueError", 3: "TypeError"}.get(err, "error%d" % err)
                frames.append(fo)
        except StopIteration:
            return {"malformed": ints[:40]}
        return {"frames": frames}

    # ---------- oracle ----------
    def oracle(self, case, res):
        if case.get("kind") == "term":
            return []
        if case.get("kind") == "html":
            return self.oracle_html(case, res)
        _res, aux = self.history(case)
        return self.judge(case, aux)

    def oracle_html(self, case, res):
        import urwid
        urwid.set_encoding(case["enc"])
        try:
            if case.get("badrows"):
                return [] if res.get("err") == "ValueError" else ["html: size/rows mismatch not rejected with ValueError"]
            canvas = build_canvas(case, case, {})
            content = [list(r) for r in canvas.content()]
            return html_check(case, case, canvas, content, case["cols"], case["rows"])
        finally:
            urwid.set_encoding("utf-8")

    def judge(self, case, aux):
        import urwid
        enc = case["enc"]
        urwid.set_encoding(enc)
        try:
            return self._judge(case, aux)
        finally:
            urwid.set_encoding("utf-8")

    def _judge(self, case, aux):
        msgs = []
        scr = aux["screen"]
        wof = width_fn(case["enc"])
        partial = bool(case.get("partial"))
        origin = case.get("origin", 0) if partial else 0
        stale_cy = False            # partial display: a cursorless frame left _cy behind the terminal cursor
        ibmpc_stuck = False         # an earlier frame ended with the IBMPC mapping (SGR 11) still selected
        abandoned_partial = False   # partial display: a frame was abandoned after it had updated _cy / _rows_used
        for k, (fr, rec) in enumerate(zip(case["frames"], aux["frames"])):
            if rec["op"] != "draw":
                continue
            cols, rows = rec["cols"], rec["rows"]
            tag = "frame %d" % k
            if stale_cy:
                tag += " [partial display after a frame without cursor]"
            if abandoned_partial:
                tag += " [partial display after a frame abandoned by SIGWINCH]"
            if partial and fr.get("intr") is not None:
                abandoned_partial = True
            if fr.get("badrows"):
                if rec["err"] != "ValueError":
                    msgs.append(tag + ": size/rows mismatch not rejected with ValueError (%s)" % rec["err"])
                    return msgs
                continue
            if rec["err"]:
                msgs.append(tag + ": draw_screen raised " + rec["err"])
                return msgs
            if rec["unknown"]:
                msgs.append(tag + ": sequence outside the VT100/xterm subset written: %r" % (rec["unknown"][0],))
                return msgs
            if rec["scrolled"]:
                msgs.append(tag + ": the screen scrolled")
                return msgs
            if rec["resized"]:
                # a draw while a resize is pending paints nothing (by design); nothing to compare
                continue
            if rec["irm"]:
                msgs.append(tag + ": insert mode left on")
                return msgs
            content = rec["content"]
            grid = rec["grid"]
            limit = min(rows, rec["rows_used"] + 1) if partial else rows
            bad = {}
            for y in range(limit):
                ty = origin + y
                if ty >= len(grid):
                    break
                exp = expected_cells(content[y], case["enc"], scr, wof)
                if len(exp) != cols:
                    continue            # not a well-formed canvas row (the generator never does this)
                text_only = partial and is_blank_row(content[y])
                for x in range(cols):
                    got = grid[ty][x]
                    e = exp[x]
                    if text_only:
                        ok = (got[0], got[1]) == (32, 1)
                    else:
                        ok = visually_equal(e, got)
                    if not ok:
                        kind = "text" if (e[0], e[1], e[4]) != (got[0], got[1], got[4]) or text_only else (
                            "charset" if visually_equal(e, (got[0], got[1], e[2], got[3], got[4])) else "attributes")
                        bad.setdefault(kind, (x, y, e, got))
            for kind in ("text", "attributes", "charset"):
                if kind in bad:
                    x, y, e, g = bad[kind]
                    where = "last row" if y == rows - 1 else "row"
                    t2 = tag
                    if kind == "text" and y == rows - 1 and comb_first_run(content[y], case["enc"], wof):
                        t2 += " [bottom row has a run that starts with a combining character]"
                    if kind == "charset" and ibmpc_stuck and g[2] == 2:
                        t2 += " [IBMPC charset left on by an earlier frame]"
                    msgs.append(t2 + ": %s cell (%d,%d) shows %s, canvas has %s [%s]" % (where, x, y, cellstr(g), cellstr(e), kind))
            if [m for m in msgs if "IBMPC charset left on" not in m and "starts with a combining character" not in m]:
                return msgs
            cur = rec["cursor"]
            if cur is None:
                if rec["visible"]:
                    msgs.append(tag + ": canvas has no cursor but the terminal cursor is visible")
            else:
                if not rec["visible"]:
                    msgs.append(tag + ": canvas cursor at %r but the terminal cursor is hidden" % (tuple(cur),))
                elif (rec["tx"], rec["ty"]) != (cur[0], origin + cur[1]) or rec["pending"]:
                    msgs.append(tag + ": terminal cursor at (%d,%d)%s, canvas cursor at %r" % (
                        rec["tx"], rec["ty"] - origin, " pending-wrap" if rec["pending"] else "", tuple(cur)))
            if msgs:
                return msgs
            if partial and cur is None and rec["ty"] - origin != rec["cy_attr"]:
                stale_cy = True
            if rec["ibmpc"]:
                ibmpc_stuck = True
            for m in rec.get("html", []):
                msgs.append(tag + ": " + m)
            if msgs:
                return msgs
        return msgs

    # ---------- generators ----------
    ATTRS = [None, ["pal", "p"], ["pal", "q"], ["pal", "s"], ["pal", "k"], ["pal", "b"], ["pal", "g"],
             ["undef", "nope"],
             ["spec", "light blue,italics", "#0f0", 256],
             ["spec", "#fea,underline", "#d0d", 256],
             ["spec", "default,bold", "default", 1],
             ["spec", "#123456", "#abcdef", 2 ** 24],
             ["spec", "white", "light red", 16],
             ["spec", "h200,blink", "h17", 256],
             ["spec", "h70,standout", "h3", 88],
             ["spec", "yellow,strikethrough", "dark cyan", 16],
             ["pal", "u"], ["pal", "h"], ["pal", "i"]]
    HTML_SAFE_ATTRS = [i for i, a in enumerate(ATTRS) if not (a and a[0] == "undef")]

    def gen_config(self, rng):
        enc = rng.choice(["utf-8", "utf-8", "utf-8", "ascii", "iso8859-1"])
        return {"enc": enc, "colors": rng.choice([1, 16, 88, 256, 2 ** 24]), "bib": rng.choice([0, 1]),
                "bbb": rng.choice([0, 0, 1]), "bce": rng.choice([1, 1, 0]), "partial": 0,
                "props_late": rng.choice([0, 0, 1]), "palette": PALETTE, "attrs": self.ATTRS}

    def gen_cells(self, rng, cols, enc, last_row_bias=False, zero_width_runs=True, controls=True):
        """one canvas row as a list of (attr index, cs, text, width) cells filling exactly cols columns"""
        nat = len(self.ATTRS)
        trailing = min(cols, rng.choice([0, 0, 0, 1, 1, 2, 3, cols // 2, cols]))
        body = cols - trailing
        cells = []
        col = 0
        a = rng.randrange(nat) if rng.random() < 0.7 else 0
        cs = 0
        while col < body:
            if rng.random() < 0.3:
                a = rng.randrange(nat) if rng.random() < 0.8 else 0
            r = rng.random()
            if enc == "utf-8":
                cs = 0
                if r < 0.18 and col + 2 <= body:
                    ch, w = rng.choice(["\u4e16", "\u754c", "\u3042"]), 2
                elif r < 0.30:
                    ch, w = " ", 1
                elif r < 0.36:
                    ch, w = rng.choice(["\u2500", "\u2502", "\u250c", "\u00e9"]), 1
                elif r < 0.39 and cells and cells[-1][3] > 0 and cells[-1][2] != " ":
                    cells[-1] = (cells[-1][0], cells[-1][1], cells[-1][2] + "\u0301", cells[-1][3])
                    continue
                elif r < 0.40 and zero_width_runs and cells:
                    cells.append((rng.randrange(nat), 0, "\u0301", 0))      # a combining character under its own attribute
                    continue
                elif r < 0.41 and controls and cells:
                    cells.append((a, 0, rng.choice("\x01\x1f\t"), 0))      # a C0 control character: no column
                    continue
                else:
                    ch, w = rng.choice("abcxyzXYZ01._-<&>\"'"), 1
            else:
                if rng.random() < 0.25:
                    cs = rng.choice([0, 0, 1, 1, 2])
                w = 1
                if cs == 1:
                    ch = rng.choice("qxlkmjntu a")
                elif cs == 2:
                    ch = rng.choice("abc \u00b0\u00c4\u00db#") if r < 0.9 else " "
                elif r < 0.15:
                    ch = " "
                elif r < 0.2 and enc == "iso8859-1":
                    ch = rng.choice("\u00e9\u00fc\u00a0")
                elif r < 0.23 and controls:
                    ch = rng.choice("\x01\x1f")                              # painted as "?" (one column)
                else:
                    ch = rng.choice("abcxyzXYZ01._-<&>\"'")
            cells.append((a, cs, ch, w))
            col += w
        if trailing:
            if rng.random() < 0.5:
                a = rng.randrange(nat)
            if enc != "utf-8" and rng.random() < 0.2:
                cs = rng.choice([0, 1, 2])
            elif enc == "utf-8":
                cs = 0
            cells += [(a, cs, " ", 1)] * trailing
        return cells

    @staticmethod
    def cells_to_runs(rng, cells):
        runs = []
        for a, cs, ch, _w in cells:
            if runs and runs[-1][0] == a and runs[-1][1] == cs and rng.random() < 0.93:
                runs[-1][2] += ch
            else:
                runs.append([a, cs, ch])
        return runs

    def gen_rows(self, rng, cols, rows, enc, controls=True):
        return [self.cells_to_runs(rng, self.gen_cells(rng, cols, enc, controls=controls)) for _ in range(rows)]

    @staticmethod
    def has_controls(cv):
        return cv[0] in ("rows", "textcanvas") and any(ord(ch) < 32 for row in cv[1] for r in row for ch in r[2])

    def mutate_rows(self, rng, rws, cols, enc):
        rws = [[list(r) for r in row] for row in rws]
        n = len(rws)
        for _ in range(rng.choice([1, 1, 1, 2, 3])):
            y = rng.choice([0, n - 1, rng.randrange(n)])
            k = rng.random()
            if k < 0.5:
                rws[y] = self.cells_to_runs(rng, self.gen_cells(rng, cols, enc))
            elif k < 0.7:
                run = rng.choice(rws[y])
                run[0] = rng.randrange(len(self.ATTRS))
            elif k < 0.85 and n > 1:
                y2 = rng.randrange(n)
                rws[y], rws[y2] = rws[y2], rws[y]
            else:
                run = rws[y][-1]
                if run[1] != 2 and run[2] and run[2][-1] not in "\u4e16\u754c\u3042\u0301":
                    run[2] = run[2][:-1] + rng.choice("Zz ")
        return rws

    def gen_widget(self, rng, depth=0):
        na = len(self.ATTRS)
        k = rng.random()
        if depth >= 2 or k < 0.35:
            words = ["hello", "wide \u4e16\u754c", "x", "", "line\nbreak", "trailing   ", "\u250c\u2500\u2510", "a<b>&c"]
            markup = [[rng.randrange(na), rng.choice(words)] for _ in range(rng.choice([1, 2, 3]))]
            return ["text", markup, rng.choice(["left", "center", "right"]), rng.choice(["space", "any", "clip"])]
        if k < 0.45:
            return ["solid", rng.choice([" ", "x", "\u2500", "#"])]
        if k < 0.55:
            return ["attr", rng.randrange(na), self.gen_widget(rng, depth + 1)]
        if k < 0.65:
            return ["filler", rng.choice(["top", "middle", "bottom"]), self.gen_widget(rng, 2)]
        if k < 0.8:
            return ["cols", [self.gen_widget(rng, depth + 1) for _ in range(rng.choice([1, 2, 3]))], rng.choice([0, 1])]
        if k < 0.95:
            return ["pile", [self.gen_widget(rng, depth + 1) for _ in range(rng.choice([1, 2, 3]))]]
        return ["linebox", self.gen_widget(rng, depth + 1)]

    @staticmethod
    def widget_ok(case, frame):
        """the widget description renders to a well-formed canvas of the wanted size (else use explicit rows)"""
        import urwid
        urwid.set_encoding(case["enc"])
        try:
            wof = width_fn(case["enc"])
            c = build_canvas(dict(frame, cursor=None), case, {})
            content = list(c.content())
            if len(content) != frame["rows"]:
                return False
            for row in content:
                n = 0
                for _a, cs, run in row:
                    if not run or (case["enc"] == "utf-8" and cs is not None):
                        return False
                    for ch in run.decode(case["enc"]):
                        if ord(ch) < 32:
                            return False
                        n += wof(ch)
                if n != frame["cols"]:
                    return False
            return True
        except Exception:  # noqa: BLE001
            return False
        finally:
            urwid.set_encoding("utf-8")

    UNDEF_IDS = [i for i, a in enumerate(ATTRS) if a and a[0] == "undef"]

    def uses_undef(self, cv):
        if cv[0] in ("rows", "textcanvas"):
            return any(r[0] in self.UNDEF_IDS for row in cv[1] for r in row)

        def walk(sp):
            if sp[0] == "text":
                return any(a in self.UNDEF_IDS for a, _s in sp[1])
            if sp[0] == "attr":
                return sp[1] in self.UNDEF_IDS or walk(sp[2])
            if sp[0] == "filler":
                return walk(sp[2])
            if sp[0] in ("cols", "pile"):
                return any(walk(x) for x in sp[1])
            if sp[0] == "linebox":
                return walk(sp[1])
            return False
        return walk(cv[1])

    def gen_cursor(self, rng, cols, rows, p=0.5):
        if rng.random() >= p:
            return None
        return [rng.choice([0, cols - 1, rng.randrange(cols)]), rng.choice([0, rows - 1, rng.randrange(rows)])]

    def gen_size(self, rng, profile):
        if profile == "tiny":
            return rng.choice([1, 2, 2, 3, 3, 4]), rng.choice([1, 1, 2, 3])
        if profile == "big":
            return rng.choice([20, 40, 80]), rng.choice([6, 12, 24])
        return rng.choice([2, 3, 4, 5, 6, 7, 8, 11]), rng.choice([1, 2, 3, 4, 5])

    def gen_case(self, rng, profile="small", nframes=None, partial=False):
        case = self.gen_config(rng)
        enc = case["enc"]
        cols, rows = self.gen_size(rng, profile)
        frames = []
        rws = None
        n = nframes or rng.choice([1, 2, 3, 3, 4, 5, 6])
        first_scr = rng.choice([None, 0, 1, 2])
        always_cursor = rng.random() < 0.6
        origin = 0
        if partial:
            case["partial"] = 1
            rows = max(rows, 2)
            origin = rng.choice([0, 0, 0, 1, 2])
            rows += origin
            case["origin"] = origin
            first_scr = None

        def draw(extra=None):
            nonlocal rws
            f = {"op": "draw", "cols": cols, "rows": rows}
            usable = rows - origin
            if rng.random() < 0.15 and profile != "big" and not (extra and extra.get("same")):
                f["canvas"] = ["widget", self.gen_widget(rng)]
                if (partial and origin) or not self.widget_ok(case, f):
                    f["canvas"] = None
                else:
                    rws = None
            if f.get("canvas") is None:
                if rws is None or len(rws) != rows or rng.random() < 0.15:
                    rws = self.gen_rows(rng, cols, rows, enc)
                elif rng.random() < 0.9:
                    rws = self.mutate_rows(rng, rws, cols, enc)
                if partial:
                    # rows that do not fit below the origin must be blank (never painted)
                    keep = rng.choice([1, 2, usable]) if rng.random() < 0.5 else usable
                    rws = rws[:min(keep, usable)] + [[[0, 0, " " * cols]] for _ in range(rows - min(keep, usable))]
                f["canvas"] = [rng.choice(["rows", "rows", "textcanvas"]), rws]
            pc = 1.0 if (partial and always_cursor) else 0.5
            cur = self.gen_cursor(rng, cols, rows - origin, pc)
            f["cursor"] = cur
            if f["canvas"][0] == "widget":
                f["cursor"] = cur
            if rng.random() < 0.5 and (not self.uses_undef(f["canvas"]) or rng.random() < 0.03) \
                    and not self.has_controls(f["canvas"]):
                f["html"] = 1
            if extra:
                f.update(extra)
            frames.append(f)

        f0 = None
        draw({"scramble": first_scr} if first_scr is not None else None)
        while len(frames) < n:
            r = rng.random()
            if r < 0.66:
                draw()
            elif r < 0.75:
                frames.append({"op": "clear", "scramble": rng.choice([None, 0, 1, 2])} if not partial else {"op": "clear"})
                draw()
            elif r < 0.80 and (not partial or rng.random() < 0.5):
                # SIGWINCH while a frame is being produced: the frame is abandoned; the redraw after the
                # acknowledgement often has exactly the rows of the abandoned canvas
                draw({"intr": rng.randrange(rows)})
                abandoned = frames[-1]
                if rng.random() < 0.3 and not partial:
                    draw()
                frames.append({"op": "ack"})
                if rng.random() < 0.7 and abandoned["canvas"][0] != "widget":
                    f = dict(abandoned)
                    f.pop("intr")
                    f["cursor"] = self.gen_cursor(rng, cols, rows - origin, 1.0 if (partial and always_cursor) else 0.5)
                    frames.append(f)
                    rws = [[list(r) for r in row] for row in f["canvas"][1]]
                else:
                    draw()
            elif r < 0.87 and not partial:
                frames.append({"op": "winch"})
                if rng.random() < 0.3:
                    draw()              # resize not yet handled: must paint nothing
                frames.append({"op": "ack"})
                cols, rows = self.gen_size(rng, profile)
                rws = None
                draw({"scramble": rng.choice([0, 1, 2])})
            elif r < 0.92 and frames[-1]["op"] == "draw" and not frames[-1].get("badrows"):
                f = dict(frames[-1])
                f["same"] = 1
                f.pop("scramble", None)
                frames.append(f)
            elif r < 0.95:
                draw({"badrows": 1})
            else:
                draw()
        case["frames"] = frames
        return case

    def gen_term_case(self, rng):
        cols, rows = rng.choice([1, 2, 3, 4, 5]), rng.choice([1, 2, 3])
        toks = []
        for _ in range(rng.choice([3, 8, 15, 30])):
            r = rng.random()
            if r < 0.45:
                ch = rng.choice(["a", "b", " ", "\u4e16", "\u754c", "x", "\u0301"])
                toks.append([T_CH, ord(ch), 0])
            elif r < 0.55:
                toks.append([T_CUP, rng.choice([0, 1, 2, 3, 9]), rng.choice([0, 1, 2, 3, 9])])
            elif r < 0.60:
                toks.append([rng.choice([T_CR, T_LF, T_BS, T_BS, T_HOME])])
            elif r < 0.70:
                toks.append([rng.choice([T_CUU, T_CUD, T_CUF]), rng.choice([0, 1, 2, 7])])
            elif r < 0.80:
                n = rng.choice([0, 1, 2, 3])
                ps = []
                for _ in range(n):
                    p = rng.choice([0, 1, 3, 4, 5, 7, 9, 31, 39, 44, 49, 93, 104, 38, 48, 5, 2, 200, 17])
                    ps.append(p)
                    if p in (38, 48) and rng.random() < 0.7:
                        ps += rng.choice([[5, 200], [2, 1, 2, 3], [5], [2, 9]])
                if ps in ([10], [11]):
                    ps = [0]
                toks.append([T_SGR] + ps)
            elif r < 0.86:
                toks.append([T_EL])
            elif r < 0.93:
                toks.append([rng.choice([T_IRM_ON, T_IRM_OFF, T_IRM_ON])])
            else:
                toks.append([rng.choice([T_SO, T_SI, T_IBM_ON, T_IBM_OFF, T_HIDE, T_SHOW, T_G1])])
        return {"kind": "term", "cols": cols, "rows": rows, "toks": toks}

    def exhaustive_rows(self, cols):
        """every row of `cols` columns over a small alphabet x two attributes (default, standout)"""
        alphabet = [("a", 1), (" ", 1), ("\u4e16", 2)]
        attrs = [0, 3]
        out = []

        def rec(col, cells):
            if col == cols:
                out.append(list(cells))
                return
            for ch, w in alphabet:
                if col + w <= cols:
                    for a in attrs:
                        cells.append((a, 0, ch, w))
                        rec(col + w, cells)
                        cells.pop()
        rec(0, [])
        return out

    def exhaustive_cases(self, rng, maxcols):
        """single frames over garbage: every small row as the only / the bottom / a middle row"""
        base = {"enc": "utf-8", "colors": 16, "bib": 0, "bbb": 0, "partial": 0, "palette": PALETTE, "attrs": self.ATTRS}
        for cols in range(1, maxcols + 1):
            for cells in self.exhaustive_rows(cols):
                runs = []
                for a, cs, ch, _w in cells:
                    if runs and runs[-1][0] == a:
                        runs[-1][2] += ch
                    else:
                        runs.append([a, cs, ch])
                filler = [[0, 0, "b" * cols]]
                for bce in (1, 0):
                    for shape in ("only", "bottom", "top"):
                        rws = {"only": [runs], "bottom": [filler, runs], "top": [runs, filler]}[shape]
                        c = dict(base, bce=bce)
                        c["frames"] = [{"op": "draw", "cols": cols, "rows": len(rws), "canvas": ["rows", rws],
                                        "cursor": None, "scramble": rng.choice([0, 1, 2])}]
                        yield c

    def gen_html_case(self, rng):
        case = self.gen_config(rng)
        enc = case["enc"]
        cols, rows = self.gen_size(rng, rng.choice(["tiny", "small", "small"]))
        case.update(kind="html", cols=cols, rows=rows)
        case["canvas"] = None
        if rng.random() < 0.2:
            case["canvas"] = ["widget", self.gen_widget(rng)]
            if not self.widget_ok(case, case):
                case["canvas"] = None
        if case["canvas"] is None:
            rws = self.gen_rows(rng, cols, rows, enc, controls=False)
            if enc != "utf-8":
                rws = [[[a, cs, t] for a, cs, t in row if True] for row in rws]
            case["canvas"] = [rng.choice(["rows", "textcanvas"]), rws]
        if self.uses_undef(case["canvas"]) and rng.random() > 0.03 and case["canvas"][0] != "widget":
            safe = self.HTML_SAFE_ATTRS
            case["canvas"] = [case["canvas"][0], [[[a if a in safe else 0, cs, t] for a, cs, t in row] for row in case["canvas"][1]]]
        case["cursor"] = self.gen_cursor(rng, cols, rows, 0.7)
        if rng.random() < 0.02:
            case["badrows"] = 1
        return case

    def gen_zw_case(self, rng):
        """zero-column characters everywhere: runs that start with a combining / control character, runs that hold
        no column at all, at the start, in the middle and at the end of rows, bottom rows included"""
        def gen_row(cols):
            cells, col = [], 0
            while True:
                r = rng.random()
                if r < 0.35:
                    cells.append((rng.randrange(4), rng.choice(["\u0301", "\u0302", "\x01"]), 0))
                elif col >= cols:
                    if rng.random() < 0.6:
                        break
                    cells.append((rng.randrange(4), rng.choice(["\u0301", "\u0302"]), 0))
                elif r < 0.5 and col + 2 <= cols:
                    cells.append((rng.randrange(4), "\u4e16", 2))
                    col += 2
                elif r < 0.65:
                    cells.append((rng.randrange(4), " ", 1))
                    col += 1
                else:
                    cells.append((rng.randrange(4), rng.choice("abxy"), 1))
                    col += 1
            runs = []
            for a, ch, _w in cells:
                if runs and runs[-1][0] == a and rng.random() < 0.8:
                    runs[-1][2] += ch
                else:
                    runs.append([a, 0, ch])
            return runs
        cols, rows = rng.choice([1, 2, 2, 3, 3, 4, 5]), rng.choice([1, 1, 2, 3])
        case = {"enc": "utf-8", "colors": 16, "bib": 0, "bbb": 0, "bce": rng.choice([0, 1]),
                "partial": rng.choice([0, 0, 0, 1]), "palette": PALETTE, "attrs": self.ATTRS, "frames": []}
        if case["partial"]:
            case["origin"] = 0
        prev = None
        for _ in range(rng.choice([1, 2, 3])):
            rws = [gen_row(cols) for _ in range(rows)]
            if prev and rng.random() < 0.5:
                rws = [[list(r) for r in row] for row in prev]
                rws[rng.randrange(rows)] = gen_row(cols)
            prev = rws
            cur = [rng.randrange(cols), rng.randrange(rows)] if (rng.random() < 0.5 or case["partial"]) else None
            f = {"op": "draw", "cols": cols, "rows": rows, "canvas": [rng.choice(["rows", "textcanvas"]), rws], "cursor": cur}
            if not case["partial"] and rng.random() < 0.7:
                f["scramble"] = rng.choice([0, 1, 2])
            case["frames"].append(f)
        return case

    def cases(self, rng, tier):
        k = 1 if tier == "quick" else 8
        for _ in range(1500 * k):
            yield self.gen_zw_case(rng)
        for _ in range(1500 * k):
            yield self.gen_html_case(rng)
        yield from self.exhaustive_cases(rng, 4 if tier == "quick" else 5)
        for _ in range(600 * k):
            yield self.gen_term_case(rng)
        for _ in range(2000 * k):
            yield self.gen_case(rng, "tiny")
        for _ in range(3000 * k):
            yield self.gen_case(rng, "small")
        for _ in range(700 * k):
            yield self.gen_case(rng, rng.choice(["tiny", "small"]), partial=True)
        for _ in range(8 * k):
            yield self.gen_case(rng, "big", nframes=3)

    def search_cases(self, rng, tier):
        while True:
            yield self.gen_case(rng, rng.choice(["tiny", "tiny", "small"]), partial=rng.random() < 0.1)

    def shrink_candidates(self, case):
        if case.get("kind") == "term":
            return
        if case.get("kind") == "html":
            if case.get("cursor") is not None:
                yield dict(case, cursor=None)
            if case["canvas"][0] in ("rows", "textcanvas"):
                rws = case["canvas"][1]
                for y, row in enumerate(rws):
                    if any(r[0] != 0 for r in row):
                        yield dict(case, canvas=[case["canvas"][0], rws[:y] + [[[0, r[1], r[2]] for r in row]] + rws[y + 1:]])
            return
        frames = case["frames"]
        for i in range(len(frames)):
            c = dict(case)
            c["frames"] = frames[:i] + frames[i + 1:]
            if any(f["op"] == "draw" for f in c["frames"]):
                yield c
        for i, f in enumerate(frames):
            if f["op"] != "draw":
                continue
            for key in ("html", "scramble", "same"):
                if key in f:
                    g = dict(f)
                    g.pop(key)
                    c = dict(case)
                    c["frames"] = frames[:i] + [g] + frames[i + 1:]
                    yield c
            if f.get("cursor") is not None:
                g = dict(f)
                g["cursor"] = None
                c = dict(case)
                c["frames"] = frames[:i] + [g] + frames[i + 1:]
                yield c
            if f["canvas"][0] in ("rows", "textcanvas"):
                rws = f["canvas"][1]
                # default attribute everywhere / one run per row
                for y, row in enumerate(rws):
                    if any(r[0] != 0 for r in row):
                        g = dict(f)
                        g["canvas"] = [f["canvas"][0], rws[:y] + [[[0, r[1], r[2]] for r in row]] + rws[y + 1:]]
                        c = dict(case)
                        c["frames"] = frames[:i] + [g] + frames[i + 1:]
                        yield c

    def distribution(self, case, res, dist):
        def inc(k, n=1):
            dist[k] = dist.get(k, 0) + n
        if case.get("kind") == "term":
            inc("kind:terminal-only")
            if res["term"][6]:
                inc("terminal-only:scrolled")
            return
        if case.get("kind") == "html":
            inc("kind:html")
            inc("html:cursor:%d" % (case.get("cursor") is not None))
            if "err" in res:
                inc("html:err:" + res["err"])
            elif "html" in res and any(len(r) >= 3 for r in res["html"]):
                inc("html:multi-span-rows")
            return
        inc("enc:" + case["enc"])
        inc("colors:%d" % case["colors"])
        inc("bce:%d" % case["bce"])
        inc("partial:%d" % (1 if case.get("partial") else 0))
        for f, fo in zip(case["frames"], res["frames"]):
            inc("op:" + f["op"])
            if f["op"] == "draw":
                inc("canvas:" + f["canvas"][0])
                inc("cursor:%d" % (f.get("cursor") is not None))
                t = fo["toks"]
                if not t:
                    inc("draw:no-output")
                if T_EL in self._token_heads(t):
                    inc("draw:used-EL")
                if T_IRM_ON in self._token_heads(t):
                    inc("draw:used-insert-trick")
                if f.get("html"):
                    inc("html-checked")

    @staticmethod
    def _token_heads(t):
        heads = set()
        i = 0
        while i < len(t):
            h = t[i]
            heads.add(h)
            if h == T_CH or h == T_CUP:
                i += 3
            elif h in (T_CUU, T_CUD, T_CUF, T_UNKNOWN):
                i += 2
            elif h == T_SGR:
                i += 2 + t[i + 1]
            else:
                i += 1
        return heads

    def nontrivial(self, case, res):
        if case.get("kind") == "term":
            return bool(res["toks"])
        if case.get("kind") == "html":
            return True
        return any(f["toks"] for f in res["frames"])

    def signature(self, case, msg):
        for tag in ("[bottom row has a run that starts with a combining character]",
                    "[partial display after a frame abandoned by SIGWINCH]",
                    "[partial display after a frame without cursor]", "[IBMPC charset left on by an earlier frame]",
                    "raised KeyError for an undefined palette name"):
            if tag in msg:
                return tag
        msg = re.sub(r" shows .* canvas has .* \[(\w+)\]$", r" differs [\1]", msg)
        msg = re.sub(r"text '.*' differs from the canvas text '.*'", "text differs", msg)
        return re.sub(r"\(\d+, ?\d+\)|\d+", "N", msg)[:160]


CHECK = C04
