"""C09 - cursor position and mouse hit-testing agree with what is drawn.

case = {"tree": <node>, "size": [cols] | [cols, rows], "moves": [[col, row], ...]}

node (JSON lists, first element = kind):
  ["leaf", id, box(0/1), h, sel, api, cur|None, rej[list of rows], minw, wrap]     spy leaf (flow: h rows, h+1 below width wrap)
  ["fill"]                                         SolidFill background (bottom of an Overlay)
  ["fleaf", id, w, h, sel]                         fixed spy leaf (size () only; oracle only); 'pack' options of Pile / Columns /
                                                   Padding / Overlay around it give fixed subtrees; case size [] = rendered fixed
  ["pile", focus, [[opt, node], ...]]              opt = ["pack"] | ["given", n] | ["weight", n]
  ["columns", focus, dividechars, min_width, [[opt, box(0/1), node], ...]]   opt = ["given", n] | ["weight", n]
  ["padding", node, align, width, min_width|None, left, right]
                                                   align = ["left"]|["center"]|["right"]|["relative", p]; width = ["given", n]|["relative", p]|["pack"]
  ["filler", node, valign, height, min_height|None, top, bottom]
                                                   valign = ["top"]|["middle"]|["bottom"]|["relative", p]; height = ["pack"]|["given", n]|["relative", p]
  ["frame", body, header|None, footer|None, focus_part]     focus_part = "header"|"body"|"footer"
  ["boxadapter", node, h]
  ["attrmap", node]
  ["overlay", top, bottom, align, width, valign, height, min_width|None, min_height|None, left, right, top, bottom]
  ["linebox", node, tline(0/1), bline(0/1)]
 oracle-only leaves / containers (no model, encode() returns None):
  ["edit", id, nchars, edit_pos, caprows]  ["icon", id, nchars, cursor_pos]  ["button", id, nchars]  ["checkbox", id, nchars]
                                                   real urwid leaves whose text / label is their marker repeated nchars times
                                                   (edit: caprows caption-only rows "#\n" above the edit text)
  ["gridflow", cell_width, hsep, vsep, align, focus, [node, ...]]   ["listbox", focus, [node, ...]]

run_impl observes, on a freshly built tree: the rectangle of every spy leaf (read from the canvas text), the
cursor of render(size, True), get_cursor_coords(size) (before and after the first rendering), the leaf
reached by a button-1 press on EVERY cell of the rendered area, and for each requested cell the outcome of
move_cursor_to_coords (return value, the leaf that was asked and with which cell, the cursor afterwards).
The oracle (judge) is written from the property text and never looks at the model.
"""
import itertools
import re
import warnings

from harness import core

warnings.simplefilter("ignore")

MARK = ("ABCDEFGHIJKLMNOPQRSTUVWXYZabcdefghijklmnopqrstuvwxyz0123456789"
        "ÀÁÂÃÄÅÆÇÈÉÊËÌÍÎÏ"
        "ÐÑÒÓÔÕÖØÙÚÛÜÝÞß")
MODEL_KINDS = {"leaf", "fleaf", "fill", "pile", "columns", "padding", "filler", "frame", "boxadapter", "attrmap", "overlay", "linebox"}
REAL_LEAVES = {"edit", "icon", "button", "checkbox"}


def mark(i):
    return MARK[i]


# --------------------------------------------------------------------------------------
# implementation side: build an urwid tree with spy leaves
# --------------------------------------------------------------------------------------
_CLS = {}


def spy_classes():
    """Spy leaf classes (created lazily so that urwid is imported from the tree under test)."""
    if _CLS:
        return _CLS
    import urwid

    class SpyBase(urwid.Widget):
        """Leaf without the cursor protocol: draws its marker, records mouse events."""
        ignore_focus = False

        def __init__(self, ctx, lid, box, h, sel, cur, rej, minw, wrap):
            super().__init__()
            self.ctx, self.lid, self.box, self.h, self.cur, self.rej, self.minw = ctx, lid, box, h, cur, rej, minw
            self.wrap = wrap
            self._selectable = bool(sel)
            self._sizing = frozenset([urwid.BOX if box else urwid.FLOW])
            self.ch = mark(lid).encode("utf-8")

        def selectable(self):
            return self._selectable

        def sizing(self):
            return self._sizing

        def rows(self, size, focus=False):
            if self.box:
                raise AttributeError("box spy has no rows()")
            return self.h + 1 if size[0] < self.wrap else self.h

        def nrows(self, size):
            return size[1] if self.box else self.rows(size)

        def _cursor(self, size):
            if self.cur is None:
                return None
            if self.box:
                return (min(self.cur[0], size[0] - 1), min(self.cur[1], size[1] - 1))
            return (min(self.cur[0], size[0] - 1), self.cur[1])

        def render(self, size, focus=False):
            nrows = self.nrows(size)
            self.ctx.log.append(("render", self.lid, tuple(size), bool(focus)))
            c = urwid.CompositeCanvas(urwid.TextCanvas([self.ch * size[0] for _ in range(nrows)], maxcol=size[0]))
            if focus and self.cur is not None:
                c.cursor = self._cursor(size)
            return c

        def keypress(self, size, key):
            return key

        def mouse_event(self, size, event, button, col, row, focus):
            self.ctx.log.append(("mouse", self.lid, tuple(size), col, row, bool(focus)))
            return True

    class Spy(SpyBase):
        """Leaf with the cursor protocol (Edit-like, behaviour given by data)."""

        def get_cursor_coords(self, size):
            return self._cursor(size)

        def get_pref_col(self, size):
            return None if self.cur is None else self.cur[0]

        def move_cursor_to_coords(self, size, col, row):
            nrows = self.nrows(size)
            ok = bool(self._selectable and isinstance(row, int) and 0 <= row < nrows and row not in self.rej)
            self.ctx.log.append(("move", self.lid, tuple(size), col, row, ok))
            if not ok:
                return False
            if col == "left":
                x = 0
            elif col == "right":
                x = size[0] - 1
            else:
                x = min(max(col, 0), size[0] - 1)
            self.cur = (x, row)
            self._invalidate()
            return True

    class SpyFixed(urwid.Widget):
        """Fixed-size leaf (size () only): draws fw x fh markers, records mouse events."""
        box = False
        minw = 1
        fixed = True

        def __init__(self, ctx, lid, fw, fh, sel):
            super().__init__()
            self.ctx, self.lid, self.fw, self.fh = ctx, lid, fw, fh
            self._selectable = bool(sel)
            self._sizing = frozenset([urwid.FIXED])
            self.ch = mark(lid).encode("utf-8")

        def selectable(self):
            return self._selectable

        def sizing(self):
            return self._sizing

        def pack(self, size=(), focus=False):
            return (self.fw, self.fh)

        def nrows(self, size):
            return self.fh

        def render(self, size, focus=False):
            self.ctx.log.append(("render", self.lid, tuple(size), bool(focus)))
            return urwid.CompositeCanvas(urwid.TextCanvas([self.ch * self.fw for _ in range(self.fh)], maxcol=self.fw))

        def keypress(self, size, key):
            return key

        def mouse_event(self, size, event, button, col, row, focus):
            self.ctx.log.append(("mouse", self.lid, tuple(size), col, row, bool(focus)))
            return True

    _CLS["SpyFixed"] = SpyFixed

    def logged(base, off):
        """A real urwid leaf whose text is made of its marker; geometry calls are recorded, then performed."""
        class Real(base):
            box = False
            minw = 1
            real = True
            text_off = off          # columns between the widget's left edge and the first marker character
            row_off = 0             # rows between the widget's top edge and the first marker row (caption-only rows)

            def init_spy(self, ctx, lid):
                self.ctx, self.lid = ctx, lid
                return self

            def nrows(self, size):
                return self.rows(size)

            def render(self, size, focus=False):
                self.ctx.log.append(("render", self.lid, tuple(size), bool(focus)))
                return super().render(size, focus)

            def mouse_event(self, size, event, button, col, row, focus):
                self.ctx.log.append(("mouse", self.lid, tuple(size), col, row, bool(focus)))
                return super().mouse_event(size, event, button, col, row, focus)
        if base is urwid.Edit:
            def move_cursor_to_coords(self, size, col, row):
                r = base.move_cursor_to_coords(self, size, col, row)
                self.ctx.log.append(("move", self.lid, tuple(size), col, row, bool(r)))
                return r
            Real.move_cursor_to_coords = move_cursor_to_coords
        return Real

    _CLS.update(SpyBase=SpyBase, Spy=Spy, REdit=logged(urwid.Edit, 0), RIcon=logged(urwid.SelectableIcon, 0),
                RButton=logged(urwid.Button, 2), RCheckBox=logged(urwid.CheckBox, 4))
    return _CLS


class Ctx:
    def __init__(self):
        self.wf = True         # every child supports the mode its container asks of it (checked against sizing())
        self.log = []
        self.leaves = {}       # id -> widget (spy or real)
        self.containers = []   # (widget, initial focus) for restoring after a mouse press
        self.real = {}         # id -> (kind, widget) for real leaves


def _align(a):
    return a[0] if a[0] != "relative" else ("relative", a[1])


def _wh(a):
    if a[0] == "given":
        return a[1]
    if a[0] == "relative":
        return ("relative", a[1])
    return a[0]


def is_fixed_tree(node):
    """A subtree that only works as a fixed widget (size ())."""
    k = node[0]
    if k == "fleaf":
        return True
    if k == "padding":
        return node[3][0] == "pack" and is_fixed_tree(node[1])
    if k == "attrmap":
        return is_fixed_tree(node[1])
    if k == "pile":
        return all(o[0] == "pack" and is_fixed_tree(c) for o, c in node[2])
    if k == "columns":
        return all(o[0] == "pack" and is_fixed_tree(c) for o, _, c in node[4])
    return False


def child_modes(node, mode):
    """Mode ('flow' | 'box' | 'fixed') each child is asked to work in when node works in mode."""
    k = node[0]
    if k == "pile":
        if mode == "flow":
            return ["box" if o[0] == "given" else ("fixed" if o[0] == "pack" and is_fixed_tree(c) else "flow") for o, c in node[2]]
        if mode == "fixed":
            return ["fixed" for _ in node[2]]
        return [("fixed" if is_fixed_tree(c) else "flow") if o[0] == "pack" else "box" for o, c in node[2]]
    if k == "columns":
        return ["fixed" if o[0] == "pack" and is_fixed_tree(c) else ("box" if (mode == "box" or b) else "flow")
                for o, b, c in node[4]]
    if k == "padding" and mode == "fixed" and node[3][0] == "given":
        return ["flow"]              # Padding.render(()) with a given width hands (width,) to the child
    if k in ("padding", "attrmap", "linebox"):
        return [mode]
    if k == "filler":
        return ["flow" if node[3][0] == "pack" else "box"]
    if k == "frame":
        return [m for m, c in zip(["box", "flow", "flow"], node[1:4]) if c]
    if k == "boxadapter":
        return ["box"]
    if k == "overlay":
        return ["fixed" if node[4][0] == "pack" else ("flow" if node[6][0] == "pack" else "box"), "box"]
    if k == "gridflow":
        return ["flow"] * len(node[6])
    if k == "listbox":
        return ["flow"] * len(node[2])
    return []


def build(node, ctx, mode=None):
    w = build1(node, ctx, mode)
    if mode is not None and mode not in w.sizing():
        ctx.wf = False
    return w


def build1(node, ctx, mode):
    import urwid
    k = node[0]
    cm = iter(child_modes(node, mode) if mode else [None] * 99)
    sub = lambda n: build(n, ctx, next(cm))  # noqa: E731
    if k == "leaf":
        _, lid, box, h, sel, api, cur, rej, minw, wrap = node
        cls = spy_classes()["Spy" if api else "SpyBase"]
        w = cls(ctx, lid, box, h, sel, tuple(cur) if cur is not None else None, list(rej), minw, wrap)
        ctx.leaves[lid] = w
        return w
    if k == "fill":
        return urwid.SolidFill(".")
    if k == "fleaf":
        _, lid, fw, fh, sel = node
        w = spy_classes()["SpyFixed"](ctx, lid, fw, fh, sel)
        ctx.leaves[lid] = w
        return w
    if k == "pile":
        _, focus, items = node
        ws = []
        for opt, ch in items:
            c = sub(ch)
            ws.append(("pack", c) if opt[0] == "pack" else (opt[0], opt[1], c))
        w = urwid.Pile(ws, focus_item=focus)
        ctx.containers.append((w, focus))
        return w
    if k == "columns":
        _, focus, dc, mw, items = node
        ws, boxes = [], []
        for i, (opt, isbox, ch) in enumerate(items):
            c = sub(ch)
            ws.append(("pack", c) if opt[0] == "pack" else (opt[0], opt[1], c))
            if isbox:
                boxes.append(i)
        w = urwid.Columns(ws, dividechars=dc, focus_column=focus, min_width=mw, box_columns=boxes)
        ctx.containers.append((w, focus))
        return w
    if k == "padding":
        _, ch, align, width, minw, left, right = node
        return urwid.Padding(sub(ch), align=_align(align), width=_wh(width), min_width=minw, left=left, right=right)
    if k == "filler":
        _, ch, valign, height, minh, top, bottom = node
        return urwid.Filler(sub(ch), valign=_align(valign), height=_wh(height), min_height=minh, top=top, bottom=bottom)
    if k == "frame":
        _, body, header, footer, fp = node
        w = urwid.Frame(sub(body), header=(sub(header) if header else None),
                        footer=(sub(footer) if footer else None), focus_part=fp)
        ctx.containers.append((w, fp))
        return w
    if k == "boxadapter":
        return urwid.BoxAdapter(sub(node[1]), node[2])
    if k == "attrmap":
        return urwid.AttrMap(sub(node[1]), "a", "b")
    if k == "overlay":
        _, top, bottom, align, width, valign, height, minw, minh, left, right, t, b = node
        return urwid.Overlay(sub(top), sub(bottom), _align(align), _wh(width), _align(valign), _wh(height),
                             min_width=minw, min_height=minh, left=left, right=right, top=t, bottom=b)
    if k == "linebox":
        _, ch, tl, bl = node
        kw = {}
        if not tl:
            kw.update(tline="", tlcorner="", trcorner="")
        if not bl:
            kw.update(bline="", blcorner="", brcorner="")
        return urwid.LineBox(sub(ch), **kw)
    # ---- real widgets (oracle only) ----
    if k in REAL_LEAVES:
        lid, n = node[1], node[2]
        C = spy_classes()
        text = mark(lid) * n
        if k == "edit":
            caprows = node[4] if len(node) > 4 else 0
            w = C["REdit"]("#\n" * caprows, text)
            w.row_off = caprows
            w.set_edit_pos(node[3])
        elif k == "icon":
            w = C["RIcon"](text, node[3])
        elif k == "button":
            w = C["RButton"](text)
        else:
            w = C["RCheckBox"](text)
        w.init_spy(ctx, lid)
        ctx.leaves[lid] = w
        return w
    if k == "gridflow":
        _, cw, hs, vs, align, focus, cells = node
        w = urwid.GridFlow([sub(c) for c in cells], cw, hs, vs, align)
        if cells:
            w.focus_position = focus
        ctx.containers.append((w, focus))
        return w
    if k == "listbox":
        _, focus, items = node
        w = urwid.ListBox(urwid.SimpleFocusListWalker([sub(c) for c in items]))
        if items:
            w.focus_position = focus
        ctx.containers.append((w, focus))
        return w
    raise core.MachineryError("unknown node kind %r" % (k,))


def children(node):
    k = node[0]
    if k == "pile":
        return [c for _, c in node[2]]
    if k == "columns":
        return [c for _, _, c in node[4]]
    if k in ("padding", "filler", "boxadapter", "attrmap", "linebox"):
        return [node[1]]
    if k == "frame":
        return [c for c in node[1:4] if c]
    if k == "overlay":
        return [node[1], node[2]]
    if k == "gridflow":
        return list(node[6])
    if k == "listbox":
        return list(node[2])
    return []


def walk(node):
    yield node
    for c in children(node):
        yield from walk(c)


def path_to_leaf(node, lid, acc=()):
    """Kinds of the ancestors (root first) of spy leaf lid, or None."""
    if node[0] in ("leaf", "fleaf") + tuple(REAL_LEAVES):
        return acc if node[1] == lid else None
    for c in children(node):
        r = path_to_leaf(c, lid, acc + (node[0],))
        if r is not None:
            return r
    return None


def fixed_not_ragged(w, atomic=()):
    """Walk the widgets rendered with size (): every Pile among them gives all its fixed items the Pile's own width."""
    import urwid
    S = spy_classes()
    if isinstance(w, S["SpyBase"]) or any(w is a for a in atomic):
        return True
    if isinstance(w, urwid.AttrMap):
        return fixed_not_ragged(w.original_widget, atomic)
    if isinstance(w, urwid.Pile):
        try:
            _, _, args = w.get_rows_sizes((), focus=True)
            width = w.pack((), True)[0]
        except Exception:  # noqa: BLE001
            return True              # not renderable with (): judged by the rendering itself
        for (c, _), a in zip(w.contents, args):
            if a == ():
                if c.pack((), True)[0] != width or not fixed_not_ragged(c, atomic):
                    return False
            elif not fits_w(c, a, atomic):
                return False
        return True
    if isinstance(w, urwid.Columns):
        try:
            _, _, args = w.get_column_sizes((), focus=True)
        except Exception:  # noqa: BLE001
            return True
        return all(fixed_not_ragged(c, atomic) for (c, _), a in zip(w.contents, args) if a == ())
    if isinstance(w, urwid.Padding):
        if w._width_type == urwid.WHSettings.GIVEN:      # the child is a flow widget rendered with (width,)
            return w._width_amount >= 1 and fits_w(w.original_widget, (w._width_amount,), atomic)
        return fixed_not_ragged(w.original_widget, atomic)
    return True


def ragged_fixed_pile(w, size):
    """Some Pile of the tree is rendered with size () and has a fixed item narrower than the Pile: Pile.render(()) does
    not pad it, the canvas is ragged, and once it is overlaid / joined the drawn positions are not what any of the four
    methods computes (reported; such cases are outside the model: no correspondence, and they never count as fitting)."""
    import urwid
    try:
        if isinstance(w, urwid.LineBox):
            return ragged_fixed_pile(w._w, size)
        if isinstance(w, urwid.AttrMap):
            return ragged_fixed_pile(w.original_widget, size)
        if isinstance(w, urwid.BoxAdapter):
            return ragged_fixed_pile(w.original_widget, (size[0], w.height)) if size else False
        if isinstance(w, urwid.Pile):
            _, _, args = w.get_rows_sizes(size, focus=True)
            if not size:
                width = w.pack((), True)[0]
                if any(a == () and c.pack((), True)[0] != width for (c, _), a in zip(w.contents, args)):
                    return True
            return any(ragged_fixed_pile(c, a) for (c, _), a in zip(w.contents, args))
        if isinstance(w, urwid.Columns):
            _, _, args = w.get_column_sizes(size, focus=True)
            return any(ragged_fixed_pile(c, a) for (c, _), a in zip(w.contents, args))
        if isinstance(w, urwid.Padding):
            if size:
                left, right = w.padding_values(size, True)
                return ragged_fixed_pile(w.original_widget, (size[0] - left - right,) + tuple(size[1:]))
            if w._width_type == urwid.WHSettings.GIVEN:
                return ragged_fixed_pile(w.original_widget, (w._width_amount,))
            return ragged_fixed_pile(w.original_widget, ())
        if isinstance(w, urwid.Filler):
            if not size:
                return False
            if w.height_type == urwid.WHSettings.PACK:
                return ragged_fixed_pile(w.original_widget, (size[0],))
            maxrow = w.pack(size, True)[1]
            top, bottom = w.filler_values(size, True)
            return ragged_fixed_pile(w.original_widget, (size[0], maxrow - top - bottom))
        if isinstance(w, urwid.Frame):
            if len(size) != 2:
                return False
            (ht, ft), _ = w.frame_top_bottom(size, True)
            parts = [(w.body, (size[0], size[1] - ht - ft))]
            parts += [(p, (size[0],)) for p in (w.header, w.footer) if p is not None]
            return any(ragged_fixed_pile(p, sz) for p, sz in parts)
        if isinstance(w, urwid.Overlay):
            if len(size) != 2:
                return False
            left, right, top, bottom = w.calculate_padding_filler(size, True)
            return (ragged_fixed_pile(w.top_w, w.top_w_size(size, left, right, top, bottom))
                    or ragged_fixed_pile(w.bottom_w, size))
    except Exception:  # noqa: BLE001
        return False
    return False


def fits_w(w, size, atomic=()):
    """No child hidden or clipped for lack of space: walk the urwid tree top-down with the sizes the
    containers' own helper methods hand to their children (the precondition of the property)."""
    import urwid
    S = spy_classes()
    if not size:
        # a fixed widget decides its own size; whether its leaves are fully drawn is read off the canvas.  One thing is
        # not: Pile.render(()) does not pad its narrower fixed items to the Pile's width, the canvas is ragged then (what
        # is drawn where is undefined once such a canvas is overlaid or joined); such a Pile does not count as fitting
        return fixed_not_ragged(w, atomic)
    maxcol = size[0]
    if maxcol < 1 or (len(size) == 2 and size[1] < 1):
        return False
    if isinstance(w, S["SpyBase"]):
        return maxcol >= w.minw and (len(size) == 2) == bool(w.box)
    if any(w is a for a in atomic):
        return True
    if isinstance(w, urwid.LineBox):
        # the border pieces are atoms; the (empty) title column inside the top line is legitimately zero-width
        return fits_w(w._w, size, atomic + ((w.tline_widget,) if w.tline_widget is not None else ()))
    if isinstance(w, urwid.AttrMap):
        return fits_w(w.original_widget, size, atomic)
    if isinstance(w, urwid.BoxAdapter):
        return len(size) == 1 and w.height >= 1 and fits_w(w.original_widget, (maxcol, w.height), atomic)
    if isinstance(w, urwid.Pile):
        _, heights, args = w.get_rows_sizes(size, focus=True)
        if not heights or any(h < 1 for h in heights) or (len(size) == 2 and sum(heights) > size[1]):
            return False
        if any(a == () and c.pack((), True)[0] > maxcol for (c, _), a in zip(w.contents, args)):
            return False            # an item rendered fixed must not be wider than the Pile
        return all(fits_w(c, a, atomic) for (c, _), a in zip(w.contents, args))
    if isinstance(w, urwid.Columns):
        widths, heights, args = w.get_column_sizes(size, focus=True)
        n = len(w.contents)
        if n == 0 or len(widths) != n or any(x < 1 for x in widths) or sum(widths) + w.dividechars * (n - 1) > maxcol:
            return False
        static = [o[1] if o[0] == urwid.WHSettings.GIVEN else (w.min_width if o[0] == urwid.WHSettings.WEIGHT else None)
                  for _c, o in w.contents]
        if None not in static and (any(x < 0 for x in static) or sum(static) + w.dividechars * (n - 1) > maxcol):
            return False            # the static needs (given widths, min_width, dividers) must fit
        if any(h < 1 for h in heights) or (len(size) == 2 and any(h > size[1] for h in heights)):
            return False
        for (c, _), a, cw_, ch_ in zip(w.contents, args, widths, heights):
            if a == () and (c.pack((), True)[0] > cw_ or c.pack((), True)[1] > ch_):
                return False        # a column rendered fixed must hold its widget
        return all(fits_w(c, a, atomic) for (c, _), a in zip(w.contents, args))
    if isinstance(w, urwid.Padding):
        left, right = w.padding_values(size, True)
        return left >= 0 and right >= 0 and fits_w(w.original_widget, (maxcol - left - right,) + tuple(size[1:]), atomic)
    if isinstance(w, urwid.Filler):
        maxrow = w.pack(size, True)[1]
        top, bottom = w.filler_values(size, True)
        if top < 0 or bottom < 0:
            return False
        if w.height_type == urwid.WHSettings.PACK:
            return w.original_widget.rows((maxcol,), True) <= maxrow - top - bottom and fits_w(w.original_widget, (maxcol,), atomic)
        return fits_w(w.original_widget, (maxcol, maxrow - top - bottom), atomic)
    if isinstance(w, urwid.Frame):
        if len(size) != 2:
            return False
        (ht, ft), (hr, fr) = w.frame_top_bottom(size, True)
        if ht != hr or ft != fr or size[1] - ht - ft < 1:
            return False
        if w.header is not None and not (hr >= 1 and fits_w(w.header, (maxcol,), atomic)):
            return False
        if w.footer is not None and not (fr >= 1 and fits_w(w.footer, (maxcol,), atomic)):
            return False
        return fits_w(w.body, (maxcol, size[1] - ht - ft), atomic)
    if isinstance(w, urwid.Overlay):
        if len(size) != 2:
            return False
        left, right, top, bottom = w.calculate_padding_filler(size, True)
        if min(left, right, top, bottom) < 0:
            return False
        tsz = w.top_w_size(size, left, right, top, bottom)
        if len(tsz) == 1 and top + w.top_w.rows(tsz, True) > size[1]:      # the drawn rows must be inside the area
            return False
        return fits_w(w.top_w, tsz, atomic) and fits_w(w.bottom_w, size, atomic)
    if isinstance(w, urwid.GridFlow):
        return len(size) == 1 and maxcol >= w.cell_width and fits_w(w.get_display_widget(size), size, atomic)
    if isinstance(w, urwid.ListBox):
        if len(size) != 2:
            return False
        middle, top, bottom = w.calculate_visible(size, True)
        if middle is None:
            return False
        total = sum(c.rows((maxcol,), True) for c in w.body)
        return total <= size[1] and all(fits_w(c, (maxcol,), atomic) for c in w.body)
    if isinstance(w, (urwid.Divider, urwid.SolidFill, urwid.Text)):   # Text covers Edit, SelectableIcon
        return True
    if isinstance(w, urwid.WidgetWrap):                                 # Button, CheckBox
        return fits_w(w._w, size, atomic)
    return True


def canvas_rows(canv):
    out = []
    for row in canv.content():
        s = b"".join(t for _a, _cs, t in row).decode("utf-8")
        out.append(s)
    return out


def err(e):
    return "EXC:" + type(e).__name__


class Subject:
    """One freshly built tree (mouse presses and cursor moves change focus/cursor state)."""

    def __init__(self, case):
        import urwid
        from urwid import CanvasCache
        urwid.set_encoding("utf-8")
        CanvasCache.clear()
        self.ctx = Ctx()
        self.size = tuple(case["size"])
        self.w = build(case["tree"], self.ctx, ("fixed", "flow", "box")[len(self.size)])

    def render(self, focus=True):
        from urwid import CanvasCache
        CanvasCache.clear()
        del self.ctx.log[:]
        canv = self.w.render(self.size, focus)
        return canv, [e for e in self.ctx.log if e[0] == "render"]

    def gcursor(self):
        if not hasattr(self.w, "get_cursor_coords"):
            return "noattr"
        try:
            c = self.w.get_cursor_coords(self.size)
        except Exception as e:  # noqa: BLE001
            return err(e)
        return None if c is None else list(c)

    def restore_focus(self):
        for w, f in self.ctx.containers:
            try:
                if w.focus_position != f:
                    w.focus_position = f
            except Exception:  # noqa: BLE001
                pass


def observe(case, want_moves=True):
    """Everything the property talks about, observed on the implementation."""
    subj = Subject(case)
    size = subj.size
    res = {}
    gfresh = subj.gcursor()          # asked before the tree has ever been rendered
    try:
        canv, rlog = subj.render(True)
    except Exception as e:  # noqa: BLE001
        return {"render": err(e)}
    rows = canvas_rows(canv)
    res["cols"], res["rows"] = canv.cols(), canv.rows()
    rc = canv.cursor
    res["rcursor"] = None if rc is None else list(rc)
    # ---- where each spy leaf is drawn (from the canvas text) ----
    where = {}
    for y, line in enumerate(rows):
        for x, ch in enumerate(line):
            i = MARK.find(ch)
            if i >= 0 and i in subj.ctx.leaves:
                b = where.setdefault(i, [x, y, x, y, 0])
                b[0], b[1], b[2], b[3], b[4] = min(b[0], x), min(b[1], y), max(b[2], x), max(b[3], y), b[4] + 1
    rendered = {}
    for _, lid, sz, foc in rlog:
        rendered.setdefault(lid, []).append((sz, foc))
    leaves = []
    try:
        fits = subj.ctx.wf and fits_w(subj.w, size)
    except Exception as e:  # noqa: BLE001
        fits = False
    for lid, w in sorted(subj.ctx.leaves.items()):
        calls = rendered.get(lid, [])
        if lid not in where or len(calls) != 1:
            fits = False
            continue
        x0, y0, x1, y1, n = where[lid]
        (sz, foc) = calls[0]
        wcols, wrows = x1 - x0 + 1, y1 - y0 + 1
        need_rows = w.nrows(sz)
        if getattr(w, "fixed", False):     # a fixed leaf: its own size
            if n != wcols * wrows or wcols != w.fw or wrows != w.fh or sz != ():
                fits = False
            leaves.append([lid, x0, y0, wcols, wrows, 1 if foc else 0, -1, -1])
            continue
        if getattr(w, "real", False):      # a real widget: its marker text starts text_off columns right of its corner
            x0, y0, wcols, wrows = x0 - w.text_off, y0 - w.row_off, sz[0], need_rows
        elif n != wcols * wrows or wcols != sz[0] or wrows != need_rows or sz[0] < w.minw or wrows < 1:
            fits = False
        leaves.append([lid, x0, y0, wcols, wrows, 1 if foc else 0, sz[0], sz[1] if len(sz) > 1 else -1])
    res["leaves"] = leaves
    res["fits"] = fits
    res["hascur"] = hasattr(subj.w, "get_cursor_coords")
    res["hasmove"] = hasattr(subj.w, "move_cursor_to_coords")
    res["gcursor"] = subj.gcursor()
    res["gcursor_fresh"] = gfresh
    # ---- a button-1 press on every cell of the rendered area ----
    mouse = []
    fresh = has_real(case["tree"])          # real widgets keep state (edit position, check box state): rebuild per event
    for y in range(canv.rows()):
        for x in range(canv.cols()):
            if fresh:
                subj = Subject(case)
                subj.render(True)            # events follow a rendering at this size
            del subj.ctx.log[:]
            try:
                subj.w.mouse_event(size, "mouse press", 1, x, y, True)
            except Exception as e:  # noqa: BLE001
                mouse.append(err(e))
                subj.restore_focus()
                continue
            got = [[e[1], e[3], e[4], 1 if e[5] else 0, e[2][0] if e[2] else -1, e[2][1] if len(e[2]) > 1 else -1]
                   for e in subj.ctx.log if e[0] == "mouse"]
            mouse.append(0 if not got else (got[0] if len(got) == 1 else got))
            subj.restore_focus()
    res["mouse"] = mouse
    # ---- cursor moves, each on a fresh tree ----
    moves, leaf_results = [], []
    if want_moves:
        for col, row in case.get("moves", []):
            s2 = Subject(case)
            if fresh:
                s2.render(True)
            if not hasattr(s2.w, "move_cursor_to_coords"):
                moves.append("noattr")
                leaf_results.append([])
                continue
            del s2.ctx.log[:]
            try:
                r = s2.w.move_cursor_to_coords(size, col, row)
            except Exception as e:  # noqa: BLE001
                moves.append(err(e))
                leaf_results.append([])
                continue
            calls = [[e[1], e[3], e[4], e[2][0], e[2][1] if len(e[2]) > 1 else -1] for e in s2.ctx.log if e[0] == "move"]
            leaf_results.append([[e[1], 1 if e[5] else 0] for e in s2.ctx.log if e[0] == "move"])
            g = s2.gcursor()
            try:
                c2, _ = s2.render(True)
                rc2 = None if c2.cursor is None else list(c2.cursor)
            except Exception as e:  # noqa: BLE001
                rc2 = err(e)
            moves.append([1 if r else 0, calls, g, rc2])
    res["moves"] = moves
    if fresh:
        res["move_leaf_results"] = leaf_results      # what the (real) leaf itself answered
    # ---- consistency probes that involve widget state kept between calls (empty lists when everything agrees) ----
    res["cold_mouse_bad"], res["press_cursor_bad"] = [], []
    if want_moves:
        grid = drawn_grid(res)
        rect = {l[0]: l for l in leaves}
        leafcells = [(x, y) for y in range(res["rows"]) for x in range(res["cols"]) if grid[y][x] >= 0]
        # (1) the event reaches a tree that was never rendered at this size: never rendered at all / last rendered wider
        sample = leafcells if fresh else leafcells[:: max(1, len(leafcells) // 6)][:6]
        other = ((size[0] + 3,) + tuple(size[1:])) if size else None
        for (x, y) in sample:
            i = grid[y][x]
            for variant in ("never-rendered", "rendered-wider"):
                s3 = Subject(case)
                if variant == "rendered-wider":
                    if other is None:
                        continue
                    try:
                        s3.w.render(other, True)
                    except Exception:  # noqa: BLE001
                        continue
                del s3.ctx.log[:]
                try:
                    s3.w.mouse_event(size, "mouse press", 1, x, y, True)
                    got = [[e[1], e[3], e[4]] for e in s3.ctx.log if e[0] == "mouse"]
                except Exception as e:  # noqa: BLE001
                    got = err(e)
                if got != [[i, x - rect[i][1], y - rect[i][2]]]:
                    res["cold_mouse_bad"].append([variant, x, y, i, rect[i][1], rect[i][2], got])
        # (2) a press that moves the focus, with the first canvas still referenced (as the screen does) and the
        #     canvas cache in play: afterwards get_cursor_coords must still equal the cursor of the focused rendering
        from urwid import CanvasCache
        picks, seen = [], set()
        for (x, y) in leafcells:
            if grid[y][x] not in seen:
                seen.add(grid[y][x])
                picks.append((x, y))
        for (x, y) in picks[:5]:
            s4 = Subject(case)
            CanvasCache.clear()
            try:
                keep = s4.w.render(size, True)          # stays referenced
                s4.w.mouse_event(size, "mouse press", 1, x, y, True)
                g = s4.gcursor()
                rc4 = s4.w.render(size, True).cursor     # the cache is NOT cleared
            except Exception:  # noqa: BLE001
                continue
            del keep
            rc4 = None if rc4 is None else list(rc4)
            if not isinstance(g, str) and g != rc4:
                res["press_cursor_bad"].append([x, y, g, rc4])
        CanvasCache.clear()
    return res


# --------------------------------------------------------------------------------------
# generator: well-formed trees (children support the mode their container asks of them)
# --------------------------------------------------------------------------------------
class Gen:
    def __init__(self, rng, real=False, maxleaves=14):
        self.rng = rng
        self.n = 0
        self.real = real
        self.maxleaves = maxleaves

    def nid(self):
        self.n += 1
        return self.n - 1

    def leaf(self, box, sel=None):
        r = self.rng
        h = r.choice([1, 1, 2, 3])
        wrap = 0 if box else r.choice([0, 0, 0, 2, 3, 4, 6])
        if sel is None:
            sel = r.random() < 0.65
        api = (r.random() < 0.9) if sel else (r.random() < 0.1)
        cur = None
        if sel and api and r.random() < 0.75:
            cur = [r.choice([0, 0, 1, 2, 3, 5]), r.randrange(h) if not box else r.choice([0, 0, 1, 2])]
        rej = sorted(set(r.sample(range(0, 4), r.choice([0, 0, 0, 1, 2])))) if sel else []
        if cur is not None and cur[1] in rej:
            rej.remove(cur[1])
        minw = r.choice([1, 1, 1, 2, 3])
        return ["leaf", self.nid(), 1 if box else 0, h, 1 if sel else 0, 1 if api else 0, cur, rej, minw, wrap]

    def real_leaf(self):
        """["edit", id, nchars, edit_pos] | ["icon", id, nchars, cursor_pos] | ["button", id, nchars] | ["checkbox", id, nchars]
        (the text / label is the leaf's marker repeated nchars times)"""
        r = self.rng
        k = r.choice(["edit", "edit", "icon", "button", "checkbox"])
        n = r.choice([1, 2, 3, 5, 9])
        if k == "edit":
            return ["edit", self.nid(), n, r.randrange(n + 1), r.choice([0, 0, 1, 2])]
        if k == "icon":
            return ["icon", self.nid(), n, r.randrange(n + 2)]
        return [k, self.nid(), n]

    def align(self):
        r = self.rng
        return r.choice([["left"], ["center"], ["right"], ["relative", r.choice([0, 20, 50, 77, 100])]])

    def valign(self):
        r = self.rng
        return r.choice([["top"], ["middle"], ["bottom"], ["relative", r.choice([0, 30, 50, 80, 100])]])

    def full(self):
        return self.n >= self.maxleaves

    def flow(self, d):
        r = self.rng
        if d <= 0 or self.full() or r.random() < 0.25:
            if self.real and r.random() < 0.5:
                return self.real_leaf()
            return self.leaf(False)
        k = r.choice(["pile", "pile", "columns", "columns", "padding", "attrmap", "linebox", "boxadapter", "filler"]
                     + (["gridflow"] if self.real else []))
        if k == "pile":
            items = []
            for _ in range(r.choice([1, 2, 2, 3])):
                o = r.choice([["pack"], ["pack"], ["weight", r.choice([1, 2, 3])], ["given", r.choice([1, 2, 3])]])
                items.append([o, self.box(d - 1) if o[0] == "given" else self.flow(d - 1)])
            return ["pile", r.randrange(len(items)), items]
        if k == "columns":
            items = []
            for _ in range(r.choice([1, 2, 2, 3])):
                o = r.choice([["weight", r.choice([1, 1, 2, 3])], ["weight", 1], ["given", r.choice([1, 2, 3, 4, 6])]])
                isbox = 1 if r.random() < 0.25 else 0
                items.append([o, isbox, self.box(d - 1) if isbox else self.flow(d - 1)])
            if all(b for _, b, _ in items):     # a flow Columns needs one column giving the height
                items[0][1], items[0][2] = 0, self.flow(d - 1)
            return ["columns", r.randrange(len(items)), r.choice([0, 0, 1, 2]), r.choice([1, 1, 2]), items]
        if k == "padding":
            return self.padding(self.flow(d - 1))
        if k == "attrmap":
            return ["attrmap", self.flow(d - 1)]
        if k == "linebox":
            return ["linebox", self.flow(d - 1), r.choice([1, 1, 0]), r.choice([1, 1, 0])]
        if k == "boxadapter":
            return ["boxadapter", self.box(d - 1), r.choice([1, 2, 3, 5])]
        if k == "filler":    # a Filler is a flow widget when its height is 'pack' or given
            if r.random() < 0.5:
                return ["filler", self.flow(d - 1), self.valign(), ["pack"], None, r.choice([0, 0, 1]), r.choice([0, 0, 1])]
            return ["filler", self.box(d - 1), self.valign(), ["given", r.choice([1, 2, 3])], None, r.choice([0, 0, 1]), r.choice([0, 0, 1])]
        cells = [self.real_leaf() if r.random() < 0.7 else self.leaf(False) for _ in range(r.choice([1, 2, 3, 4]))]
        return ["gridflow", r.choice([3, 5, 8]), r.choice([0, 1]), r.choice([0, 1]), r.choice(["left", "center", "right"]),
                r.randrange(len(cells)), cells]

    def padding(self, ch):
        r = self.rng
        width = r.choice([["relative", r.choice([100, 100, 60, 33])], ["given", r.choice([1, 2, 3, 5, 8])], ["pack"]])
        minw = r.choice([None, None, 1, 3]) if width[0] in ("relative", "pack") else None
        return ["padding", ch, self.align(), width, minw, r.choice([0, 0, 1, 2]), r.choice([0, 0, 1, 2])]

    def box(self, d):
        r = self.rng
        if d <= 0 or self.full() or r.random() < 0.2:
            return self.leaf(True)
        k = r.choice(["filler", "filler", "frame", "pile", "pile", "columns", "padding", "attrmap", "linebox", "overlay"]
                     + (["listbox"] if self.real else []))
        if k == "filler":
            c = r.random()
            if c < 0.5:
                return ["filler", self.flow(d - 1), self.valign(), ["pack"], None, r.choice([0, 0, 1]), r.choice([0, 0, 1])]
            if c < 0.75:
                return ["filler", self.box(d - 1), self.valign(), ["given", r.choice([1, 2, 3])], None, r.choice([0, 0, 1]), r.choice([0, 0, 1])]
            return ["filler", self.box(d - 1), self.valign(), ["relative", r.choice([100, 70, 40])], r.choice([None, 1, 2]),
                    r.choice([0, 0, 1]), r.choice([0, 0, 1])]
        if k == "frame":
            hdr = self.flow(d - 1) if r.random() < 0.6 else None
            ftr = self.flow(d - 1) if r.random() < 0.6 else None
            fp = r.choice(["body", "body"] + (["header"] if hdr else []) + (["footer"] if ftr else []))
            return ["frame", self.box(d - 1), hdr, ftr, fp]
        if k == "pile":
            items = []
            n = r.choice([1, 2, 2, 3])
            wi = r.randrange(n)
            for i in range(n):
                o = ["weight", r.choice([1, 1, 2, 3])] if i == wi else r.choice(
                    [["pack"], ["pack"], ["weight", r.choice([1, 2, 3])], ["given", r.choice([1, 2, 3])]])
                items.append([o, self.flow(d - 1) if o[0] == "pack" else self.box(d - 1)])
            return ["pile", r.randrange(len(items)), items]
        if k == "columns":
            items = []
            for _ in range(r.choice([1, 2, 2, 3])):
                o = r.choice([["weight", r.choice([1, 1, 2, 3])], ["weight", 1], ["given", r.choice([1, 2, 3, 4, 6])]])
                items.append([o, 1 if r.random() < 0.3 else 0, self.box(d - 1)])
            return ["columns", r.randrange(len(items)), r.choice([0, 0, 1, 2]), r.choice([1, 1, 2]), items]
        if k == "padding":
            return self.padding(self.box(d - 1))
        if k == "attrmap":
            return ["attrmap", self.box(d - 1)]
        if k == "linebox":
            return ["linebox", self.box(d - 1), r.choice([1, 1, 0]), r.choice([1, 1, 0])]
        if k == "overlay":
            width = r.choice([["relative", r.choice([100, 60, 40])], ["given", r.choice([2, 3, 5])]])
            if r.random() < 0.5:
                top, height = self.flow(d - 1), ["pack"]
            else:
                top = self.box(d - 1)
                height = r.choice([["relative", r.choice([100, 60, 40])], ["given", r.choice([1, 2, 3])]])
            return ["overlay", top, ["fill"], self.align(), width, self.valign(), height,
                    r.choice([None, None, 1, 2]) if width[0] == "relative" else None,
                    r.choice([None, None, 1, 2]) if height[0] == "relative" else None,
                    r.choice([0, 0, 1]), r.choice([0, 0, 1]), r.choice([0, 0, 1]), r.choice([0, 0, 1])]
        items = [self.flow(d - 1) for _ in range(r.choice([1, 2, 3]))]
        return ["listbox", r.randrange(len(items)), items]


def estimate(node, cols=None):
    """Rough (cols, rows) needs used only to seed the size search."""
    k = node[0]
    if k == "leaf":
        return node[8], (1 if node[2] else node[3])
    if k == "fill":
        return 1, 1
    if k == "fleaf":
        return node[2], node[3]
    if k in REAL_LEAVES:
        return node[2] + {"edit": 1, "icon": 0, "button": 4, "checkbox": 4}[k], 1 + (node[4] if k == "edit" and len(node) > 4 else 0)
    cs = [estimate(c) for c in children(node)]
    if k == "pile":
        return max(c for c, _ in cs), sum(max(r, o[1] if o[0] == "given" else 1) for (c, r), (o, _) in zip(cs, node[2]))
    if k == "columns":
        n = len(cs)
        return sum(max(c, o[1] if o[0] == "given" else node[3]) for (c, _), (o, _, _) in zip(cs, node[4])) + node[2] * (n - 1), max(r for _, r in cs)
    if k == "padding":
        return cs[0][0] + node[5] + node[6], cs[0][1]
    if k == "filler":
        return cs[0][0], max(cs[0][1], node[3][1] if node[3][0] == "given" else 1) + node[5] + node[6]
    if k == "frame":
        return max(c for c, _ in cs), sum(r for _, r in cs)
    if k == "boxadapter":
        return cs[0][0], node[2]
    if k == "linebox":
        return cs[0][0] + 2, cs[0][1] + node[2] + node[3]
    if k == "overlay":
        return cs[0][0] + node[9] + node[10], cs[0][1] + node[11] + node[12]
    if k == "gridflow":
        return node[1], 3
    if k == "listbox":
        return max(c for c, _ in cs), sum(r for _, r in cs)
    return cs[0]


def drawn_grid(res):
    """Which spy leaf is drawn at each cell (-1: none), from the rectangles observed on the canvas
    (inside the precondition every leaf region is a full rectangle)."""
    g = [[-1] * res["cols"] for _ in range(res["rows"])]
    for lid, x0, y0, w, h, *_ in res["leaves"]:
        for y in range(y0, min(y0 + h, res["rows"])):
            for x in range(x0, min(x0 + w, res["cols"])):
                g[y][x] = lid
    return g


ERRNAME = {1: "IndexError", 2: "ValueError", 3: "TypeError", 10: "AttributeError"}
ATC = {"left": 0, "center": 1, "right": 2, "relative": 3, "top": 0, "middle": 1, "bottom": 2}
WTC = {"pack": 0, "given": 1, "relative": 2}


def _oz(v):
    return [0] if v is None else [1, v]


def _pad(align, width, minw, left, right):
    return [ATC[align[0]], align[1] if len(align) > 1 else 0, WTC[width[0]], width[1] if len(width) > 1 else 0] + _oz(minw) + [left, right]


def enc_tree(node, out):
    k = node[0]
    if k == "leaf":
        _, lid, box, h, sel, api, cur, rej, minw, wrap = node
        out += [0, lid, box, h, wrap, sel, api, 0 if cur is None else 1, 0 if cur is None else cur[0], 0 if cur is None else cur[1],
                len(rej)] + list(rej) + [minw, 0]
    elif k == "fleaf":
        _, lid, fw, fh, sel = node
        out += [0, lid, 0, fh, 0, sel, 0, 0, 0, 0, 0, 1, fw]
    elif k == "fill":
        out.append(10)
    elif k == "pile":
        out += [1, node[1], len(node[2])]
        for o, c in node[2]:
            out += [{"pack": 0, "given": 1, "weight": 2}[o[0]], o[1] if len(o) > 1 else 0]
            enc_tree(c, out)
    elif k == "columns":
        out += [2, node[1], node[2], node[3], len(node[4])]
        for o, b, c in node[4]:
            out += [{"pack": 0, "given": 1, "weight": 2}[o[0]], o[1] if len(o) > 1 else 0, b]
            enc_tree(c, out)
    elif k == "padding":
        out += [3] + _pad(*node[2:7])
        enc_tree(node[1], out)
    elif k == "filler":
        out += [4] + _pad(*node[2:7])
        enc_tree(node[1], out)
    elif k == "frame":
        out += [5, {"body": 0, "header": 1, "footer": 2}[node[4]], 1 if node[2] else 0, 1 if node[3] else 0]
        enc_tree(node[1], out)
        if node[2]:
            enc_tree(node[2], out)
        if node[3]:
            enc_tree(node[3], out)
    elif k == "boxadapter":
        out += [6, node[2]]
        enc_tree(node[1], out)
    elif k == "attrmap":
        out.append(7)
        enc_tree(node[1], out)
    elif k == "overlay":
        _, top, bottom, align, width, valign, height, minw, minh, left, right, t, b = node
        out += [8] + _pad(align, width, minw, left, right) + _pad(valign, height, minh, t, b)
        enc_tree(top, out)
        enc_tree(bottom, out)
    elif k == "linebox":
        out += [9, node[2], node[3]]
        enc_tree(node[1], out)
    else:
        raise core.MachineryError("cannot encode node kind %r" % (k,))


def needs_extended(case):
    """Fixed-size parts (size (), fixed leaves, 'pack' columns, Overlay width 'pack'): only in Model/GeometryX.v."""
    if not case["size"]:
        return True
    for n in walk(case["tree"]):
        if n[0] == "fleaf" or (n[0] == "overlay" and n[4][0] == "pack"):
            return True
        if n[0] == "columns" and any(o[0] == "pack" for o, _, _ in n[4]):
            return True
    return False


def has_real(tree):
    return any(n[0] not in MODEL_KINDS for n in walk(tree))


def leaf_nodes(tree):
    return {n[1]: n for n in walk(tree) if n[0] in ("leaf", "fleaf") or n[0] in REAL_LEAVES}


NO_MOVE_PROTOCOL = {"frame", "overlay", "listbox"}     # these classes define no move_cursor_to_coords


def leaf_accepted(lnodes, calls, res, nmv):
    """Did the leaf that was finally asked accept the cell?  (spy leaf: from its data; real Edit: what it answered)"""
    if not calls:
        return False
    lid, c, r, sc, sr = calls[-1]
    node = lnodes.get(lid)
    if node is None:
        return False
    if node[0] == "leaf":
        nrows = sr if node[2] else node[3] + (1 if sc < node[9] else 0)
        return bool(node[4]) and 0 <= r < nrows and r not in node[7]
    answers = [a for l2, a in (res.get("move_leaf_results") or [[]] * (nmv + 1))[nmv] if l2 == lid]
    return bool(answers and answers[-1])


def judge(case, res):
    """The property, judged on the implementation's observable behaviour only.
    Returns (violations, observations)."""
    msgs, obs = [], {}

    def note(k):
        obs[k] = obs.get(k, 0) + 1
    if "render" in res:
        note("render-raised:" + res["render"])
        return msgs, obs
    if not res["fits"]:
        note("outside-fits")
        return msgs, obs
    tree = case["tree"]
    lnodes = leaf_nodes(tree)
    root = tree[0] + ((" height=" + tree[6][0]) if tree[0] == "overlay" else "") \
        + (" +gridflow" if any(n[0] == "gridflow" for n in walk(tree)) else "")

    class Tagged(list):
        def append(self, m):
            list.append(self, m + f" [root: {root}]")
    msgs = Tagged()
    rect = {l[0]: l for l in res["leaves"]}
    text = drawn_grid(res)
    # --- clause 1: reported cursor = cursor of the focused rendering ---
    g, r = res["gcursor"], res["rcursor"]
    if g == "noattr":
        note("no-get_cursor_coords")
    elif isinstance(g, str):
        msgs.append(f"get_cursor_coords raised {g[4:]} while the focused rendering has cursor {r}")
    elif g != r:
        msgs.append(f"get_cursor_coords reports {g} but the focused rendering has its cursor at {r}")
    else:
        note("cursor-agree:" + ("some" if g else "none"))
    for variant, x, y, i, x0, y0, got in res.get("cold_mouse_bad", []):
        msgs.append(f"mouse press at ({x},{y}) on a tree {variant} at this size: leaf {i} is drawn there at ({x0},{y0}) "
                    f"but the event went to {got} (expected [[{i}, {x - x0}, {y - y0}]])")
    for x, y, g4, rc4 in res.get("press_cursor_bad", []):
        msgs.append(f"after a button-1 press at ({x},{y}) get_cursor_coords reports {g4} but the next focused rendering "
                    f"(first canvas still referenced, canvas cache in use) has its cursor at {rc4}")
    gf = res.get("gcursor_fresh", g)
    if gf != g and not isinstance(g, str):
        if isinstance(gf, str):
            msgs.append(f"get_cursor_coords on the never-rendered tree raised {gf[4:]}; the focused rendering has cursor {r}")
        else:
            msgs.append(f"get_cursor_coords on the never-rendered tree reports {gf} but the focused rendering has its cursor at {r}")
    # --- clause 2: a press on a cell where a leaf is drawn reaches exactly that leaf, relative coordinates ---
    cols = res["cols"]
    for n, got in enumerate(res["mouse"]):
        x, y = n % cols, n // cols
        i = text[y][x]
        # whatever is drawn at the cell: an event handed to a leaf is expressed relative to that leaf's top-left
        # corner, so it cannot lie left of, right of or above the leaf (rows BELOW a short column are passed on by
        # Columns by design: observed on the unmodified tree, not judged)
        if got and not isinstance(got, str):
            for ev in (got if isinstance(got[0], list) else [got]):
                if ev[4] >= 0 and (ev[1] < 0 or ev[2] < 0 or ev[1] >= ev[4]):
                    msgs.append(f"mouse press at ({x},{y}) was delivered to leaf {ev[0]} with coordinates ({ev[1]},{ev[2]}) "
                                f"outside the leaf (its width is {ev[4]}): the leaf is not drawn on that cell")
        if i < 0 or i not in rect:
            note("cell:no-leaf")
            if got:
                note("cell:no-leaf-but-delivered")
            continue
        _, x0, y0 = rect[i][:3]
        want = [i, x - x0, y - y0]
        if isinstance(got, str):
            msgs.append(f"mouse press at ({x},{y}) on leaf {i} raised {got[4:]}")
        elif not got:
            msgs.append(f"mouse press at ({x},{y}) was not delivered to leaf {i} drawn there")
        elif isinstance(got[0], list):
            msgs.append(f"mouse press at ({x},{y}) was delivered {len(got)} times: {[g_[:3] for g_ in got]}")
        elif got[0] != i:
            msgs.append(f"mouse press at ({x},{y}) where leaf {i} is drawn was delivered to leaf {got[0]}")
        elif got[:3] != want:
            msgs.append(f"mouse press at ({x},{y}) reached leaf {i} drawn at ({x0},{y0}) with coordinates "
                        f"({got[1]},{got[2]}), expected ({want[1]},{want[2]})")
        else:
            note("cell:hit")
            if got[4:6] != rect[i][6:8]:
                note("cell:hit-size-differs-from-render-size")
    # --- clause 3: move_cursor_to_coords ---
    for nmv, ((col, row), mv) in enumerate(zip(case.get("moves", []), res["moves"])):
        if mv == "noattr":
            note("move:no-method")
            continue
        # whatever is drawn at the requested cell: when the request went down to a leaf that accepted it and the
        # container reported success, the reported cursor must be on the requested row
        if not isinstance(mv, str) and mv[0] and mv[2] != "noattr" and leaf_accepted(lnodes, mv[1], res, nmv):
            if not isinstance(mv[2], list) or mv[2][1] != row:
                msgs.append(f"after a successful move_cursor_to_coords({col},{row}) (accepted by leaf {mv[1][-1][0]} as "
                            f"({mv[1][-1][1]},{mv[1][-1][2]})) get_cursor_coords reports {mv[2]}")
                continue
        if not (0 <= row < len(text) and 0 <= col < cols):
            note("move:outside")
            continue
        i = text[row][col]
        if i < 0 or i not in rect or i not in lnodes:
            note("move:no-leaf-cell")
            continue
        node = lnodes[i]
        path = path_to_leaf(tree, i) or ()
        if node[0] == "leaf":
            has_protocol = bool(node[5] and node[4])
        else:
            has_protocol = node[0] == "edit"            # SelectableIcon / Button / CheckBox have no move_cursor_to_coords of their own
        if any(k in NO_MOVE_PROTOCOL for k in path) or not has_protocol:
            note("move:chain-without-protocol")
            continue
        _, x0, y0 = rect[i][:3]
        if isinstance(mv, str):
            msgs.append(f"move_cursor_to_coords({col},{row}) raised {mv[4:]}")
            continue
        ok, calls, g2, _rc2 = mv
        asked = [c for c in calls if c[0] == i]
        if node[0] == "leaf":
            accept = (row - y0) not in node[7]
        else:                                            # a real Edit: what it answered itself
            answers = [a for lid, a in res.get("move_leaf_results", [[]] * (nmv + 1))[nmv] if lid == i]
            if not answers:
                msgs.append(f"move_cursor_to_coords({col},{row}): leaf {i} drawn at ({x0},{y0}) was not asked")
                continue
            accept = bool(answers[-1])
        if not any(c[1:3] == [col - x0, row - y0] for c in asked):
            msgs.append(f"move_cursor_to_coords({col},{row}): leaf {i} drawn at ({x0},{y0}) was asked about "
                        f"{[c[1:3] for c in asked]}, not about the translated cell ({col - x0},{row - y0})")
            continue
        if bool(ok) != accept:
            msgs.append(f"move_cursor_to_coords({col},{row}) returned {bool(ok)} but leaf {i} "
                        f"{'accepts' if accept else 'refuses'} the translated cell ({col - x0},{row - y0})")
            continue
        if accept:
            if not isinstance(g2, list) or g2[1] != row:
                msgs.append(f"after a successful move_cursor_to_coords({col},{row}) get_cursor_coords reports {g2}")
            else:
                note("move:ok-row")
                if g2[0] != col:
                    note("move:ok-row-other-col")
        else:
            note("move:refused")
    return msgs, obs


def subtrees(node, mode, path=()):
    """(path, node, mode) for every node of the tree."""
    yield path, node, mode
    cms = child_modes(node, mode)
    for n, (c, m) in enumerate(zip(children(node), cms)):
        yield from subtrees(c, m, path + (n,))


def replace_at(node, path, new):
    """Copy of node with the subtree at path (indices into children()) replaced by new."""
    if not path:
        return new
    k, i = node[0], path[0]
    node = list(node)
    if k == "pile":
        node[2] = [[o, replace_at(c, path[1:], new) if n == i else c] for n, (o, c) in enumerate(node[2])]
    elif k == "columns":
        node[4] = [[o, b, replace_at(c, path[1:], new) if n == i else c] for n, (o, b, c) in enumerate(node[4])]
    elif k in ("padding", "filler", "boxadapter", "attrmap", "linebox"):
        node[1] = replace_at(node[1], path[1:], new)
    elif k == "frame":
        slots = [j for j in (1, 2, 3) if node[j]]
        node[slots[i]] = replace_at(node[slots[i]], path[1:], new)
    elif k == "overlay":
        node[1 + i] = replace_at(node[1 + i], path[1:], new)
    elif k == "gridflow":
        node[6] = [replace_at(c, path[1:], new) if n == i else c for n, c in enumerate(node[6])]
    elif k == "listbox":
        node[2] = [replace_at(c, path[1:], new) if n == i else c for n, c in enumerate(node[2])]
    return node


def simpler_nodes(node, mode):
    """Smaller / plainer variants of one node that work in the same mode."""
    k = node[0]
    cms = child_modes(node, mode)
    for c, m in zip(children(node), cms):
        if m == mode and c[0] != "fill":
            yield c
    if k == "leaf":
        base = list(node)
        for idx, v in ((7, []), (6, None), (3, 1), (8, 1), (9, 0)):
            if base[idx] != v:
                n2 = list(base)
                n2[idx] = v
                yield n2
        if node[6] is not None and node[6] != [0, 0]:
            n2 = list(base)
            n2[6] = [0, 0]
            yield n2
    elif k == "pile":
        items = node[2]
        if len(items) > 1:
            for i in range(len(items)):
                rest = items[:i] + items[i + 1:]
                f = node[1] - 1 if node[1] > i else min(node[1], len(rest) - 1)
                yield ["pile", f, rest]
        for i, (o, c) in enumerate(items):
            if o[0] in ("given", "weight") and o[1] != 1:
                yield ["pile", node[1], items[:i] + [[[o[0], 1], c]] + items[i + 1:]]
        if node[1] != 0:
            yield ["pile", 0, items]
    elif k == "columns":
        items = node[4]
        if len(items) > 1:
            for i in range(len(items)):
                rest = items[:i] + items[i + 1:]
                f = node[1] - 1 if node[1] > i else min(node[1], len(rest) - 1)
                yield ["columns", f, node[2], node[3], rest]
        if node[2] != 0:
            yield ["columns", node[1], 0, node[3], items]
        if node[3] != 1:
            yield ["columns", node[1], node[2], 1, items]
        for i, (o, b, c) in enumerate(items):
            if o != ["weight", 1]:
                yield ["columns", node[1], node[2], node[3], items[:i] + [[["weight", 1], b, c]] + items[i + 1:]]
        if node[1] != 0:
            yield ["columns", 0, node[2], node[3], items]
    elif k == "padding":
        for idx, v in ((2, ["left"]), (3, ["relative", 100]), (4, None), (5, 0), (6, 0)):
            if node[idx] != v:
                n2 = list(node)
                n2[idx] = v
                yield n2
    elif k == "filler":
        for idx, v in ((2, ["top"]), (4, None), (5, 0), (6, 0)):
            if node[idx] != v:
                n2 = list(node)
                n2[idx] = v
                yield n2
    elif k == "frame":
        for idx in (2, 3):
            if node[idx] and node[4] != ("header" if idx == 2 else "footer"):
                n2 = list(node)
                n2[idx] = None
                yield n2
        if node[4] != "body":
            n2 = list(node)
            n2[4] = "body"
            yield n2
    elif k == "overlay":
        for idx, v in ((3, ["left"]), (5, ["top"]), (7, None), (8, None), (9, 0), (10, 0), (11, 0), (12, 0)):
            if node[idx] != v:
                n2 = list(node)
                n2[idx] = v
                yield n2
    elif k == "linebox":
        for idx in (2, 3):
            if node[idx]:
                n2 = list(node)
                n2[idx] = 0
                yield n2
    elif k == "gridflow":
        cells = node[6]
        if len(cells) > 1:
            for i in range(len(cells)):
                rest = cells[:i] + cells[i + 1:]
                yield ["gridflow", node[1], node[2], node[3], node[4], min(node[5], len(rest) - 1), rest]
    elif k == "listbox":
        items = node[2]
        if len(items) > 1:
            for i in range(len(items)):
                rest = items[:i] + items[i + 1:]
                yield ["listbox", min(node[1], len(rest) - 1), rest]
    elif k in REAL_LEAVES:
        if node[2] > 1:
            n2 = list(node)
            n2[2] = node[2] - 1
            if k in ("edit", "icon"):
                n2[3] = min(node[3], n2[2])
            yield n2
        if k in ("edit", "icon") and node[3] != 0:
            n2 = list(node)
            n2[3] = 0
            yield n2
        if k == "edit" and len(node) > 4 and node[4] > 0:
            n2 = list(node)
            n2[4] = node[4] - 1
            yield n2

class C09(core.Check):
    pid = "C09"
    gen_modules = ["geo_padfill", "layout"]   # layout: C19's translation; its theorems are imported (Proofs/GeometryLayoutTie.v)
    model_targets = ["theories/Model/Geometry.vo", "theories/Model/GeometryX.vo"]
    prop_file = "theories/Properties/C09.v"
    extract_v = "Extract/C09X.v"
    allowed_axioms = set()
    design_ref = "DESIGN.md section 5, C09"
    technique = ("Coq theorems (one local lemma group per container, generic composition lemmas, structural induction over "
                 "the widget tree) about an executable model in which every container's render / get_cursor_coords / "
                 "mouse_event / move_cursor_to_coords is written from its own code path; the padding / filler arithmetic "
                 "is re-translated from the source on every run (py2v); extracted-model correspondence on trees of spy "
                 "leaves; an oracle that reads the drawn leaf of every cell from the canvas")
    level_text = ("Proved in Coq for every tree built from Leaf (data-described Edit-like or inert leaf), Pile, Columns "
                  "(given / weight), Padding (given / relative), Filler (pack / given / relative), Frame, BoxAdapter, "
                  "AttrMap, Overlay (given / relative width; pack / given / relative height) and LineBox (as the "
                  "Pile/Columns composition it is) and every size at which the tree fits (no child hidden or clipped), no "
                  "bound on depth or size: (1) cursor_agree: get_cursor_coords = cursor of the focused rendering as "
                  "placed by render; (2) mouse_hits_drawn_child + mouse_to_no_other_child (one level, every class) and "
                  "mouse_reaches_drawn_leaf (whole tree): a press on any cell of a drawn child / leaf rectangle is routed "
                  "to exactly that child / leaf with coordinates relative to its top-left corner and the size render "
                  "gave it; (3) move_cursor_iff_child: move_cursor_to_coords succeeds exactly when the child drawn at "
                  "the cell accepts the translated cell; plus lemmas about the translated padding / filler "
                  "arithmetic (margins never negative, top + height + bottom exact) which since extension round 2 are "
                  "C19's theorems carried over: padding_translation_is_c19s / filler_translation_is_c19s (both "
                  "properties' py2v translations are the same function), column_widths_is_c19s (the two hand mirrors "
                  "of Columns.column_widths are the same function), column_widths_partition, padding_child_width; (4) cursor_on_requested_row: after a "
                  "successful move that went down to a leaf the tree still fits and the reported cursor is on the "
                  "requested row, including moves that change the focus of a Pile or a Columns (needs "
                  "column_widths_focus_independent: when the static needs fit, Columns.column_widths does not depend "
                  "on focus_position).  The two "
                  "Overlay statements refuted in the first round hold since the fix: commits ebf9945 / f18097d (former "
                  "witnesses kept as regression Examples and corpus cases).  EXTENDED MODEL (Model/GeometryX.v: fixed-size "
                  "paths, size (): fixed leaves, Padding / Pile / Columns rendered fixed, 'pack' items holding fixed-only "
                  "widgets, 'pack' columns, Overlay width 'pack'): extended_view_is_view_on_sized_trees (on a tree "
                  "without fixed parts the extended view IS the proved view, by construction) and, for EVERY tree and "
                  "every size including (): cursor_agree_x, mouse_reaches_drawn_leaf_x, leaf_rects_inside_canvas_x "
                  "(the canvas of a widget rendered fixed is its packed size), fits_size_kind; one level for widgets "
                  "with fixed parts: mouse_hits_drawn_child_x, mouse_to_no_other_child_x, move_cursor_iff_child_x; and "
                  "cursor_on_requested_row_x: for EVERY tree of the extended model and every size including (), after a "
                  "successful move that went down to a leaf the tree still fits and the reported cursor is on the "
                  "requested row (Proofs/GeometryXMove.v: a move keeps the shape of the tree, hence sizing() and packed "
                  "widths; column_widths with 'pack' columns is focus-independent when the static needs fit).  In run_case the two models are still compared "
                  "with each other on every case without fixed parts.  Oracle only (no model): real Edit / SelectableIcon / "
                  "Button / CheckBox leaves, GridFlow, ListBox, get_pref_col, Padding 'clip'.  Overlay pop-ups "
                  "(PopUpLauncher/PopUpTarget) are not covered.")
    level_note = ("Trusted: Coq kernel, py2v translator, ExtrOcamlBasic extraction + OCaml driver, the hand-written "
                  "mirror of each method and of Pile.get_rows_sizes / get_item_rows, Columns.column_widths / "
                  "get_column_sizes, Frame.frame_top_bottom in Model/Geometry.v (validated by an exact "
                  "correspondence on every generated tree, not proved against Python), the Python oracle and the "
                  "Python-side 'fits' walk.  Assumes rows() independent of focus, canvas rows = rows() (C01), "
                  "children supporting the mode their container asks of them (checked per case against sizing()).")
    rule = ("cases = (tree, size, cursor-move requests): random well-formed trees (depth <= 4, <= 10 spy leaves, every "
            "option of every container) at the smallest sizes at which nothing is clipped plus small slack; for every "
            "cell of the rendered area one button-1 press; 4-6 move_cursor_to_coords requests biased to leaf cells; "
            "extra Overlay-with-wrapping-top cases; trees with real urwid leaves, GridFlow, ListBox (oracle only); "
            "non-trivial = fits and at least one leaf drawn; distinct by hash of (case, outcome)")
    trusted_base = [
        "Coq 8.16.1 kernel (coqc; vm_compute used only for closed examples and refutation witnesses)",
        "tools/py2v translator (int_scale, calculate_left_right_padding, calculate_top_bottom_filler regenerated every run)",
        "extraction: ExtrOcamlBasic only; Z/positive stay Coq datatypes; OCaml 4.13.1; tools/driver/driver.ml",
        "hand-written mirror of the geometry methods and size helpers in Model/Geometry.v (validated by this correspondence)",
        "C19's Model/Layout.v, Proofs/LayoutArith.v, Proofs/LayoutColumns.v, Gen/layout_gen.v (imported read-only; Proofs/GeometryLayoutTie.v proves this model's arithmetic equal to C19's, so a drift of either hand mirror of column_widths breaks the build)",
        "Model/GeometryX.v (fixed-size paths, 'pack' columns, sizing() of Pile / Columns): hand-written mirror validated by the correspondence; theorems in Proofs/GeometryXProofs.v and Proofs/GeometryXMove.v; identical to the proved model on trees without fixed parts (proved; also compared at run time)",
        "Python oracle, spy leaves and the implementation-side 'fits' walk in harness/props/c09.py",
    ]
    assumptions = [
        "rows() of every widget is independent of its focus argument; a widget's canvas has rows() rows (C01)",
        "every child supports the mode (flow / box) its container asks of it (checked against sizing() for every case)",
        "integer columns for move_cursor_to_coords ('left' / 'right' are not modelled); button-1 press events",
        "pack((maxcol,))[0] == maxcol for every modelled widget (Widget.pack default; Text-like widgets with their own pack are oracle-only)",
        "a Padding rendered with size () 'fits' when its width is 'pack' around a fixed widget or given (>= 1) around a flow widget that fits (width,) (since fix ba33666 all methods hand the child that size, since fix cc624af a press on a margin reaches nobody at size () too; the former witness is a corpus case and Example padding_given_fixed_repaired); a relative width at size () is excluded; every fixed item must fit the width / column it gets",
        "a Pile rendered with size () 'fits' only when all its fixed items are as wide as the Pile: Pile.render(()) does not pad narrower items, the canvas is ragged and, overlaid or joined, is drawn at positions no method computes (reported, corpus/C09/repro_pile_ragged.py); such cases get no correspondence (encode returns None) and are never judged by the oracle",
        "leaf contract: a leaf's get_cursor_coords equals the cursor of its own focused rendering; a cursor implies selectable + cursor API",
        "the bottom widget of an Overlay is background: it never receives mouse events (by design of Overlay.mouse_event)",
        "mouse events and cursor moves follow a rendering at the same size; additionally get_cursor_coords and sample presses are sent to a never-rendered tree and to a tree last rendered at another width, and after a focus-moving press get_cursor_coords is compared with the next focused rendering with the canvas cache in use",
    ]

    # ---------- implementation ----------
    def run_impl(self, case):
        return observe(case)

    # ---------- model wire format ----------
    def encode(self, case):
        if has_real(case["tree"]):
            return None                      # real Edit / Button / GridFlow / ListBox: judged by the oracle only
        if needs_extended(case):
            subj = Subject(case)
            if ragged_fixed_pile(subj.w, subj.size):
                return None                  # a ragged canvas (see ragged_fixed_pile): outside the model
        size = case["size"]
        # model 0: the proved model of Geometry.v (cross-checked against the extended one); 1: extended model only
        out = [1 if needs_extended(case) else 0,
               size[0] if size else -1, 1 if len(size) == 2 else 0, size[1] if len(size) == 2 else 0, len(case["moves"])]
        for c, r in case["moves"]:
            out += [c, r]
        enc_tree(case["tree"], out)
        return out

    def decode(self, case, ints):
        it = iter(ints)
        nx = lambda: next(it)  # noqa: E731

        def oxy():
            return [nx(), nx()] if nx() else None

        def cres():
            t = nx()
            if t == 0:
                return None
            if t == 1:
                return [nx(), nx()]
            return "EXC:" + ERRNAME.get(nx(), "?")
        try:
            if ints[:1] == [-1]:
                return {"malformed": ints[:20]}
            if ints[:1] == [-2]:
                return {"models-disagree": "Model/Geometry.v and Model/GeometryX.v give different answers"}
            res = {"fits": bool(nx()), "hascur": bool(nx()), "hasmove": bool(nx()), "cols": nx(), "rows": nx()}
            res["rcursor"] = oxy()
            g = cres()
            res["gcursor"] = g if res["hascur"] else "noattr"
            res["gcursor_fresh"] = res["gcursor"]
            res["leaves"] = sorted([nx() for _ in range(8)] for _ in range(nx()))
            mouse = []
            for _ in range(nx()):
                t = nx()
                mouse.append([nx() for _ in range(6)] if t == 1 else ("EXC:AttributeError" if t == 2 else 0))
            res["mouse"] = mouse
            moves = []
            for _ in range(nx()):
                ok = nx()
                calls = [[nx() for _ in range(5)]] if nx() else []
                g2, rc2 = cres(), oxy()
                moves.append([ok, calls, g2 if res["hascur"] else "noattr", rc2] if res["hasmove"] else "noattr")
            res["moves"] = moves
            res["cold_mouse_bad"], res["press_cursor_bad"] = [], []     # the model has no state between calls
        except StopIteration:
            return {"malformed": ints[:50]}
        return res

    def oracle(self, case, res):
        return judge(case, res)[0]

    def distribution(self, case, res, dist):
        _, obs = judge(case, res)
        for k, v in obs.items():
            dist[k] = dist.get(k, 0) + v
        for n in walk(case["tree"]):
            dist["node:" + n[0]] = dist.get("node:" + n[0], 0) + 1
        md = "mode:" + ("fixed", "flow", "box")[len(case["size"])]
        dist[md] = dist.get(md, 0) + 1

    def nontrivial(self, case, res):
        return bool(res.get("fits")) and len(res.get("leaves", [])) >= 1

    def signature(self, case, msg):
        return re.sub(r"\d+", "N", re.sub(r" \[root: [^\]]*\]$", "", msg))

    # ---------- generator ----------
    def sized(self, rng, tree, box, tries=7):
        """Find a size at (or slightly above) which nothing is clipped; None if none found."""
        ec, er = estimate(tree)
        cols = max(1, ec + rng.choice([0, 0, 0, 1, 2, 4]))
        rows = max(1, er + rng.choice([0, 0, 0, 1, 2, 3]))
        for _ in range(tries):
            case = {"tree": tree, "size": [cols, rows] if box else [cols], "moves": []}
            try:
                res = observe(case, want_moves=False)
            except Exception:  # noqa: BLE001
                return None
            if res.get("fits"):
                return case, res
            cols += rng.choice([1, 1, 2, 3])
            if box:
                rows += rng.choice([0, 1, 1, 2])
            if cols > 60 or rows > 30:
                break
        return None

    def add_moves(self, rng, case, res, n):
        cols, rows = res["cols"], res["rows"]
        cells = [(x, y) for y in range(rows) for x in range(cols)]
        grid = drawn_grid(res)
        leafcells = [(x, y) for (x, y) in cells if grid[y][x] >= 0]
        # cells just outside a leaf rectangle (first row below, column beside, row above) that are still in the area
        near = []
        for _lid, x0, y0, w, h, *_ in res["leaves"]:
            for (x, y) in ((x0, y0 + h), (x0 + w - 1, y0 + h), (x0 + w, y0), (x0 - 1, y0), (x0, y0 - 1)):
                if 0 <= x < cols and 0 <= y < rows and grid[y][x] < 0:
                    near.append((x, y))
        mv = []
        for k in range(n):
            if near and k % 3 == 2:
                pool = near
            else:
                pool = leafcells if leafcells and rng.random() < 0.8 else cells
            if pool:
                mv.append(list(rng.choice(pool)))
        case["moves"] = mv

    def random_case(self, rng, depth, real=False, maxleaves=10, nmoves=6):
        for _ in range(30):
            g = Gen(rng, real=real, maxleaves=maxleaves)
            box = rng.random() < 0.5
            tree = g.box(depth) if box else g.flow(depth)
            if g.n > len(MARK) or g.n == 0:
                continue
            got = self.sized(rng, tree, box)
            if got is None:
                continue
            case, res = got
            if res["cols"] * res["rows"] > 700:
                continue
            self.add_moves(rng, case, res, nmoves)
            return case
        return None

    def cases(self, rng, tier):
        # spy-leaf trees: compared with the extracted model and judged by the oracle
        n = 1500 if tier == "quick" else 12000
        for i in range(n):
            c = self.random_case(rng, rng.choice([1, 2, 2, 3, 3, 4]))
            if c is not None:
                yield c
        # the Overlay corner where hit-testing and drawing use different widths (flow top widget that wraps)
        for i in range(40 if tier == "quick" else 400):
            c = self.overlay_case(rng)
            if c is not None:
                yield c
        # a real Edit with caption-only rows: every row of it is asked for the cursor
        for i in range(60 if tier == "quick" else 600):
            c = self.edit_case(rng)
            if c is not None:
                yield c
        # fixed widgets (size ()): oracle only
        for i in range(80 if tier == "quick" else 800):
            c = self.fixed_case(rng)
            if c is not None:
                yield c
        # trees with real Edit / SelectableIcon / Button / CheckBox leaves, GridFlow and ListBox: oracle only
        for i in range(120 if tier == "quick" else 1500):
            c = self.random_case(rng, rng.choice([1, 2, 2, 3]), real=True, nmoves=4)
            if c is not None:
                yield c

    def edit_case(self, rng):
        """A real Edit (often with caption-only rows) under a few random flow wrappers; every row of it is asked."""
        g = Gen(rng, real=True)
        tree = ["edit", g.nid(), rng.choice([1, 3, 6]), 0, rng.choice([0, 1, 1, 2])]
        tree[3] = rng.randrange(tree[2] + 1)
        for _ in range(rng.choice([0, 1, 1, 2, 3])):
            k = rng.choice(["pile", "pile", "columns", "padding", "attrmap", "linebox", "filler"])
            if k == "pile":
                items = [[["pack"], tree]]
                for _ in range(rng.choice([0, 1, 2])):
                    items.insert(rng.randrange(len(items) + 1), [["pack"], g.leaf(False)])
                tree = ["pile", rng.randrange(len(items)), items]
            elif k == "columns":
                items = [[["weight", 1], 0, tree]]
                for _ in range(rng.choice([0, 1])):
                    items.insert(rng.randrange(len(items) + 1), [["given", rng.choice([2, 3])], 0, g.leaf(False)])
                tree = ["columns", rng.randrange(len(items)), rng.choice([0, 1]), 1, items]
            elif k == "padding":
                tree = g.padding(tree)
            elif k == "attrmap":
                tree = ["attrmap", tree]
            elif k == "linebox":
                tree = ["linebox", tree, 1, 1]
            else:
                tree = ["filler", tree, g.valign(), ["pack"], None, rng.choice([0, 1]), rng.choice([0, 1])]
        box = tree[0] == "filler" and rng.random() < 0.7
        got = self.sized(rng, tree, box)
        if got is None:
            return None
        case, res = got
        rect = [l for l in res["leaves"] if l[0] == 0]
        if not rect:
            return None
        _, x0, y0, w, h = rect[0][:5]
        rows = list(range(max(0, y0 - 1), min(res["rows"], y0 + h + 1)))
        case["moves"] = [[min(res["cols"] - 1, max(0, x0 + rng.randrange(w))), y] for y in rows[:6]]
        return case

    def fixed_tree(self, g, rng, d):
        if d <= 0 or rng.random() < 0.35:
            return ["fleaf", g.nid(), rng.choice([1, 2, 3, 5]), rng.choice([1, 1, 2]), 1 if rng.random() < 0.6 else 0]
        k = rng.choice(["padding", "padding", "attrmap", "pile", "columns", "gpadding"])
        if k == "gpadding":     # a given width makes a Padding around a flow widget a fixed widget (the child gets (width,))
            return ["padding", g.leaf(False), g.align(), ["given", rng.choice([1, 2, 3, 5])], None,
                    rng.choice([0, 1, 2]), rng.choice([0, 1, 2])]
        if k == "padding":
            return ["padding", self.fixed_tree(g, rng, d - 1), g.align(), ["pack"], None, rng.choice([0, 1, 2, 3]), rng.choice([0, 1, 2])]
        if k == "attrmap":
            return ["attrmap", self.fixed_tree(g, rng, d - 1)]
        if k == "pile":
            items = [[["pack"], self.fixed_tree(g, rng, d - 1)] for _ in range(rng.choice([1, 2, 2]))]
            return ["pile", rng.randrange(len(items)), items]
        items = [[["pack"], 0, self.fixed_tree(g, rng, d - 1)] for _ in range(rng.choice([1, 2, 2]))]
        return ["columns", rng.randrange(len(items)), rng.choice([0, 1]), 1, items]

    def fixed_case(self, rng):
        """Widgets rendered with size (): alone, as a 'pack' item of a flow Pile / Columns, or as the top of an Overlay."""
        g = Gen(rng)
        ft = self.fixed_tree(g, rng, rng.choice([1, 2, 2, 3]))
        kind = rng.choice(["alone", "alone", "overlay", "pile", "columns", "packflow"])
        if kind == "packflow":      # a 'pack' column around a flow widget takes pack((maxcol,))[0] = all the columns
            tree = ["columns", 0, rng.choice([0, 1]), 1, [[["pack"], 0, g.flow(rng.choice([0, 1]))]]]
            if has_real(tree) or any(n[0] == "fleaf" for n in walk(tree)):
                return None
            got = self.sized(rng, tree, False)
            if not got:
                return None
            self.add_moves(rng, got[0], got[1], 3)
            return got[0]
        if kind == "alone":
            case = {"tree": ft, "size": [], "moves": []}
            try:
                res = observe(case, want_moves=False)
            except Exception:  # noqa: BLE001
                return None
            if not res.get("fits"):
                return None
            try:
                self.add_moves(rng, case, res, 3)
            except Exception:  # noqa: BLE001
                case["moves"] = []
            return case
        if kind == "overlay":
            tree = ["overlay", ft, ["fill"], g.align(), ["pack"], g.valign(), ["pack"], None, None,
                    rng.choice([0, 0, 1]), rng.choice([0, 0, 1]), rng.choice([0, 0, 1]), rng.choice([0, 0, 1])]
            got = self.sized(rng, tree, True)
        elif kind == "pile":
            items = [[["pack"], ft], [["pack"], g.leaf(False)]]
            rng.shuffle(items)
            got = self.sized(rng, ["pile", rng.randrange(2), items], False)
        else:
            items = [[["pack"], 0, ft], [["weight", 1], 0, g.leaf(False)]]
            rng.shuffle(items)
            got = self.sized(rng, ["columns", rng.randrange(2), rng.choice([0, 1]), 1, items], False)
        if not got:
            return None
        self.add_moves(rng, got[0], got[1], 3)
        return got[0]

    def overlay_case(self, rng):
        g = Gen(rng)
        leaf = g.leaf(False)
        leaf[9] = rng.choice([2, 3, 4, 5])                    # wraps below this width
        width = rng.choice([1, 2, 3, 4])
        top = leaf if rng.random() < 0.6 else ["pile", 0, [[["pack"], leaf]]]
        tree = ["overlay", top, ["fill"], g.align(), ["given", width], g.valign(), ["pack"], None, None,
                rng.choice([0, 0, 1]), rng.choice([0, 0, 1]), rng.choice([0, 0, 1]), rng.choice([0, 0, 1])]
        if rng.random() < 0.4:
            tree = ["frame", tree, g.flow(0) if rng.random() < 0.5 else None, None, "body"]
        got = self.sized(rng, tree, True)
        if got is None:
            return None
        case, res = got
        self.add_moves(rng, case, res, 2)
        return case

    def shrink_candidates(self, case):
        tree, size, moves = case["tree"], list(case["size"]), case["moves"]
        box = len(size) == 2
        mode = ("fixed", "flow", "box")[len(size)]
        if moves:
            yield {"tree": tree, "size": size, "moves": []}
        # a child of the root in place of the root (its own mode, a few sizes)
        for c, m in zip(children(tree), child_modes(tree, mode)):
            if c[0] == "fill":
                continue
            if m == mode:
                yield {"tree": c, "size": size, "moves": moves}
            elif m == "fixed":
                yield {"tree": c, "size": [], "moves": []}
            elif m == "flow":
                yield {"tree": c, "size": size[:1], "moves": moves}
            else:
                for r in (1, 2, 3, 5):
                    yield {"tree": c, "size": [size[0], r], "moves": moves}
        # fewer moves
        if len(moves) > 1:
            for i in range(len(moves)):
                yield {"tree": tree, "size": size, "moves": [moves[i]]}
        # simpler nodes anywhere
        for path, node, m in subtrees(tree, mode):
            for new in simpler_nodes(node, m):
                yield {"tree": replace_at(tree, path, new), "size": size, "moves": moves}
        # smaller sizes
        if size and size[0] > 1:
            yield {"tree": tree, "size": [size[0] - 1] + size[1:], "moves": moves}
        if box and size[1] > 1:
            yield {"tree": tree, "size": [size[0], size[1] - 1], "moves": moves}

    def search_cases(self, rng, tier):
        while True:
            c = self.random_case(rng, rng.choice([1, 2, 3]))
            if c is not None:
                yield c


CHECK = C09
