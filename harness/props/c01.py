"""C01 - every widget renders a canvas of exactly the size its container asked for.

A case is one widget tree (a JSON spec), one encoding and a list of (size, focus) probes.
The implementation side builds the real urwid widgets and records sizing()/rows()/pack()/render();
the model side gets the same tree with every *leaf* replaced by the table of what that leaf reports
(rows/pack/render dims per width and focus) and recomputes everything the containers do.
"""
import re
import warnings

from harness import core

warnings.simplefilter("ignore")

CMAX = 40          # leaf tables cover widths 0..CMAX
ENCODINGS = ["utf-8", "ascii", "euc-jp"]

ERRCODE = {"IndexError": 1, "ValueError": 2, "TypeError": 3, "WidgetError": 4, "CanvasError": 5, "OtherError": 10,
           "ZeroDivisionError": 11, "NoData": 12}
ERRNAME = {v: k for k, v in ERRCODE.items()}

TEXTS = ["a", "hello world", "x\ny", "世界 ok", "á́b", "", "──┐", "longwordwithoutspaces ok",
         "one two three four five", "世", "ab\ncd\n", "  lead", "tab\there", "́", "q世w界e"]
ALIGNS = ["left", "center", "right"]
WRAPS = ["space", "any", "clip", "ellipsis"]
VALIGNS = ["top", "middle", "bottom"]


def errname(e):
    import urwid
    from urwid.canvas import CanvasError
    if isinstance(e, urwid.WidgetError):
        return "WidgetError"
    if isinstance(e, CanvasError):
        return "CanvasError"
    for k in (IndexError, ValueError, TypeError, ZeroDivisionError):
        if isinstance(e, k):
            return k.__name__
    return "OtherError"


# ------------------------------------------------------------------ widget construction from a spec
def build(spec):
    """spec (nested lists) -> urwid widget.  Every call builds fresh objects."""
    import urwid
    k = spec[0]
    if k == "text":
        return urwid.Text(spec[1], align=spec[2], wrap=spec[3])
    if k == "btext":
        return urwid.Text(spec[1].encode("utf-8"), align=spec[2], wrap=spec[3])
    if k == "edit":
        w = urwid.Edit(spec[1], spec[2], wrap=spec[3], align=spec[4], multiline=True)
        w.set_edit_pos(min(spec[5], len(spec[2])))
        return w
    if k == "intedit":
        return urwid.IntEdit(spec[1], spec[2])
    if k == "div":
        return urwid.Divider(spec[1], top=spec[2], bottom=spec[3])
    if k == "solid":
        return urwid.SolidFill(spec[1])
    if k == "button":
        return urwid.Button(spec[1])
    if k == "checkbox":
        return urwid.CheckBox(spec[1], state=bool(spec[2]))
    if k == "radio":
        return urwid.RadioButton([], spec[1])
    if k == "progress":
        return urwid.ProgressBar("n", "c", spec[1], 100, spec[2])
    if k == "bigtext":
        font = {"3x3": urwid.Thin3x3Font, "4x3": urwid.Thin4x3Font, "half": urwid.HalfBlock5x4Font}[spec[2]]()
        return urwid.BigText(spec[1], font)
    if k == "bargraph":
        g = urwid.BarGraph(["a", "b", "c"])
        g.set_data([[v] for v in spec[1]], spec[2], spec[3] or None)
        return g
    if k == "selicon":
        return urwid.SelectableIcon(spec[1], spec[2])
    if k == "listbox":
        lb = urwid.ListBox(urwid.SimpleFocusListWalker([build(c) for c in spec[1]]))
        if spec[1]:
            lb.set_focus(min(spec[2], len(spec[1]) - 1))
        return lb
    if k == "gridflow":
        return urwid.GridFlow([build(c) for c in spec[1]], spec[2], spec[3], spec[4], spec[5])
    if k == "scroll":
        return urwid.ScrollBar(urwid.Scrollable(build(spec[1])))
    if k == "scrollable":
        return urwid.Scrollable(build(spec[1]))
    if k == "pile":
        items = []
        for opt, c in spec[1]:
            w = build(c)
            items.append(w if opt is None else (("pack", w) if opt[0] == "p" else
                                                ((opt[1], w) if opt[0] == "g" else ("weight", opt[1], w))))
        return urwid.Pile(items, focus_item=spec[2] if items else None)
    if k == "cols":
        items, boxc = [], []
        for i, (opt, c, isbox) in enumerate(spec[1]):
            w = build(c)
            items.append(w if opt is None else (("pack", w) if opt[0] == "p" else
                                                ((opt[1], w) if opt[0] == "g" else ("weight", opt[1], w))))
            if isbox:
                boxc.append(i)
        return urwid.Columns(items, dividechars=spec[2], focus_column=spec[4] if items else None, min_width=spec[3],
                             box_columns=boxc)
    if k == "pad":
        return urwid.Padding(build(spec[1]), align=tup(spec[2]), width=tup(spec[3]), min_width=spec[4], left=spec[5], right=spec[6])
    if k == "fill":
        return urwid.Filler(build(spec[1]), valign=tup(spec[2]), height=tup(spec[3]), min_height=spec[4], top=spec[5], bottom=spec[6])
    if k == "ov":
        return urwid.Overlay(build(spec[1]), build(spec[2]), tup(spec[3]), tup(spec[4]), tup(spec[5]), tup(spec[6]),
                             min_width=spec[7], min_height=spec[8], left=spec[9], right=spec[10], top=spec[11], bottom=spec[12])
    if k == "frame":
        return urwid.Frame(build(spec[1]), header=build(spec[2]) if spec[2] else None,
                           footer=build(spec[3]) if spec[3] else None, focus_part=spec[4])
    if k == "ba":
        return urwid.BoxAdapter(build(spec[1]), spec[2])
    if k == "attr":
        return urwid.AttrMap(build(spec[1]), "x", "y")
    if k == "linebox":
        return urwid.LineBox(build(spec[1]), title=spec[2], title_align=spec[3])
    raise core.MachineryError("unknown widget spec " + repr(k))


def tup(v):
    return tuple(v) if isinstance(v, list) else v


def children(spec):
    k = spec[0]
    if k in ("pile",):
        return [c for _, c in spec[1]]
    if k == "cols":
        return [c for _, c, _ in spec[1]]
    if k in ("listbox", "gridflow"):
        return list(spec[1])
    if k in ("pad", "fill", "ba", "attr", "linebox", "scroll", "scrollable"):
        return [spec[1]]
    if k == "ov":
        return [spec[1], spec[2]]
    if k == "frame":
        return [c for c in spec[1:4] if c]
    return []


def spec_size(spec):
    return 1 + sum(spec_size(c) for c in children(spec))


def spec_depth(spec):
    return 1 + max([spec_depth(c) for c in children(spec)] or [0])


def sizing_bits(w):
    s = {str(getattr(x, "value", x)) for x in w.sizing()}
    return [int("box" in s), int("flow" in s), int("fixed" in s)]


# ------------------------------------------------------------------ observation of one canvas
def canvas_obs(canv):
    """(cols, rows, cursor, rect) + the list of property violations visible on the canvas itself."""
    from urwid import str_util
    problems = []
    cols, rows = canv.cols(), canv.rows()
    rect = True
    try:
        content = [list(r) for r in canv.content()]
    except Exception as e:          # noqa: BLE001
        return [cols, rows, None, 0], [f"content() raised {type(e).__name__}: {str(e)[:60]}"]
    if len(content) != rows:
        rect = False
        problems.append(f"content() has {len(content)} rows, canvas.rows() is {rows}")
    for i, row in enumerate(content):
        wsum = 0
        for _a, _cs, t in row:
            if not isinstance(t, bytes):
                problems.append(f"row {i}: a text run is {type(t).__name__}, not bytes")
                rect = False
                break
            wsum += str_util.calc_width(t, 0, len(t))
        if wsum != cols:
            rect = False
            problems.append(f"row {i} is {wsum} columns wide, canvas.cols() is {cols}")
            break
    cur = canv.cursor
    if cur is not None:
        cur = [int(cur[0]), int(cur[1])]
    return [cols, rows, cur, int(rect)], problems


def probe(w, size, focus):
    """What the widget reports for one size: rows / pack / render."""
    import urwid
    out = {}
    size = tuple(size)
    if len(size) == 1:
        urwid.CanvasCache.clear()
        try:
            out["rows"] = int(w.rows(size, focus))
        except Exception as e:      # noqa: BLE001
            out["rows"] = errname(e)
    if len(size) < 2:
        urwid.CanvasCache.clear()
        try:
            p = w.pack(size, focus)
            out["pack"] = [int(p[0]), int(p[1])]
        except Exception as e:      # noqa: BLE001
            out["pack"] = errname(e)
    urwid.CanvasCache.clear()
    problems = []
    try:
        canv = w.render(size, focus)
        out["render"], problems = canvas_obs(canv)
    except Exception as e:          # noqa: BLE001
        out["render"] = errname(e)
        out["detail"] = f"{type(e).__name__}: {str(e)[:100]}"
    return out, problems


# ------------------------------------------------------------------ generator of well-formed trees
class Gen:
    """Random trees.  want in {"box","flow","fixed",None}: the sizing mode the result must support."""

    def __init__(self, rng, rich=True):
        self.rng = rng
        self.rich = rich          # include leaves whose contract the model only assumes via tables (all of them are tables)

    def text(self):
        r = self.rng
        return r.choice(TEXTS)

    def small(self, hi=3):
        return self.rng.choice([0, 0, 1, 1, 2, hi])

    def leaf(self, want):
        r = self.rng
        flow = [
            lambda: ["text", self.text(), r.choice(ALIGNS), r.choice(WRAPS)],
            lambda: ["text", self.text(), r.choice(ALIGNS), r.choice(WRAPS)],
            lambda: ["btext", r.choice(["bytes", "ab cd", ""]), r.choice(ALIGNS), r.choice(WRAPS)],
            lambda: ["edit", r.choice(["", "c:", "世:"]), self.text(), r.choice(WRAPS[:3]), r.choice(ALIGNS), r.randint(0, 12)],
            lambda: ["edit", r.choice(["", "c:"]), self.text(), r.choice(WRAPS[:3]), r.choice(ALIGNS), r.randint(0, 12)],
            lambda: ["intedit", r.choice(["", "n:"]), r.choice([0, 7, 123456])],
            lambda: ["div", r.choice(["-", " ", "─", "世"]), self.small(), self.small()],
            lambda: ["button", r.choice(["ok", "", "世界", "a longer label"])],
            lambda: ["checkbox", r.choice(["cb", "世界", ""]), r.randint(0, 1)],
            lambda: ["radio", r.choice(["r", "radio button"])],
            lambda: ["progress", r.choice([0, 33, 50, 100]), r.choice([None, "s"])],
            lambda: ["selicon", r.choice(["x", "世界", ""]), r.randint(0, 2)],
            lambda: ["gridflow", [self.leaf("flow") for _ in range(r.randint(1, 4))], r.randint(1, 8), r.randint(0, 2), r.randint(0, 1), r.choice(ALIGNS)],
        ]
        fixed = [
            lambda: ["bigtext", r.choice(["1", "ab", "", "0,1"]), r.choice(["3x3", "4x3", "half"])],
            lambda: ["text", self.text(), r.choice(ALIGNS), r.choice(WRAPS)],
        ]
        box = [
            lambda: ["solid", r.choice(["#", ".", " ", "x"])],
            lambda: ["solid", r.choice(["#", ".", " ", "x"])],
            lambda: ["bargraph", [r.randint(0, 9) for _ in range(r.randint(0, 4))], 10, r.choice([0, 1, 2])],
            lambda: ["listbox", [self.leaf("flow") for _ in range(r.randint(0, 4))], r.randint(0, 3)],
            lambda: ["scroll", self.leaf(r.choice(["flow", "flow", "fixed"]))],
            lambda: ["scrollable", self.leaf(r.choice(["flow", "flow", "fixed"]))],
        ]
        pool = {"flow": flow, "fixed": fixed, "box": box, None: flow + fixed[:1] + box}[want]
        return r.choice(pool)()

    def opt(self):
        r = self.rng
        k = r.randrange(6)
        if k == 0:
            return ["w", r.choice([1, 1, 2, 3])]
        if k == 1:
            return ["g", r.choice([1, 1, 2, 3, 5])]
        if k == 2:
            return ["p"]
        return None

    def tree(self, d, want=None):
        r = self.rng
        if d <= 0 or r.random() < 0.2:
            return self.leaf(want)
        for _ in range(8):
            spec = self.container(d, want)
            if spec is None:
                continue
            return spec
        return self.leaf(want)

    def relpct(self):
        return self.rng.choice([0, 10, 30, 50, 50, 75, 100, 100])

    def container(self, d, want):
        r = self.rng
        kinds = {"box": ["pile", "cols", "pad", "fill", "fill", "ov", "frame", "attr", "linebox"],
                 "flow": ["pile", "pile", "cols", "cols", "pad", "pad", "fill", "ov", "ba", "attr", "linebox"],
                 "fixed": ["pile", "cols", "pad", "ov", "attr", "linebox"],
                 None: ["pile", "cols", "pad", "fill", "ov", "frame", "ba", "attr", "linebox"]}[want]
        k = r.choice(kinds)
        sub = lambda m=None: self.tree(d - 1, m)          # noqa: E731
        if k == "attr":
            return ["attr", sub(want)]
        if k == "linebox":
            return ["linebox", sub(want), r.choice(["", "", "t", "世", "title"]), r.choice(ALIGNS)]
        if k == "ba":
            return ["ba", sub("box"), r.choice([1, 1, 2, 3, 5])]
        if k == "frame":
            return ["frame", sub("box"), sub("flow") if r.random() < 0.6 else None, sub("flow") if r.random() < 0.5 else None,
                    r.choice(["body", "body", "header", "footer"])]
        if k == "fill":
            h = r.choice(["pack", "pack", "g", "rel"]) if want != "flow" else r.choice(["pack", "g"])
            valign = r.choice(VALIGNS + [["relative", self.relpct()]])
            if h == "pack":
                return ["fill", sub("flow"), valign, "pack", None, self.small(), self.small()]
            if h == "g":
                return ["fill", sub("box"), valign, r.choice([1, 2, 3, 6]), None, self.small(), self.small()]
            return ["fill", sub("box"), valign, ["relative", self.relpct()], r.choice([None, None, 1, 2]), self.small(), self.small()]
        if k == "pad":
            align = r.choice(ALIGNS + [["relative", self.relpct()]])
            wk = r.choice(["rel", "rel", "pack", "g", "clip"]) if want in ("flow", None) else r.choice(["rel", "pack", "g"])
            mw = r.choice([None, None, 1, 2, 4])
            if wk == "clip":
                return ["pad", sub("fixed"), align, "clip", mw, self.small(), self.small()]
            if wk == "g":
                return ["pad", sub("flow" if want != "box" else "box"), align, r.choice([1, 2, 4, 7]), mw, self.small(), self.small()]
            if wk == "pack":
                return ["pad", sub(want if want != "box" else None), align, "pack", mw, self.small(), self.small()]
            return ["pad", sub(want), align, ["relative", self.relpct()], mw, self.small(), self.small()]
        if k == "ov":
            align = r.choice(ALIGNS + [["relative", self.relpct()]])
            valign = r.choice(VALIGNS + [["relative", self.relpct()]])
            mw, mh = r.choice([None, None, 1, 3]), r.choice([None, None, 1, 2])
            if want == "fixed":
                wk = r.choice(["pack", "g", "g"])
            elif want == "flow":
                wk = r.choice(["g", "rel"])
            else:
                wk = r.choice(["pack", "g", "rel", "rel"])
            width = {"pack": "pack", "g": r.choice([1, 3, 5, 8]), "rel": ["relative", self.relpct()]}[wk]
            if wk == "pack":
                top, height = sub("fixed"), r.choice(["pack", 2, ["relative", 50]])
            else:
                hk = r.choice(["pack", "g"]) if want in ("flow", "fixed") else r.choice(["pack", "g", "rel"])
                if hk == "pack":
                    top, height = sub("flow"), "pack"
                elif hk == "g":
                    top, height = sub("box"), r.choice([1, 2, 4])
                else:
                    top, height = sub("box"), ["relative", self.relpct()]
            return ["ov", top, sub("box"), align, width, valign, height, mw, mh, self.small(), self.small(), self.small(), self.small()]
        n = r.choice([1, 2, 2, 3, 3, 4])
        if k == "pile":
            items = []
            for _ in range(n):
                o = self.opt()
                if want == "box":
                    m = "box" if (o is None or o[0] in "wg") else "flow"
                elif want == "flow":
                    m = "box" if (o and o[0] == "g") else "flow"
                elif want == "fixed":
                    m = "box" if (o and o[0] == "g") else r.choice(["fixed", "flow"])
                    if o is None or o[0] == "w":
                        o = ["p"] if r.random() < 0.7 else o
                else:
                    m = "box" if (o and o[0] == "g") else None
                items.append([o, sub(m)])
            return ["pile", items, r.randrange(n)]
        items = []
        for _ in range(n):
            o = self.opt()
            isbox = 0
            if want == "box":
                m = "box"
                if o and o[0] == "p":
                    o = None
            elif want == "flow":
                m = r.choice(["flow", "flow", "flow", "box"])
                if m == "box":
                    isbox = 1
                    if o and o[0] == "p":
                        o = None
            elif want == "fixed":
                m = r.choice(["fixed", "flow"])
                if m == "fixed" or r.random() < 0.5:
                    o = ["p"]
                elif o is None or o[0] == "w":
                    o = ["g", r.choice([1, 2, 4])]
            else:
                m = None
            items.append([o, sub(m), isbox])
        return ["cols", items, self.small(2), r.choice([1, 1, 1, 2, 3]), r.randrange(n)]


# ------------------------------------------------------------------ degenerate-size spy
class Spy:
    """Records every widget that is asked (render or rows) for a size with a component <= 0.
    Hooks CanvasCache.fetch, which every cached render()/rows() wrapper calls first."""

    def __init__(self):
        self.starved = []

    def __enter__(self):
        from urwid.canvas import CanvasCache
        self.cc = CanvasCache
        self.orig = CanvasCache.__dict__["fetch"]
        orig_fn = self.orig.__func__
        rec = self.starved

        def fetch(cls, widget, wcls, size, focus):
            if any(isinstance(v, int) and v <= 0 for v in size):
                rec.append((type(widget).__name__, tuple(size)))
            return orig_fn(cls, widget, wcls, size, focus)
        CanvasCache.fetch = classmethod(fetch)
        return self

    def __exit__(self, *a):
        self.cc.fetch = self.orig


# ------------------------------------------------------------------ introspection of a built tree
def kind_of(w):
    """Which model constructor a real widget object corresponds to ('leaf' = table leaf)."""
    import urwid
    t = type(w)
    if t is urwid.Pile:
        return "pile"
    if t is urwid.Columns:
        return "cols"
    if t is urwid.Padding:
        return "pad"
    if t is urwid.Filler:
        return "fill"
    if t is urwid.Overlay:
        return "ov"
    if t is urwid.Frame:
        return "frame"
    if t is urwid.BoxAdapter:
        return "ba"
    if t is urwid.AttrMap:
        return "attr"
    if t is urwid.LineBox:
        return "deleg"
    return "leaf"


def wh_code(kind):
    v = str(getattr(kind, "value", kind))
    return {"given": 0, "pack": 1, "weight": 2, "relative": 3, "clip": 4, "fixed": 0, "flow": 1}[v]


def has(w, mode):
    return mode in {str(getattr(x, "value", x)) for x in w.sizing()}


def wf_node(w):
    """The WellFormed rule of one node (children's sizing as the real code reports it).
    Returns None if fine, else a short reason.  Mirrors WellFormed in Model/WidgetDims.v."""
    k = kind_of(w)
    if k == "ba":
        return None if has(w.original_widget, "box") else "BoxAdapter child is not a box widget"
    if k == "frame":
        if not has(w.body, "box"):
            return "Frame body is not a box widget"
        for part in (w.header, w.footer):
            if part is not None and not has(part, "flow"):
                return "Frame header/footer is not a flow widget"
        return None
    if k == "fill":
        c = w.original_widget
        if wh_code(w.height_type) == 1:
            return None if has(c, "flow") else "pack Filler child is not a flow widget"
        return None if has(c, "box") else "given/relative Filler child is not a box widget"
    if k == "pad":
        c = w.original_widget
        wt = wh_code(w._width_type)
        if wt == 4:
            return None if has(c, "fixed") else "clip Padding child is not a fixed widget"
        if wt == 1:
            return None if has(c, "flow") else "pack Padding child is not a flow widget"
        return None
    if k == "ov":
        if not has(w.bottom_w, "box"):
            return "Overlay bottom is not a box widget"
        c = w.top_w
        wt, ht = wh_code(w.width_type), wh_code(w.height_type)
        if wt == 1:
            return None if has(c, "fixed") else "pack-width Overlay top is not a fixed widget"
        if ht == 1:
            return None if has(c, "flow") else "pack-height Overlay top is not a flow widget"
        return None if has(c, "box") else "given/relative-height Overlay top is not a box widget"
    if k == "pile":
        for c, (kind, _amount) in w.contents:
            kc = wh_code(kind)
            if kc == 0 and not has(c, "box"):
                return "given-height Pile child is not a box widget"
            if kc == 1 and not has(c, "flow"):
                return "pack Pile child is not a flow widget"
            if kc == 2 and not (has(c, "box") or has(c, "flow")):
                return "weighted Pile child is neither box nor flow"
        return None
    if k == "cols":
        for c, (kind, _amount, is_box) in w.contents:
            kc = wh_code(kind)
            if kc == 1 and not (has(c, "flow") or has(c, "fixed")):
                return "pack Columns child is neither flow nor fixed"
            if kc != 1 and not (has(c, "box") or has(c, "flow")):
                return "given/weight Columns child is neither box nor flow"
        return None
    return None


def kids(w):
    k = kind_of(w)
    if k in ("pile", "cols"):
        return [c for c, _ in w.contents]
    if k in ("pad", "fill", "ba", "attr"):
        return [w.original_widget]
    if k == "ov":
        return [w.top_w, w.bottom_w]
    if k == "frame":
        return [p for p in (w.header, w.body, w.footer) if p is not None]
    if k == "deleg":
        return [w._wrapped_widget]
    return []


def wf_tree(w):
    r = wf_node(w)
    if r:
        return r
    for c in kids(w):
        r = wf_tree(c)
        if r:
            return r
    return None
