"""C01 - every widget renders a canvas of exactly the size its container asked for.

A case is one widget tree (a JSON spec), one encoding and a list of (size, focus) probes.
The implementation side builds the real urwid widgets and records sizing()/rows()/pack()/render();
the model side gets the same tree with every *leaf* replaced by the table of what that leaf reports
(rows/pack/render dims per width and focus) and recomputes everything the containers do.
"""
import re
import warnings

from harness import core

warnings.simplefilter("ignore")

CMAX = 40          # leaf tables cover widths 0..CMAX
ENCODINGS = ["utf-8", "ascii", "euc-jp"]

ERRCODE = {"IndexError": 1, "ValueError": 2, "TypeError": 3, "WidgetError": 4, "CanvasError": 5, "OtherError": 10,
           "ZeroDivisionError": 11, "NoData": 12, "Starved": 13, "CursorCut": 14}
ERRNAME = {v: k for k, v in ERRCODE.items()}

TEXTS = ["a", "hello world", "x\ny", "世界 ok", "á́b", "", "──┐", "longwordwithoutspaces ok",
         "one two three four five", "世", "ab\ncd\n", "  lead", "q世w界e"]
# characters that str.splitlines() treats as line boundaries but Text does not ('\n' only), and C0/C1 controls
# (0 columns wide under utf-8; under the narrow encodings they fall under the known combining-character finding)
CTRL_TEXTS = ["ab\x0ccdef", "a\rbcd ef", "x\u2028yz w", "p\x0bq rs", "a\x1cb\x85c\x1dd", "one\x1etwo\u2029three\nx"]
ALIGNS = ["left", "center", "right"]
WRAPS = ["space", "any", "clip", "ellipsis"]
VALIGNS = ["top", "middle", "bottom"]


def errname(e):
    import urwid
    from urwid.canvas import CanvasError
    if isinstance(e, urwid.WidgetError):
        return "WidgetError"
    if isinstance(e, CanvasError):
        return "CanvasError"
    for k in (IndexError, ValueError, TypeError, ZeroDivisionError):
        if isinstance(e, k):
            return k.__name__
    return "OtherError"


# ------------------------------------------------------------------ widget construction from a spec
def build(spec):
    """spec (nested lists) -> urwid widget.  Every call builds fresh objects."""
    import urwid
    k = spec[0]
    if k == "text":
        return urwid.Text(spec[1], align=spec[2], wrap=spec[3])
    if k == "btext":
        return urwid.Text(spec[1].encode("utf-8"), align=spec[2], wrap=spec[3])
    if k == "edit":
        w = urwid.Edit(spec[1], spec[2], wrap=spec[3], align=spec[4], multiline=True)
        w.set_edit_pos(min(spec[5], len(spec[2])))
        return w
    if k == "intedit":
        return urwid.IntEdit(spec[1], spec[2])
    if k == "div":
        return urwid.Divider(spec[1], top=spec[2], bottom=spec[3])
    if k == "solid":
        return urwid.SolidFill(spec[1])
    if k == "button":
        return urwid.Button(spec[1])
    if k == "checkbox":
        return urwid.CheckBox(spec[1], state=bool(spec[2]))
    if k == "radio":
        return urwid.RadioButton([], spec[1])
    if k == "progress":
        return urwid.ProgressBar("n", "c", spec[1], 100, spec[2])
    if k == "bigtext":
        font = {"3x3": urwid.Thin3x3Font, "4x3": urwid.Thin4x3Font, "half": urwid.HalfBlock5x4Font}[spec[2]]()
        return urwid.BigText(spec[1], font)
    if k == "bargraph":
        g = urwid.BarGraph(["a", "b", "c"])
        g.set_data([[v] for v in spec[1]], spec[2], [spec[3]] if spec[3] else None)
        return g
    if k == "selicon":
        return urwid.SelectableIcon(spec[1], spec[2])
    if k == "listbox":
        lb = urwid.ListBox(urwid.SimpleFocusListWalker([build(c) for c in spec[1]]))
        if spec[1]:
            lb.set_focus(min(spec[2], len(spec[1]) - 1))
        return lb
    if k == "gridflow":
        return urwid.GridFlow([build(c) for c in spec[1]], spec[2], spec[3], spec[4], spec[5])
    if k == "scroll":
        return urwid.ScrollBar(urwid.Scrollable(build(spec[1])))
    if k == "scrollable":
        return urwid.Scrollable(build(spec[1]))
    if k == "pile":
        items = []
        for opt, c in spec[1]:
            w = build(c)
            items.append(w if opt is None else (("pack", w) if opt[0] == "p" else
                                                ((opt[1], w) if opt[0] == "g" else ("weight", opt[1], w))))
        return urwid.Pile(items, focus_item=spec[2] if items else None)
    if k == "cols":
        items, boxc = [], []
        for i, (opt, c, isbox) in enumerate(spec[1]):
            w = build(c)
            items.append(w if opt is None else (("pack", w) if opt[0] == "p" else
                                                ((opt[1], w) if opt[0] == "g" else ("weight", opt[1], w))))
            if isbox:
                boxc.append(i)
        return urwid.Columns(items, dividechars=spec[2], focus_column=spec[4] if items else None, min_width=spec[3],
                             box_columns=boxc)
    if k == "pad":
        return urwid.Padding(build(spec[1]), align=tup(spec[2]), width=tup(spec[3]), min_width=spec[4], left=spec[5], right=spec[6])
    if k == "fill":
        return urwid.Filler(build(spec[1]), valign=tup(spec[2]), height=tup(spec[3]), min_height=spec[4], top=spec[5], bottom=spec[6])
    if k == "ov":
        return urwid.Overlay(build(spec[1]), build(spec[2]), tup(spec[3]), tup(spec[4]), tup(spec[5]), tup(spec[6]),
                             min_width=spec[7], min_height=spec[8], left=spec[9], right=spec[10], top=spec[11], bottom=spec[12])
    if k == "frame":
        return urwid.Frame(build(spec[1]), header=build(spec[2]) if spec[2] else None,
                           footer=build(spec[3]) if spec[3] else None, focus_part=spec[4])
    if k == "ba":
        return urwid.BoxAdapter(build(spec[1]), spec[2])
    if k == "attr":
        return urwid.AttrMap(build(spec[1]), "x", "y")
    if k == "linebox":
        return urwid.LineBox(build(spec[1]), title=spec[2], title_align=spec[3])
    raise core.MachineryError("unknown widget spec " + repr(k))


def tup(v):
    return tuple(v) if isinstance(v, list) else v


def children(spec):
    k = spec[0]
    if k in ("pile",):
        return [c for _, c in spec[1]]
    if k == "cols":
        return [c for _, c, _ in spec[1]]
    if k in ("listbox", "gridflow"):
        return list(spec[1])
    if k in ("pad", "fill", "ba", "attr", "linebox", "scroll", "scrollable"):
        return [spec[1]]
    if k == "ov":
        return [spec[1], spec[2]]
    if k == "frame":
        return [c for c in spec[1:4] if c]
    return []


def spec_size(spec):
    return 1 + sum(spec_size(c) for c in children(spec))


def spec_depth(spec):
    return 1 + max([spec_depth(c) for c in children(spec)] or [0])


def sizing_bits(w):
    s = {str(getattr(x, "value", x)) for x in w.sizing()}
    return [int("box" in s), int("flow" in s), int("fixed" in s)]


# ------------------------------------------------------------------ observation of one canvas
def canvas_obs(canv):
    """(cols, rows, cursor, rect) + the list of property violations visible on the canvas itself."""
    from urwid import str_util
    problems = []
    cols, rows = canv.cols(), canv.rows()
    rect = True
    try:
        content = [list(r) for r in canv.content()]
    except Exception as e:          # noqa: BLE001
        cur = canv.cursor
        return ([cols, rows, [int(cur[0]), int(cur[1])] if cur is not None else None, 0],
                [f"content() raised {type(e).__name__}: {str(e)[:60]}"])
    if len(content) != rows:
        rect = False
        problems.append(f"content() has {len(content)} rows, canvas.rows() is {rows}")
    for i, row in enumerate(content):
        wsum = 0
        for _a, _cs, t in row:
            if not isinstance(t, bytes):
                problems.append(f"row {i}: a text run is {type(t).__name__}, not bytes")
                rect = False
                break
            wsum += str_util.calc_width(t, 0, len(t))
        if wsum != cols:
            rect = False
            problems.append(f"row {i} is {wsum} columns wide, canvas.cols() is {cols}")
            break
    cur = canv.cursor
    if cur is not None:
        cur = [int(cur[0]), int(cur[1])]
    return [cols, rows, cur, int(rect)], problems


def _call(fn, track=None):
    """Run fn under the spy.  Returns (value or error name, starved list, detail)."""
    with Spy(track["boxcalls"] if track else None) as spy:
        try:
            v = fn()
            detail = None
        except Exception as e:      # noqa: BLE001
            v = errname(e)
            tb = e.__traceback__
            inner = None
            while tb is not None:
                if "/urwid/" in tb.tb_frame.f_code.co_filename:
                    inner = tb.tb_frame.f_code.co_name
                tb = tb.tb_next
            detail = f"{type(e).__name__}: {str(e)[:70]!s} [in {inner}]"
    if track is not None:
        track["maxw"] = max(track["maxw"], spy.maxw)
    return v, list(spy.starved), detail


def probe(w, size, focus, track=None):
    """What the widget reports for one size.  Returns (canonical, raw):
    canonical[k] is "Starved" whenever some widget was asked for a degenerate size during call k;
    raw keeps the actual outcome, the starved calls and exception details for the oracle."""
    import urwid
    canon, raw = {}, {}
    size = tuple(size)

    def do(key, fn):
        urwid.CanvasCache.clear()
        v, starved, detail = _call(fn, track)
        raw[key] = {"value": v, "starved": starved[:3], "detail": detail}
        # the rect flag (4th element of a render observation) is judged by the oracle only: the model's flag is
        # conservative when a ragged part is later covered or trimmed away
        if starved:
            canon[key] = "CursorCut" if starved[0][1] == "cursor-cut" else "Starved"     # the first event decides
        else:
            canon[key] = v[:3] if key == "render" and not isinstance(v, str) else v

    if len(size) == 1:
        do("rows", lambda: int(w.rows(size, focus)))
    if len(size) < 2:
        def pk():
            p = w.pack(size, focus)
            return [int(p[0]), int(p[1])]
        do("pack", pk)
    problems = []

    def rd():
        canv = w.render(size, focus)
        obs, pr = canvas_obs(canv)
        problems.extend(pr)
        return obs
    do("render", rd)
    raw["problems"] = problems
    return canon, raw


# ------------------------------------------------------------------ generator of well-formed trees
class Gen:
    """Random trees.  want in {"box","flow","fixed",None}: the sizing mode the result must support."""

    def __init__(self, rng, enc="utf-8"):
        self.rng = rng
        self.enc = enc            # the bundled BigText fonts need utf-8

    def text(self, allow_empty=False):
        r = self.rng
        while True:
            t = r.choice(TEXTS)
            if "\u0301" in t and self.enc != "utf-8" and r.random() < 0.8:
                continue          # the combining-character defect under narrow encodings is known: keep it rare
            if t or allow_empty:
                return t

    def ttext(self):
        """Text for a Text leaf: now and then one with control / line-boundary characters (utf-8 only)."""
        if self.enc == "utf-8" and self.rng.random() < 0.12:
            return self.rng.choice(CTRL_TEXTS)
        return self.text()

    def small(self, hi=3):
        return self.rng.choice([0, 0, 1, 1, 2, hi])

    def leaf(self, want):
        r = self.rng
        flow = [
            lambda: ["text", self.ttext(), r.choice(ALIGNS), r.choice(WRAPS)],
            lambda: ["text", self.ttext(), r.choice(ALIGNS), r.choice(WRAPS)],
            lambda: ["btext", r.choice(["bytes", "ab cd"]), r.choice(ALIGNS), r.choice(WRAPS)],
            lambda: ["edit", r.choice(["", "c:", "世:"]), self.text(True), r.choice(WRAPS[:3]), r.choice(ALIGNS), r.randint(0, 12)],
            lambda: ["edit", r.choice(["", "c:"]), self.text(True), r.choice(WRAPS[:3]), r.choice(ALIGNS), r.randint(0, 12)],
            lambda: ["intedit", r.choice(["", "n:"]), r.choice([0, 7, 123456])],
            lambda: ["div", r.choice(["-", " ", "─", "="]), self.small(), self.small()],
            lambda: ["button", r.choice(["ok", "", "世界", "a longer label"])],
            lambda: ["checkbox", r.choice(["cb", "世界", ""]), r.randint(0, 1)],
            lambda: ["radio", r.choice(["r", "radio button"])],
            lambda: ["progress", r.choice([0, 33, 50, 100]), r.choice([None, "s"])],
            lambda: ["selicon", r.choice(["x", "世界", "sel"]), r.randint(0, 3)],          # the cursor may sit right of the text
            lambda: ["gridflow", [self.leaf("flow") for _ in range(r.randint(1, 4))], r.randint(1, 8), r.randint(0, 2), r.randint(0, 1), r.choice(ALIGNS)],
        ]
        fixed = [
            lambda: ["text", self.ttext(), r.choice(ALIGNS), r.choice(WRAPS)],
        ]
        if self.enc == "utf-8":
            fixed.insert(0, lambda: ["bigtext", r.choice(["1", "12", "0,1"]), r.choice(["3x3", "4x3", "half"])])   # glyphs every bundled font has
        box = [
            lambda: ["solid", r.choice(["#", ".", " ", "x"])],
            lambda: ["solid", r.choice(["#", ".", " ", "x"])],
            lambda: ["bargraph", [r.randint(0, 9) for _ in range(r.randint(0, 4))], 10, r.choice([0, 1, 2])],
            lambda: ["listbox", [self.leaf("flow") for _ in range(r.randint(0, 4))], r.randint(0, 3)],
            lambda: ["scroll", self.leaf(r.choice(["flow", "flow", "fixed"]))],
            lambda: ["scrollable", self.leaf(r.choice(["flow", "flow", "fixed"]))],
        ]
        pool = {"flow": flow, "fixed": fixed, "box": box, None: flow + fixed[:1] + box}[want]
        return r.choice(pool)()

    def opt(self):
        r = self.rng
        k = r.randrange(6)
        if k == 0:
            return ["w", r.choice([1, 1, 2, 3])]
        if k == 1:
            return ["g", r.choice([1, 1, 2, 3, 5])]
        if k == 2:
            return ["p"]
        return None

    def tree(self, d, want=None):
        r = self.rng
        if d <= 0 or r.random() < 0.2:
            return self.tree_leaf(want)
        for _ in range(8):
            spec = self.container(d, want)
            if spec is None:
                continue
            return spec
        return self.tree_leaf(want)

    def tree_leaf(self, want):
        """A leaf of the tree, now and then the widget without rows: Pile([]) (box/flow; rows() = 0)."""
        if want != "fixed" and self.rng.random() < 0.06:
            return ["pile", [], 0]
        return self.leaf(want)

    def relpct(self):
        return self.rng.choice([10, 30, 50, 50, 75, 100, 100])

    def alignpct(self):
        return self.rng.choice([0, 10, 30, 50, 75, 100])

    def container(self, d, want):
        r = self.rng
        kinds = {"box": ["pile", "cols", "pad", "fill", "fill", "ov", "frame", "attr", "linebox"],
                 "flow": ["pile", "pile", "cols", "cols", "pad", "pad", "fill", "ov", "ba", "attr", "linebox"],
                 "fixed": ["pile", "cols", "pad", "ov", "attr", "linebox"],
                 None: ["pile", "cols", "pad", "fill", "ov", "frame", "ba", "attr", "linebox"]}[want]
        k = r.choice(kinds)
        sub = lambda m=None: self.tree(d - 1, m)          # noqa: E731
        if k == "attr":
            return ["attr", sub(want)]
        if k == "linebox":
            return ["linebox", sub(want), r.choice(["", "", "t", "世", "title"]), r.choice(ALIGNS)]
        if k == "ba":
            return ["ba", sub("box"), r.choice([1, 1, 2, 3, 5])]
        if k == "frame":
            return ["frame", sub("box"), sub("flow") if r.random() < 0.6 else None, sub("flow") if r.random() < 0.5 else None,
                    r.choice(["body", "body", "header", "footer"])]
        if k == "fill":
            h = r.choice(["pack", "pack", "g", "rel"]) if want != "flow" else r.choice(["pack", "g"])
            valign = r.choice(VALIGNS + [["relative", self.alignpct()]])
            if h == "pack":
                return ["fill", sub("flow"), valign, "pack", None, self.small(), self.small()]
            if h == "g":
                return ["fill", sub("box"), valign, r.choice([1, 2, 3, 6]), None, self.small(), self.small()]
            return ["fill", sub("box"), valign, ["relative", self.relpct()], r.choice([None, None, 1, 2]), self.small(), self.small()]
        if k == "pad":
            align = r.choice(ALIGNS + [["relative", self.alignpct()]])
            wk = r.choice(["rel", "rel", "pack", "g", "clip"]) if want in ("flow", None) else r.choice(["rel", "pack", "g"])
            mw = r.choice([None, None, 1, 2, 4])
            if wk == "clip":
                return ["pad", sub("fixed"), align, "clip", mw, self.small(), self.small()]
            if wk == "g":
                return ["pad", sub("flow" if want != "box" else "box"), align, r.choice([1, 2, 4, 7]), mw, self.small(), self.small()]
            if wk == "pack":
                return ["pad", sub(want if want != "box" else None), align, "pack", mw, self.small(), self.small()]
            return ["pad", sub(want), align, ["relative", self.relpct()], mw, self.small(), self.small()]
        if k == "ov":
            align = r.choice(ALIGNS + [["relative", self.alignpct()]])
            valign = r.choice(VALIGNS + [["relative", self.alignpct()]])
            mw, mh = r.choice([None, None, 1, 3]), r.choice([None, None, 1, 2])
            if want == "fixed":
                wk = r.choice(["pack", "g", "g"])
            elif want == "flow":
                wk = r.choice(["g", "rel"])
            else:
                wk = r.choice(["pack", "g", "rel", "rel"])
            width = {"pack": "pack", "g": r.choice([1, 3, 5, 8]), "rel": ["relative", self.relpct()]}[wk]
            if wk == "pack":
                top, height = sub("fixed"), r.choice(["pack", 2, ["relative", 50]])
            else:
                hk = r.choice(["pack", "g"]) if want in ("flow", "fixed") else r.choice(["pack", "g", "rel"])
                if hk == "pack":
                    top, height = sub("flow"), "pack"
                elif hk == "g":
                    top, height = sub("box"), r.choice([1, 2, 4])
                else:
                    top, height = sub("box"), ["relative", self.relpct()]
            return ["ov", top, sub("box"), align, width, valign, height, mw, mh, self.small(), self.small(), self.small(), self.small()]
        n = r.choice([1, 2, 2, 3, 3, 4])
        if k == "pile":
            items = []
            for _ in range(n):
                o = self.opt()
                if want == "box":
                    m = "box" if (o is None or o[0] in "wg") else "flow"
                elif want == "flow":
                    m = "box" if (o and o[0] == "g") else "flow"
                elif want == "fixed":
                    m = "box" if (o and o[0] == "g") else r.choice(["flow", "flow", "flow", "fixed"])
                    if o is None or o[0] == "w":
                        o = ["p"] if r.random() < 0.7 else o
                else:
                    m = "box" if (o and o[0] == "g") else None
                items.append([o, sub(m)])
            return ["pile", items, r.randrange(n)]
        items = []
        for _ in range(n):
            o = self.opt()
            isbox = 0
            if want == "box":
                m = "box"
                if o and o[0] == "p":
                    o = None
            elif want == "flow":
                m = r.choice(["flow", "flow", "flow", "box"])
                if m == "box":
                    isbox = 1
                    if o and o[0] == "p":
                        o = None
            elif want == "fixed":
                m = r.choice(["fixed", "flow"])
                if m == "fixed" or r.random() < 0.5:
                    o = ["p"]
                elif o is None or o[0] == "w":
                    o = ["g", r.choice([1, 2, 4])]
            else:
                m = None
            items.append([o, sub(m), isbox])
        return ["cols", items, self.small(2), r.choice([1, 1, 1, 2, 3]), r.randrange(n)]


# ------------------------------------------------------------------ degenerate-size spy
_RECORDER = [None]
_INSTALLED = [False]


def _install_spy():
    """Wrap render/rows/pack of every Widget subclass (once): while a recorder is active, note every
    call whose size has a component <= 0 (a 'starved' widget)."""
    if _INSTALLED[0]:
        return
    import functools
    import urwid

    def all_subclasses(c):
        out, todo = [], [c]
        while todo:
            k = todo.pop()
            for sub in k.__subclasses__():
                if sub not in out:
                    out.append(sub)
                    todo.append(sub)
        return out

    def wrap(cls, name):
        fn = cls.__dict__[name]

        @functools.wraps(fn)
        def spied(self, size=(), *a, **kw):
            rec = _RECORDER[0]
            if rec is not None:
                try:
                    tsize = tuple(size)
                    if any(isinstance(v, int) and v <= 0 for v in tsize):
                        rec.starved.append((type(self).__name__, name, tsize))
                    if tsize and isinstance(tsize[0], int) and tsize[0] > rec.maxw:
                        rec.maxw = tsize[0]
                    if rec.boxcalls is not None and name == "render" and len(tsize) == 2:
                        foc = bool(a[0]) if a else bool(kw.get("focus", False))
                        rec.boxcalls.add((id(self), tsize[0], tsize[1], foc))
                except TypeError:
                    pass
            out = fn(self, size, *a, **kw)
            if rec is not None and name == "render":
                try:
                    cur = out.cursor
                    if cur is not None and not (0 <= cur[0] < out.cols() and 0 <= cur[1] < out.rows()):
                        rec.starved.append((type(self).__name__, "cursor-cut", (tuple(cur), (out.cols(), out.rows()))))
                except Exception:      # noqa: BLE001
                    pass
            return out
        spied._c01_spy = True
        setattr(cls, name, spied)

    for cls in [urwid.Widget] + all_subclasses(urwid.Widget):
        for name in ("render", "rows", "pack"):
            fn = cls.__dict__.get(name)
            if fn is None or not callable(fn) or isinstance(fn, (property, staticmethod, classmethod)):
                continue
            if getattr(fn, "_c01_spy", False):
                continue
            wrap(cls, name)
    _INSTALLED[0] = True


class Spy:
    def __init__(self, boxcalls=None):
        self.starved = []
        self.maxw = 0
        self.boxcalls = boxcalls

    def __enter__(self):
        _install_spy()
        self.prev = _RECORDER[0]
        _RECORDER[0] = self
        return self

    def __exit__(self, *a):
        _RECORDER[0] = self.prev


# ------------------------------------------------------------------ introspection of a built tree
def kind_of(w):
    """Which model constructor a real widget object corresponds to ('leaf' = table leaf)."""
    import urwid
    t = type(w)
    if t is urwid.Pile:
        return "pile"
    if t is urwid.Columns:
        return "cols"
    if t is urwid.Padding:
        return "pad"
    if t is urwid.Filler:
        return "fill"
    if t is urwid.Overlay:
        return "ov"
    if t is urwid.Frame:
        return "frame"
    if t is urwid.BoxAdapter:
        return "ba"
    if t is urwid.AttrMap:
        return "attr"
    if t is urwid.LineBox:
        return "deleg"
    return "leaf"


def wh_code(kind):
    v = str(getattr(kind, "value", kind))
    return {"given": 0, "pack": 1, "weight": 2, "relative": 3, "clip": 4, "fixed": 0, "flow": 1}[v]


def has(w, mode):
    return mode in {str(getattr(x, "value", x)) for x in w.sizing()}


def sz3(w):
    b = sizing_bits(w)
    return {"box": bool(b[0]), "flow": bool(b[1]), "fixed": bool(b[2])}


def wf_node(w):
    """The WellFormed rule of one node, mirroring wf_b in Model/WidgetDims.v (children's and the
    container's own sizing as the real code reports them).  None if fine, else a short reason."""
    k = kind_of(w)

    def imp(a, b):
        return (not a) or b
    if k == "ba":
        if not sz3(w.original_widget)["box"]:
            return "BoxAdapter child is not a box widget"
        return None if w.height >= 1 else "BoxAdapter height < 1"
    if k == "frame":
        if not sz3(w.body)["box"]:
            return "Frame body is not a box widget"
        for part in (w.header, w.footer):
            if part is not None and not sz3(part)["flow"]:
                return "Frame header/footer is not a flow widget"
        return None
    if k == "fill":
        c = sz3(w.original_widget)
        ht = wh_code(w.height_type)
        if not (w.top >= 0 and w.bottom >= 0):
            return "negative Filler top/bottom"
        if ht == 1:
            return None if c["flow"] else "pack Filler child is not a flow widget"
        if not (w.height_amount >= 1):
            return "Filler height amount < 1"
        return None if c["box"] else "given/relative Filler child is not a box widget"
    if k == "pad":
        c = sz3(w.original_widget)
        wt = wh_code(w._width_type)
        if not (w.left >= 0 and w.right >= 0):
            return "negative Padding left/right"
        if wt == 4:
            return None if c["fixed"] else "clip Padding child is not a fixed widget"
        if wt == 1:
            return None if imp(c["box"], c["flow"]) else "pack Padding around a box widget that is not also flow"
        if wt == 0:
            if w._width_amount < 1:
                return "Padding width < 1"
            return None if imp(c["fixed"], c["flow"]) else "given-width Padding around a fixed widget that is not also flow"
        return None if w._width_amount >= 1 else "Padding relative width < 1"
    if k == "ov":
        if not sz3(w.bottom_w)["box"]:
            return "Overlay bottom is not a box widget"
        c = sz3(w.top_w)
        wt, ht = wh_code(w.width_type), wh_code(w.height_type)
        if min(w.left, w.right, w.top, w.bottom) < 0:
            return "negative Overlay margins"
        if wt == 1:
            return None if c["fixed"] else "pack-width Overlay top is not a fixed widget"
        if not (w.width_amount >= 1):
            return "Overlay width amount < 1"
        if ht == 1:
            return None if c["flow"] else "pack-height Overlay top is not a flow widget"
        if not (w.height_amount >= 1):
            return "Overlay height amount < 1"
        return None if c["box"] else "given/relative-height Overlay top is not a box widget"
    if k == "pile":
        ps = sz3(w)
        lenient = False
        for c, (kind, amount) in w.contents:
            cs = sz3(c)
            kc = wh_code(kind)
            if kc == 0 and not (amount >= 1 and cs["box"]):
                return "given-height Pile child is not a box widget"
            if kc == 1 and not cs["flow"]:
                import urwid
                if cs["fixed"] and type(c) is urwid.BigText:
                    lenient = True          # (the other items are still checked)
                    continue
                return "pack Pile child is not a flow widget"
            if kc == 2:
                if not (isinstance(amount, int) and amount >= 1):
                    return "Pile weight is not a positive integer"
                if not (cs["box"] or cs["flow"]):
                    return "weighted Pile child is neither box nor flow"
                if not imp(ps["box"], cs["box"]):
                    return "Pile claims box sizing but a weighted child is not a box widget"
                if not imp(ps["flow"], cs["flow"]):
                    return "Pile claims flow sizing but a weighted child is not a flow widget"
                if not imp(ps["fixed"], cs["flow"] or (cs["fixed"] and cs["box"])):
                    return "Pile claims fixed sizing but a weighted child supports neither flow nor fixed+box"
        if w.contents and not (0 <= w.focus_position):
            return "focus"
        return LENIENT if lenient else None
    if k == "cols":
        ps = sz3(w)
        if w.dividechars < 0 or w.min_width < 1:
            return "Columns dividechars < 0 or min_width < 1"
        for c, (kind, amount, is_box) in w.contents:
            cs = sz3(c)
            kc = wh_code(kind)
            if kc == 1 and not (cs["flow"] or cs["fixed"]):
                return "pack Columns child is neither flow nor fixed"
            if kc != 1 and not (cs["box"] or cs["flow"]):
                return "given/weight Columns child is neither box nor flow"
            if kc != 1 and not (isinstance(amount, int) and amount >= 1):
                return "Columns width/weight is not a positive integer"
            if is_box:
                flow_ok = cs["box"]
            elif cs["flow"]:
                flow_ok = True
            else:
                flow_ok = cs["fixed"] if kc == 1 else cs["box"]
            if kc == 1:
                fixed_ok = cs["fixed"] and not is_box
            else:
                fixed_ok = cs["box"] if is_box else cs["flow"]
            if not imp(ps["box"], cs["box"]):
                return "Columns claims box sizing but a child is not a box widget"
            if not imp(ps["flow"], flow_ok):
                return "Columns claims flow sizing but a child cannot be rendered in a flow Columns"
            if not imp(ps["fixed"], fixed_ok):
                return "Columns claims fixed sizing but a child cannot be rendered in a fixed Columns"
        if ps["fixed"] and w.contents and all(o[2] for _c, o in w.contents):
            return "every column is a box column: a fixed Columns has no height information"
        return None
    return None


def kids(w):
    k = kind_of(w)
    if k in ("pile", "cols"):
        return [c for c, _ in w.contents]
    if k in ("pad", "fill", "ba", "attr"):
        return [w.original_widget]
    if k == "ov":
        return [w.top_w, w.bottom_w]
    if k == "frame":
        return [p for p in (w.header, w.body, w.footer) if p is not None]
    if k == "deleg":
        return [w._wrapped_widget]
    return []


def wf_tree(w):
    """None if every node is WellFormed; LENIENT if the only broken rule (anywhere) is the fixed-only pack child of a
    Pile; else the first other reason."""
    reasons = []

    def walk(x):
        r = wf_node(x)
        if r:
            reasons.append(r)
        for c in kids(x):
            walk(c)
    walk(w)
    if not reasons:
        return None
    other = [r for r in reasons if r != LENIENT]
    return other[0] if other else LENIENT


# ------------------------------------------------------------------ model wire encoding
def e_res(v, kind):
    """kind: 'z' | 'pair' | 'canv'"""
    if isinstance(v, str):
        return [1, ERRCODE.get(v, 10)]
    if kind == "z":
        return [0, v]
    if kind == "pair":
        return [0, v[0], v[1]]
    cur = v[2]
    return [0, v[0], v[1]] + ([1, cur[0], cur[1]] if cur is not None else [0, 0, 0]) + [v[3] if len(v) > 3 else 1]


def align_pct(t, amount):
    v = str(getattr(t, "value", t))
    return {"left": 0, "center": 50, "right": 100, "top": 0, "middle": 50, "bottom": 100}.get(v, amount)


def oz(v):
    return [0, 0] if v is None else [1, int(v)]


def wtype_enc(t, amount):
    k = wh_code(t)
    return [k, 0 if amount is None else int(amount)]


class Encoder:
    def __init__(self, wmax, boxcalls):
        self.wmax = wmax
        self.boxcalls = boxcalls
        self.ok = True           # False: the tree cannot be represented (non-integer weights) or a leaf broke its own
                                 # contract at a consulted size (ragged canvas): no prediction is made for such a tree

    def res(self, raw, kind):
        v = raw["render"]["value"]
        if raw["render"]["starved"]:
            v = "CursorCut" if raw["render"]["starved"][0][1] == "cursor-cut" else "Starved"
        if kind == "canv" and ((not isinstance(v, str) and not v[3]) or v == "CursorCut"):
            self.ok = False           # ragged rows or a cursor outside its own canvas: the leaf breaks its contract
        return e_res(v, kind)

    def leaf(self, w):
        out = [0]
        b = sizing_bits(w)
        out.append(b[0] + 2 * b[1] + 4 * b[2])
        for focus in (False, True):
            n = self.wmax if b[1] else 0          # only flow leaves are ever asked flow questions in a WellFormed tree
            out.append(n + 1)
            out += [1, 12, 1, 12, 1, 12]          # width 0: never consulted
            for c in range(1, n + 1):
                canon, raw = probe(w, (c,), focus)
                out += e_res(canon["rows"], "z") + e_res(canon["pack"], "pair") + self.res(raw, "canv")
            if b[2]:
                canon, raw = probe(w, (), focus)
                out += e_res(canon["pack"], "pair") + self.res(raw, "canv")
            else:
                out += [1, 12, 1, 12]
        calls = sorted((c, r, f) for (i, c, r, f) in self.boxcalls if i == id(w))
        out.append(len(calls))
        for c, r, f in calls:
            _canon, raw = probe(w, (c, r), f)
            out += [c, r, int(f)] + self.res(raw, "canv")
        return out

    def node(self, w):
        k = kind_of(w)
        if k == "leaf":
            return self.leaf(w)
        if k in ("attr",):
            return [1] + self.node(w.original_widget)
        if k == "deleg":
            return [1] + self.node(w._wrapped_widget)
        if k == "ba":
            return [2, int(w.height)] + self.node(w.original_widget)
        if k == "pad":
            return ([3, align_pct(w._align_type, w._align_amount)] + wtype_enc(w._width_type, w._width_amount)
                    + oz(w.min_width) + [w.left, w.right] + self.node(w.original_widget))
        if k == "fill":
            return ([4, align_pct(w.valign_type, w.valign_amount)] + wtype_enc(w.height_type, w.height_amount)
                    + oz(w.min_height) + [w.top, w.bottom] + self.node(w.original_widget))
        if k == "pile":
            out = [5, len(w.contents), w.focus_position if w.contents else 0]
            for c, (kind, amount) in w.contents:
                if amount is not None and not isinstance(amount, int):
                    self.ok = False
                    amount = 0
                out += [wh_code(kind), 0 if amount is None else amount] + self.node(c)
            return out
        if k == "cols":
            out = [6, len(w.contents), w.dividechars, w.min_width, w.focus_position if w.contents else 0]
            for c, (kind, amount, is_box) in w.contents:
                if amount is not None and not isinstance(amount, int):
                    self.ok = False
                    amount = 0
                out += [wh_code(kind), 0 if amount is None else amount, int(bool(is_box))] + self.node(c)
            return out
        if k == "frame":
            fpart = {"body": 0, "header": 1, "footer": 2}[w.focus_part]
            out = [7, fpart, int(w.header is not None), int(w.footer is not None)] + self.node(w.body)
            if w.header is not None:
                out += self.node(w.header)
            if w.footer is not None:
                out += self.node(w.footer)
            return out
        if k == "ov":
            return ([8, align_pct(w.align_type, w.align_amount)] + wtype_enc(w.width_type, w.width_amount)
                    + [align_pct(w.valign_type, w.valign_amount)] + wtype_enc(w.height_type, w.height_amount)
                    + oz(w.min_width) + oz(w.min_height) + [w.left, w.right, w.top, w.bottom]
                    + self.node(w.top_w) + self.node(w.bottom_w))
        raise core.MachineryError("cannot encode " + k)


def probe_sizes(case):
    return [([(), (c,), (c, r)][m], bool(f)) for m, c, r, f in case["probes"]]


# the one WellFormed rule that excludes a genuine defect rather than misuse: such trees are still generated
# (flagged "lenient", judged by the oracle only, expected to hit the known finding)
LENIENT = "pack Pile child supports only fixed sizing"


# ------------------------------------------------------------------ the check
class C01(core.Check):
    pid = "C01"
    gen_modules = ["layout"]        # C19's translated arithmetic (round_half_up_div): its Columns width theorem is imported
    model_targets = ["theories/Model/WidgetDims.vo"]
    prop_file = "theories/Properties/C01.v"
    extract_v = "Extract/C01X.v"
    allowed_axioms = set()
    design_ref = "DESIGN.md section 5, C01"
    search_budget = {"quick": 45, "thorough": 300}
    technique = ("Coq: structural induction over widget trees on an executable dimension model (sizing/rows/pack/render -> "
                 "cols, rows, cursor) of the container widgets, one contract lemma per constructor; extracted-model "
                 "correspondence on random well-formed trees of real widgets (leaves enter the model as measured tables); "
                 "oracle = a complete validate_size on the real canvas")
    level_text = ("Proved in Coq by structural induction on the widget tree (arbitrary depth, every size >= 1, both focus values), "
                  "for trees built from leaves that satisfy the contract themselves, AttrMap / LineBox delegation, BoxAdapter, "
                  "Padding (given / pack / relative width), Filler (pack / given / relative height), Pile (given / pack / weight "
                  "items), Frame (header / footer, any focus part), Overlay with a given or relative width (packed / given / "
                  "relative height) and Columns (given / pack / weight columns, box_columns, dividechars, min_width; box columns "
                  "holding box widgets, the others flow widgets) - hence LineBox: render_contract_partial: BOX sizing yields exactly "
                  "the requested columns and rows and FLOW sizing the requested columns and exactly rows() rows, all content rows "
                  "have the canvas width, the cursor is inside, rows() >= 1 and pack((c,)) agrees with rows(); "
                  "fixed_contract_partial: FIXED sizing yields exactly the size pack(()) reports for the same constructors "
                  "(fixed_fragment), with the exact exclusion of the known finding 'fixed Padding: pack(()) != render(())' (a "
                  "min_width above the width, a relative width) and of relative Overlay widths above 100 percent; "
                  "render_contract_partial_ext: the box/flow contract also for Padding(width='clip') and Overlay(width='pack') "
                  "whose fixed child lies in those fragments, and for widgets WITHOUT rows - the empty Pile and AttrMap / Padding / "
                  "Filler / Pile around it (the contract is proved with the row count min_rows w, 0 or 1, in place of 1: "
                  "rows_and_pack_partial_ext); a flow Columns of such widgets has exactly one row (ba7db6e: rows() = max(1, heights), "
                  "canvas padded to one row), so they may stand in any column, as a LineBox body, in a Frame, below an Overlay or as "
                  "the top widget of an Overlay with a given / relative width (f9cf74e: an empty top canvas shows the bottom widget; "
                  "only a FIXED top widget without rows is refused by Overlay: known finding).  The only "
                  "alternative outcome is the model's explicit marker 'a widget was handed a size with a component <= 0' (no room; "
                  "such probes are not judged).  The Columns width arithmetic is C19's theorem column_widths_total_shape, "
                  "transferred to this model by a proved equation (column_widths_eq).  PARTIAL: Columns with a 'pack' column holding a "
                  "FIXED-capable container or a non-box column holding a non-flow widget, clip Paddings / pack Overlays nested "
                  "inside the fixed child of another one, fixed Overlay(width='pack') inside other fixed containers are modelled, extracted and compared but NOT proved; the full statement (render_contract_full) is refuted "
                  "in Coq by a witness that replays on the implementation (fixed Padding: pack(()) != render(()), known finding).  "
                  "The leaf contract is a hypothesis (leaves_ok, leaves_fx), discharged only by the oracle on the real leaves (Text, "
                  "Edit, Divider, SolidFill, Button, CheckBox, RadioButton, ProgressBar, BigText, BarGraph, SelectableIcon, ListBox, "
                  "GridFlow, Scrollable/ScrollBar).  Everything - all nine constructors, the three sizing modes, sizing() flags, "
                  "rows(), pack(), render() sizes and cursors, which error is raised - is tied to the code by an exact extracted-model "
                  "correspondence on ~1.5k well-formed trees x ~8 probes per quick run (random trees plus exhaustive small scopes "
                  "for weighted Columns / Piles / Filler scrolling / widgets without rows in every container / Text with control and "
                  "line-boundary characters / SelectableIcon cursor positions / Scrollable around fixed widgets on a size grid / row "
                  "trimming of canvases whose cviews span several shards; rows() and pack() are asked before render() with an empty "
                  "CanvasCache, canvas.content() is iterated completely), and the property itself is judged on the real canvases "
                  "(cols/rows vs request/rows()/pack(), calc_width of every content row, row count, cursor) including the leaves "
                  "the model only assumes.")
    level_note = ("Trusted: Coq kernel; ExtrOcamlBasic extraction + OCaml driver; the hand-written model Model/WidgetDims.v (validated "
                  "by the correspondence, not proved against Python); the Python oracle and the spy that flags degenerate sizes "
                  "and trimmed-away cursors.  Hypotheses: WellFormed (wf_b: every child supports the sizing mode its container "
                  "will ask of it - misuse is neither generated nor judged); leaves_ok; integer weights.  Probes in which any "
                  "widget is handed a size with a component <= 0 are compared with the model (which predicts them) but not judged "
                  "by the oracle.")
    rule = ("one case = one random WellFormed widget tree (depth <= 5; Pile/Columns items given/pack/weight, box_columns, "
            "dividechars, min_width, focus positions; now and then the empty Pile in place of a leaf; Padding/Filler/Overlay align, valign, given/pack/relative/clip sizes, min "
            "sizes, margins; Frame parts and focus part; LineBox titles; 17 leaf kinds) x one of utf-8/ascii/euc-jp x 1-3 random "
            "sizes in 1..12 for every sizing mode the tree reports x both focus values; non-trivial = more than one widget or at "
            "least one successful render; distinct by hash of (case, outcome)")
    trusted_base = [
        "Coq 8.16.1 kernel (vm_compute only in closed examples and refutation witnesses)",
        "C19's Model/Layout.v + Proofs/Layout*.v (imported read-only: column_widths_total_shape) and tools/py2v (Gen/layout_gen.v)",
        "extraction: ExtrOcamlBasic; OCaml 4.13.1; tools/driver/driver.ml",
        "Model/WidgetDims.v: hand-written model of Pile/Columns/Padding/Filler/Overlay/Frame/BoxAdapter/AttrMap and the canvas size laws (validated by the correspondence)",
        "harness/props/c01.py: tree builder, leaf measurement, spy for degenerate sizes / trimmed cursors, oracle",
    ]
    assumptions = [
        "WellFormed trees only (wf_b, mirrored by wf_node): e.g. ListBox items and Frame header/footer are flow widgets, Frame body / BoxAdapter child / given-or-relative Filler child are box widgets, weighted Pile children support every mode the Pile itself reports",
        "every leaf satisfies the contract itself (leaves_ok) - tested by the oracle, not proved",
        "probes in which a widget receives a size with a component <= 0 are not judged (the model marks them EStarved)",
        "integer weights",
    ]

    def __init__(self):
        super().__init__()
        self._raw = {}
        self._track = {}
        self._why = {}
        self._sigcount = {}
        self._in_shrink = False

    # ---------- implementation ----------
    def run_impl(self, case):
        import urwid
        urwid.set_encoding(case.get("enc", "utf-8"))
        try:
            w = build(case["tree"])
            track = {"maxw": 0, "boxcalls": set()}
            why = wf_tree(w)
            res = {"sizing": sizing_bits(w), "wf": int(why is None), "probes": []}
            raws = []
            for size, focus in probe_sizes(case):
                canon, raw = probe(w, size, focus, track)
                res["probes"].append(canon)
                raws.append(raw)
            key = core.h(case)
            self._raw = {key: raws}
            self._why = {key: why}
            self._track = {key: (w, track)}
            return res
        finally:
            urwid.set_encoding("utf-8")

    # ---------- model ----------
    def encode(self, case):
        import urwid
        if case.get("mode") == "oracle":
            return None
        key = core.h(case)
        if key not in self._track:
            self.run_impl(case)
        w, track = self._track[key]
        urwid.set_encoding(case.get("enc", "utf-8"))
        try:
            if track["maxw"] > 160:
                return None           # relative widths blown up by a fixed render: leaf tables would be huge; oracle only
            enc = Encoder(track["maxw"], track["boxcalls"])
            ints = enc.node(w)
            if not enc.ok:
                return None
            ints.append(len(case["probes"]))
            for m, c, r, f in case["probes"]:
                ints += [m, c, r, int(bool(f))]
            return ints
        finally:
            urwid.set_encoding("utf-8")

    def decode(self, case, ints):
        it = iter(ints)

        def name(code):
            return ERRNAME.get(code, "OtherError")

        def rz():
            t, v = next(it), next(it)
            return v if t == 0 else name(v)

        def rpair():
            t = next(it)
            if t == 0:
                return [next(it), next(it)]
            return name(next(it))

        def rcanv():
            t = next(it)
            if t == 0:
                c, r, cf, x, y = (next(it) for _ in range(5))
                return [c, r, [x, y] if cf else None]
            return name(next(it))
        try:
            first = next(it)
            if first == -1:
                return {"malformed": True}
            res = {"sizing": [first, next(it), next(it)], "wf": next(it), "probes": []}
            for m, _c, _r, _f in case["probes"]:
                p = {}
                if m == 1:
                    p["rows"] = rz()
                if m < 2:
                    p["pack"] = rpair()
                p["render"] = rcanv()
                res["probes"].append(p)
            return res
        except StopIteration:
            return {"malformed": ints[:40]}

    # ---------- oracle: the property text, judged on the real canvas ----------
    def oracle(self, case, res):
        """At most SIGCAP messages per failure class reach the pipeline (it keeps one per class anyway and
        stops collecting at 200): a frequent known class must not crowd out a rare new one."""
        out = []
        for msg in self.judge(case, res):
            sig = self.signature(case, msg)
            n = self._sigcount.get(sig, 0)
            if n < self.SIGCAP or self._in_shrink:
                out.append(msg)
            if not self._in_shrink:
                self._sigcount[sig] = n + 1
        return out

    SIGCAP = 6

    def shrink(self, case, msg):
        self._in_shrink = True
        try:
            return super().shrink(case, msg)
        finally:
            self._in_shrink = False

    def replay(self, path):
        self._in_shrink = True
        return super().replay(path)

    def judge(self, case, res):
        key = core.h(case)
        if key not in self._raw:
            self.run_impl(case)
        raws = self._raw[key]
        sizing = res["sizing"]
        msgs = []
        if not res["wf"] and not (case.get("lenient") and self._why.get(key) == LENIENT):
            return msgs                       # outside WellFormed (misuse): not judged; also keeps the shrinker inside
        for (m, c, r, f), raw in zip(case["probes"], raws):
            if not sizing[[2, 1, 0][m]]:
                continue                      # the widget does not claim this sizing mode
            if m and c < 1 or m == 2 and r < 1:
                continue
            size = [(), (c,), (c, r)][m]
            tag = f"render({size}, focus={bool(f)})"
            rd = raw["render"]
            ev = (rd["starved"] or (m == 1 and raw["rows"]["starved"]) or (m == 0 and raw["pack"]["starved"]) or [None])[0]
            if ev is not None and ev[1] != "cursor-cut":
                # some widget was handed a size with a component <= 0 (no room): not judged, see level_note
                continue
            if ev is not None:
                msgs.append(f"{tag}: cursor {ev[2][0]} outside the {ev[2][1][0]}x{ev[2][1][1]} canvas returned by {ev[0]}")
                continue
            note = ""
            v = rd["value"]
            if isinstance(v, str):
                msgs.append(f"{tag} raised {rd['detail']}{note}")
                continue
            cols, rows, cur, rect = v
            if m == 2 and (cols, rows) != (c, r):
                msgs.append(f"{tag} returned a {cols}x{rows} canvas{note}")
            elif m == 1:
                rv = raw["rows"]["value"]
                if isinstance(rv, str):
                    msgs.append(f"rows({size}) raised {raw['rows']['detail']}{note}")
                elif (cols, rows) != (c, rv):
                    msgs.append(f"{tag} returned a {cols}x{rows} canvas, rows() says {rv}{note}")
            elif m == 0:
                pv = raw["pack"]["value"]
                if isinstance(pv, str):
                    msgs.append(f"pack(()) raised {raw['pack']['detail']}{note}")
                elif [cols, rows] != pv:
                    msgs.append(f"{tag} returned a {cols}x{rows} canvas, pack(()) says {pv[0]}x{pv[1]}{note}")
            if not rect:
                msgs.append(f"{tag}: {(raw['problems'] or ['content rows do not match the canvas size'])[0]}{note}")
            if cur is not None and not (0 <= cur[0] < cols and 0 <= cur[1] < rows):
                msgs.append(f"{tag}: cursor {tuple(cur)} outside the {cols}x{rows} canvas{note}")
        return msgs

    def nontrivial(self, case, res):
        return spec_size(case["tree"]) > 1 or any(not isinstance(p.get("render"), str) for p in res["probes"])

    def signature(self, case, msg):
        """Failure class (kept by the shrinker while minimising) + the tree features that the known findings
        are about, so that a new defect with a familiar symptom is not merged with a known one."""
        import json
        t = json.dumps(case["tree"])
        feats = []
        nodes = list(subtrees(case["tree"]))
        if any(n[0] == "ov" and n[6] == "pack" for n in nodes):
            feats.append("ov-height-pack")
        if any(n[0] == "ov" and n[4] == "pack" for n in nodes):
            feats.append("ov-width-pack")
        if any(n[0] == "pad" and n[3] == "clip" for n in nodes):
            feats.append("pad-clip")
        if any(n[0] == "gridflow" for n in nodes):
            feats.append("gridflow")
        if re.search(r'"progress", \d+, "s"', t):
            feats.append("progress-smooth")
        if re.search(r'\["p"\], \["bigtext"', t):
            feats.append("pile-fixed-only")
        if "\\u0301" in t and case.get("enc") != "utf-8":
            feats.append("combining-narrow")
        return self.failure_class(msg) + (" {" + ",".join(feats) + "}" if feats else "")

    @staticmethod
    def failure_class(msg):
        m = re.search(r"raised (\w+):.*\[in (\w+)\]", msg, re.S)
        if m:
            cls = f"raised {m.group(1)} in {m.group(2)}"
            if m.group(2) == "validate_size":
                w = re.search(r"Widget <(\w+)", msg)
                cls += " of " + (w.group(1) if w else "?")
            return cls
        if "pack(()) says" in msg:
            return "fixed render differs from pack(())"
        if "rows() says" in msg:
            return "flow render differs from rows()"
        if "returned a" in msg:
            return "box render has the wrong size"
        if "cursor" in msg:
            return "cursor outside"
        if "raised" in msg:
            return re.sub(r"\d+", "N", msg.split("raised")[0])[-40:] + "raised"
        return "content rows do not match the canvas"

    def known_match(self, finding, case, msg):
        """msg_regex (on the oracle message), tree_regex (on the JSON text of the shrunk tree), node (a node of
        the shrunk tree with given kind and spec fields), probe_mode, enc_not / enc; all given keys must match."""
        import json
        m = finding.get("match", {})
        if not m:
            return False
        if "msg_regex" in m and not re.search(m["msg_regex"], msg, re.S):
            return False
        if "tree_regex" in m and not re.search(m["tree_regex"], json.dumps(case["tree"])):
            return False
        if "enc" in m and case.get("enc") != m["enc"]:
            return False
        if "enc_not" in m and case.get("enc") == m["enc_not"]:
            return False
        if "probe_mode" in m and not all(p[0] == m["probe_mode"] for p in case["probes"]):
            return False
        if "node" in m:
            # some node of the shrunk tree has this kind and these spec fields (position -> value)
            want = m["node"]

            def ok(t):
                return t[0] == want["kind"] and all(t[int(k)] == v for k, v in want.get("fields", {}).items())
            if not any(ok(t) for t in subtrees(case["tree"])):
                return False
        return True

    def distribution(self, case, res, dist):
        def bump(k):
            dist[k] = dist.get(k, 0) + 1

        def walk(spec):
            bump("widget:" + spec[0])
            for c in children(spec):
                walk(c)
        walk(case["tree"])
        bump("mode:" + case.get("mode", "corr"))
        bump("enc:" + case.get("enc", "utf-8"))
        bump("depth:%d" % min(spec_depth(case["tree"]), 7))
        bump("wf:%d" % res["wf"])
        if case.get("lenient"):
            bump("lenient-stream")
        for (m, _c, _r, _f), p in zip(case["probes"], res["probes"]):
            bump("probe:" + ["fixed", "flow", "box"][m])
            rd = p["render"]
            bump("outcome:" + (rd if isinstance(rd, str) else "ok"))
            if rd == "Starved":
                key = core.h(case)
                if key in self._raw:
                    pass

    # ---------- generators ----------
    def make_case(self, rng, spec, enc, nsizes):
        """Build the widget once to learn its sizing and WellFormed-ness; choose probes."""
        import urwid
        urwid.set_encoding(enc)
        try:
            try:
                w = build(spec)
                bits = sizing_bits(w)
                why = wf_tree(w)
            except Exception:      # noqa: BLE001  (constructor refused the combination: not a case)
                return None
        finally:
            urwid.set_encoding("utf-8")
        probes = []
        for _ in range(nsizes):
            c = rng.choice([1, 1, 2, 3, 4, 5, 6, 7, 8, 9, 10, 11, 12, 12])
            r = rng.choice([1, 1, 2, 3, 4, 5, 6, 7, 8, 9, 10, 11, 12])
            if bits[0]:
                probes += [[2, c, r, 0], [2, c, r, 1]]
            if bits[1]:
                probes += [[1, c, 0, 0], [1, c, 0, 1]]
        if bits[2]:
            probes += [[0, 0, 0, 0], [0, 0, 0, 1]]
        stateful = False          # (GridFlow.pack was history-dependent before ff415d1)
        case = {"tree": spec, "enc": enc, "probes": probes,
                "mode": "corr" if (why is None and not stateful) else "oracle", "why": why}
        if why == LENIENT:
            case["lenient"] = 1
            case["why"] = None
        return case

    def systematic_cases(self):
        """Small exhaustive scopes for the arithmetic the random trees hit only now and then: weighted Columns at
        every narrow width, weighted box Piles at every small height, a Filler scrolling to each cursor row, widgets
        without rows inside every container."""
        import itertools
        t = lambda s: ["text", s, "left", "space"]          # noqa: E731
        weights = [1, 2, 5]
        for n in (2, 3):
            for ws in itertools.product(weights, repeat=n):
                for mw, d in ((1, 0), (1, 1), (2, 0), (2, 1)):
                    items = [[["w", w], t("ab cd"[: 2 + i]), 0] for i, w in enumerate(ws)]
                    yield {"tree": ["cols", items, d, mw, 0], "enc": "utf-8", "mode": "corr",
                           "probes": [[1, c, 0, 0] for c in range(1, 13)]}
        for ws in itertools.product(weights, repeat=3):
            items = [[["w", w], ["solid", "x"]] for w in ws] + [[["p"], t("ab cd")], [["g", 2], ["solid", "."]]]
            yield {"tree": ["pile", items, 0], "enc": "utf-8", "mode": "corr",
                   "probes": [[2, 3, r, 0] for r in range(1, 13)]}
        for pos in range(0, 10, 2):
            for valign in ("top", "middle", "bottom"):
                yield {"tree": ["fill", ["edit", "", "a\nb\nc\nd\ne", "space", "left", pos], valign, "pack", None, 0, 0],
                       "enc": "utf-8", "mode": "corr", "probes": [[2, 4, r, 1] for r in range(1, 7)]}
        # Text with control / line-boundary characters: pack(()) against render(()), alone and where pack() is trusted
        for txt in CTRL_TEXTS:
            for wrap in WRAPS:
                leaf = ["text", txt, "left", wrap]
                fx = [[0, 0, 0, 0], [0, 0, 0, 1]]
                fl = [[1, c, 0, 0] for c in (1, 2, 3, 5, 8, 12)]
                yield {"tree": leaf, "enc": "utf-8", "mode": "corr", "probes": fx + fl}
                if wrap in ("space", "clip"):
                    yield {"tree": ["pad", leaf, "left", "pack", None, 1, 0], "enc": "utf-8", "mode": "corr", "probes": fx + fl}
                    yield {"tree": ["cols", [[["p"], leaf, 0], [["p"], t("z"), 0]], 1, 1, 0], "enc": "utf-8", "mode": "corr",
                           "probes": fx + fl}
                    yield {"tree": ["pile", [[["p"], leaf], [["p"], t("zz")]], 0], "enc": "utf-8", "mode": "corr", "probes": fx + fl}
                    yield {"tree": ["ov", leaf, ["solid", "."], "left", "pack", "top", "pack", None, None, 0, 0, 0, 0],
                           "enc": "utf-8", "mode": "corr", "probes": [[2, c, 3, 0] for c in (2, 5, 9, 12)]}
        # SelectableIcon with the cursor at every position up to one past the text, at every narrow width
        for txt in ("x", "sel", "世界", "ab cd"):
            for pos in range(0, len(txt) + 2):
                leaf = ["selicon", txt, pos]
                pr = [[1, c, 0, 1] for c in range(1, 8)] + [[0, 0, 0, 1]]
                yield {"tree": leaf, "enc": "utf-8", "mode": "corr", "probes": pr}
                yield {"tree": ["cols", [[["g", max(1, pos)], leaf, 0], [None, t("ab"), 0]], 0, 1, 0], "enc": "utf-8",
                       "mode": "corr", "probes": [[1, c, 0, 1] for c in range(1, 9)]}
                yield {"tree": ["pad", leaf, "left", "pack", None, 0, 1], "enc": "utf-8", "mode": "corr", "probes": pr}
        # Scrollable / ScrollBar around FIXED-only and fixed/flow widgets: every combination of overflowing / fitting /
        # spare room on the two axes
        grid = [[2, c, r, f] for c in (1, 2, 4, 6, 9, 12) for r in (1, 2, 3, 5, 8) for f in (0, 1)]
        for inner in (["bigtext", "12", "3x3"], ["bigtext", "1", "half"], ["text", "ab cd", "left", "clip"],
                      ["text", "x\ny\nz", "left", "space"], ["pad", ["bigtext", "1", "3x3"], "left", "clip", None, 1, 0],
                      ["pad", ["bigtext", "12", "4x3"], "right", "clip", None, 0, 2]):
            for kind in ("scrollable", "scroll"):
                yield {"tree": [kind, inner], "enc": "utf-8", "mode": "corr", "probes": grid}
        # row trimming of canvases whose cviews span several shards (a tall column beside a Pile of one-row widgets),
        # cut at every height, with another widget stacked above / below
        tall = ["cols", [[None, t("a\nb\nc\nd"), 0], [None, ["pile", [[None, t(ch)] for ch in "1234"], 0], 0],
                         [["g", 1], t("q\nr"), 0]], 1, 1, 0]
        heights = [[2, 7, r, f] for r in range(1, 11) for f in (0, 1)]
        for valign in ("top", "middle", "bottom"):
            cut = ["fill", tall, valign, "pack", None, 0, 0]
            for items in ([[["w", 1], cut], [["w", 1], ["solid", "."]]], [[["w", 2], ["solid", "."]], [["w", 1], cut]],
                          [[["w", 1], cut], [["p"], t("below")], [["w", 1], cut]]):
                yield {"tree": ["pile", items, 0], "enc": "utf-8", "mode": "corr", "probes": heights}
        for holder in (["scrollable", tall], ["listbox", [tall, t("after")], 0],
                       ["ov", tall, ["solid", "."], "left", 5, "top", "pack", None, None, 0, 0, 0, 0],
                       ["ov", tall, ["solid", "."], "center", ["relative", 100], "bottom", "pack", None, None, 0, 1, 0, 0]):
            yield {"tree": ["pile", [[["w", 1], holder], [["p"], t("below")]], 0], "enc": "utf-8", "mode": "corr",
                   "probes": heights}
            yield {"tree": ["pile", [[["p"], t("above")], [["w", 1], holder], [["g", 1], ["solid", "-"]]], 0], "enc": "utf-8",
                   "mode": "corr", "probes": heights}
        # widgets without rows (Pile([]) and decorations of it) in every place a flow widget can stand; a flow
        # Columns of them has one row (ba7db6e), everything else passes the 0 rows on
        e = ["pile", [], 0]
        zero = [e, ["attr", e], ["pile", [[None, e], [["p"], ["attr", e]]], 1],
                ["pad", e, "left", ["relative", 100], None, 0, 0], ["fill", e, "top", "pack", None, 0, 0]]
        flowp = [[1, c, 0, f] for c in (1, 2, 5, 9) for f in (0, 1)]
        boxp = [[2, c, r, 0] for c, r in ((1, 1), (4, 1), (5, 3), (9, 2))]
        for z in zero:
            holders = [
                ["cols", [[None, z, 0]], 0, 1, 0],
                ["cols", [[["w", 2], z, 0], [None, ["attr", z], 0]], 1, 1, 1],
                ["cols", [[["g", 2], ["solid", "#"], 1], [None, z, 0]], 1, 1, 1],
                ["cols", [[["g", 3], z, 0], [["p"], t("ab"), 0]], 0, 1, 0],
                ["cols", [[None, ["cols", [[None, z, 0]], 0, 1, 0], 0], [None, z, 0]], 2, 1, 0],
                ["linebox", z, "t", "left"],
                ["linebox", z, "", "left"],
                ["linebox", ["cols", [[None, z, 0]], 0, 1, 0], "title", "center"],
                ["pile", [[None, z], [None, ["cols", [[None, z, 0]], 0, 1, 0]], [["p"], t("ab cd")]], 1],
                ["fill", z, "middle", "pack", None, 1, 0],
                ["pad", z, "center", ["relative", 50], 2, 1, 0],
            ]
            for h in holders:
                yield {"tree": h, "enc": "utf-8", "mode": "corr", "probes": flowp + boxp}
            yield {"tree": ["frame", ["solid", "."], z, ["cols", [[None, z, 0]], 0, 1, 0], "body"], "enc": "utf-8",
                   "mode": "corr", "probes": boxp}
            yield {"tree": ["ov", t("ab"), ["fill", z, "top", "pack", None, 0, 0], "left", 3, "top", "pack", None, None, 0, 0, 0, 0],
                   "enc": "utf-8", "mode": "corr", "probes": boxp}
            yield {"tree": ["ov", ["cols", [[None, z, 0]], 0, 1, 0], ["solid", "."], "center", 3, "middle", "pack", None, None, 0, 0, 0, 0],
                   "enc": "utf-8", "mode": "corr", "probes": boxp}

    def cases(self, rng, tier):
        yield from self.systematic_cases()
        n = 1500 if tier == "quick" else 15000
        made = 0
        attempts = 0
        while made < n and attempts < 20 * n:
            attempts += 1
            enc = rng.choice(ENCODINGS)
            g = Gen(rng, enc)
            want = rng.choice(["box", "flow", "fixed", None])
            spec = g.tree(rng.choice([0, 1, 2, 2, 3, 3, 4, 4, 5]), want)
            case = self.make_case(rng, spec, enc, rng.choice([1, 2, 2, 3]))
            if case is None or case["why"] is not None:
                continue                  # outside WellFormed: misuse, not generated
            case.pop("why")
            made += 1
            yield case

    def search_cases(self, rng, tier):
        while True:
            enc = rng.choice(ENCODINGS)
            spec = Gen(rng, enc).tree(rng.choice([1, 2, 3]), rng.choice(["box", "flow", "fixed", None]))
            case = self.make_case(rng, spec, enc, 3)
            if case is not None and case["why"] is None:
                case.pop("why")
                yield case

    # ---------- shrinking ----------
    def shrink_candidates(self, case):
        """Only strictly smaller cases (tree size, then text length), so shrinking terminates."""
        import json

        def measure(c):
            return (spec_size(c["tree"]), len(c["probes"]), len(json.dumps(c)))
        m0 = measure(case)
        for cand in self._candidates(case):
            if measure(cand) < m0:
                yield cand

    def _candidates(self, case):
        tree = case["tree"]

        def with_tree(t, probes=None):
            c = dict(case)
            c["tree"] = t
            if probes is not None:
                c["probes"] = probes
            return c
        # fewer probes
        if len(case["probes"]) > 1:
            for i in range(len(case["probes"])):
                c = dict(case)
                c["probes"] = [case["probes"][i]]
                yield c
        # a subtree alone (all three modes at the probe's numbers)
        pr = case["probes"][0]
        allmodes = [[2, max(pr[1], 1), max(pr[2], 1), pr[3]], [1, max(pr[1], 1), 0, pr[3]], [0, 0, 0, pr[3]]]
        for sub in subtrees(tree):
            if sub is not tree:
                yield with_tree(sub, allmodes)
        # structural simplifications in place
        for t in simplifications(tree):
            yield with_tree(t)
        # smaller numbers
        m, c, r, f = pr
        for c2, r2 in ((c - 1, r), (c, r - 1), (c // 2, r), (c, r // 2)):
            if (m == 0) or c2 < 1 or (m == 2 and r2 < 1) or (c2, r2) == (c, r):
                continue
            cc = dict(case)
            cc["probes"] = [[m, c2, r2, f]]
            yield cc
        if case.get("enc") != "utf-8":
            cc = dict(case)
            cc["enc"] = "utf-8"
            yield cc


def subtrees(spec):
    yield spec
    for c in children(spec):
        yield from subtrees(c)


def replace_child(spec, idx, new):
    """Copy of spec with its idx-th child (in children() order) replaced."""
    k = spec[0]
    s = list(spec)
    if k == "pile":
        items = [list(it) for it in spec[1]]
        items[idx][1] = new
        s[1] = items
    elif k == "cols":
        items = [list(it) for it in spec[1]]
        items[idx][1] = new
        s[1] = items
    elif k in ("listbox", "gridflow"):
        items = list(spec[1])
        items[idx] = new
        s[1] = items
    elif k in ("pad", "fill", "ba", "attr", "linebox", "scroll", "scrollable"):
        s[1] = new
    elif k == "ov":
        s[1 + idx] = new
    elif k == "frame":
        pos = [i for i in (1, 2, 3) if spec[i]][idx]
        s[pos] = new
    return s


SIMPLE = {"flow": ["text", "a", "left", "space"], "box": ["solid", "x"], "fixed": ["bigtext", "1", "3x3"]}


def simplifications(spec):
    """One-step simpler variants of the tree (same root kind or simpler)."""
    k = spec[0]
    kidsl = children(spec)
    # replace a child by a trivial leaf / by one of its own children / simplify inside it
    for i, c in enumerate(kidsl):
        for leaf in SIMPLE.values():
            if c != leaf and spec_size(c) >= 1 and c[0] not in ("solid",):
                yield replace_child(spec, i, leaf)
        for gc in children(c):
            yield replace_child(spec, i, gc)
        for c2 in simplifications(c):
            yield replace_child(spec, i, c2)
    # drop items
    if k in ("pile", "cols") and len(spec[1]) > 1:
        for i in range(len(spec[1])):
            s = list(spec)
            s[1] = spec[1][:i] + spec[1][i + 1:]
            s[-1] = min(spec[-1], len(s[1]) - 1)
            yield s
    if k in ("listbox", "gridflow") and len(spec[1]) > 0:
        for i in range(len(spec[1])):
            s = list(spec)
            s[1] = spec[1][:i] + spec[1][i + 1:]
            yield s
    if k in ("pile", "cols"):
        for i, it in enumerate(spec[1]):
            if it[0] is not None:
                s = list(spec)
                items = [list(x) for x in spec[1]]
                items[i][0] = None
                s[1] = items
                yield s
    # neutral parameters
    neutral = {"pad": {4: None, 5: 0, 6: 0, 2: "left"}, "fill": {4: None, 5: 0, 6: 0, 2: "top"},
               "ov": {7: None, 8: None, 9: 0, 10: 0, 11: 0, 12: 0, 3: "left", 5: "top"},
               "cols": {2: 0, 3: 1}, "linebox": {2: ""}, "frame": {4: "body"}, "div": {2: 0, 3: 0},
               "text": {1: "a", 2: "left", 3: "space"}, "edit": {1: "", 2: "a", 3: "space", 4: "left"},
               "progress": {2: None}}.get(k, {})
    for pos, val in neutral.items():
        if spec[pos] != val:
            s = list(spec)
            s[pos] = val
            yield s
    if k == "frame":
        for pos in (2, 3):
            if spec[pos]:
                s = list(spec)
                s[pos] = None
                yield s


CHECK = C01
