"""C06 - the canvas cache is invisible: cached rendering equals fresh rendering.

Two families of cases:

kind "bk"   bookkeeping: small trees of REAL urwid containers (AttrMap, Padding, Pile, Columns) around
            spy leaf widgets whose render is a pure function of a version counter.  After every step the
            keys of CanvasCache._widgets / _deps (widgets mapped to ids) and the rendered leaf stamps are
            compared EXACTLY with the extracted Coq model (Model/Cache.v) - the correspondence - and the
            stamps are compared with what the tree must show under the current versions (oracle).
kind "real" end-to-end oracle, no model: random histories on trees of the bundled widgets driven only
            through their public API; after every step: render with the cache, render again with the
            cache emptied, compare content and cursor; same for rows(); canvases handed out earlier
            still have the content they had at hand-out.
"""
import ast
import contextlib
import gc
import os
import re
import warnings

from harness import core

warnings.simplefilter("ignore")

KIND = {"leaf": 0, "attr": 1, "pad": 2, "pile": 3, "cols": 4, "switch": 5}
VCH = "0123456789abcdefghijklmnopqrstuvwxyz"


# ======================================================================================
# spy leaves (bookkeeping cases)
# ======================================================================================
_spy = {}


def spy_classes():
    if _spy:
        return _spy
    import urwid

    def render(self, size, focus=False):
        (maxcol,) = size
        stamp = "%s%s%s" % (chr(65 + self.wid), VCH[self.v % 36], "f" if focus else "n")
        lines = [stamp.ljust(maxcol)[:maxcol].encode()] + [b"." * maxcol] * ((self.v + int(bool(focus))) % 2)
        return urwid.TextCanvas(lines, maxcol=maxcol)

    def rows(self, size, focus=False):
        return 1 + (self.v + int(bool(focus))) % 2

    def init(self, wid):
        urwid.Widget.__init__(self)
        self.wid, self.v = wid, 0

    base = {"_sizing": frozenset(["flow"]), "_selectable": False, "__init__": init}
    _spy["plain"] = type("Leaf", (urwid.Widget,), dict(base, render=render, rows=rows))
    _spy["ignf"] = type("LeafIgnoreFocus", (urwid.Widget,), dict(base, render=render, rows=rows, ignore_focus=True))
    _spy["nocache"] = type("LeafNoCache", (urwid.Widget,), dict(base, render=render, rows=rows, no_cache=["render"]))

    # a container written against the documented widget API: shows only its first child when narrow
    def sw_init(self, kids, fp, th):
        urwid.Widget.__init__(self)
        self.kids, self.fp, self.th = kids, fp, th

    def sw_shown(self, size):
        return self.kids if size[0] >= self.th else self.kids[:1]

    def sw_render(self, size, focus=False):
        return urwid.CanvasCombine([(k.render(size, focus and i == self.fp), i, i == self.fp)
                                    for i, k in enumerate(sw_shown(self, size))])

    def sw_rows(self, size, focus=False):
        return sum(k.rows(size, focus and i == self.fp) for i, k in enumerate(sw_shown(self, size)))

    def sw_set(self, kids, fp):
        self.kids, self.fp = kids, fp
        self._invalidate()
    _spy["switch"] = type("Switch", (urwid.Widget,), {"_sizing": frozenset(["flow"]), "_selectable": False, "__init__": sw_init,
                                                      "render": sw_render, "rows": sw_rows, "set": sw_set})
    return _spy


def node_map(case):
    return {n["id"]: n for n in case["nodes"]}


def config(n, v):
    cs = n["configs"]
    return cs[v % max(1, len(cs))] if cs else [[], 0]


def build_bk(case):
    import urwid
    cls = spy_classes()
    objs = {}
    for n in case["nodes"]:
        k = n["k"]
        if k == "leaf":
            c = cls["nocache"] if not n.get("cache", 1) else cls["ignf"] if n.get("ignf") else cls["plain"]
            objs[n["id"]] = c(n["id"])
            continue
        ch, fp = config(n, 0)
        kids = [objs[i] for i in ch]
        if k == "attr":
            objs[n["id"]] = urwid.AttrMap(kids[0], "m")
        elif k == "pad":
            objs[n["id"]] = urwid.Padding(kids[0], left=n["l"], right=n["r"])
        elif k == "pile":
            objs[n["id"]] = urwid.Pile(kids, focus_item=fp)
        elif k == "switch":
            objs[n["id"]] = cls["switch"](kids, fp, n["l"])
        elif k == "cols":
            objs[n["id"]] = urwid.Columns([("given", wd, x) for wd, x in zip(n["widths"], kids)], dividechars=0, focus_column=fp)
        else:
            raise core.MachineryError("unknown node kind " + k)
    return objs


def apply_config(n, w, objs, v):
    """The public mutators of the real containers; a leaf just counts."""
    k = n["k"]
    if k == "leaf":
        w.v = v
        w._invalidate()
        return
    ch, fp = config(n, v)
    kids = [objs[i] for i in ch]
    if k in ("attr", "pad"):
        w.original_widget = kids[0]
    elif k == "switch":
        w.set(kids, fp)
    elif k == "pile":
        w.contents[:] = [(x, w.options()) for x in kids]
        w.focus_position = fp
    elif k == "cols":
        w.contents[:] = [(x, w.options("given", wd)) for wd, x in zip(n["widths"], kids)]
        w.focus_position = fp


def stamps_of(canv):
    out = []
    for line in canv.text:
        for m in re.finditer(r"([A-Z])([0-9a-z])([fn])", line.decode("ascii", "replace")):
            out.append([ord(m.group(1)) - 65, VCH.index(m.group(2)), 1 if m.group(3) == "f" else 0])
    return sorted(out)


def dump_cache(wid_of):
    from urwid import CanvasCache
    ws = []
    for w, sizes in CanvasCache._widgets.items():
        for (_cls, size, focus) in sizes:
            ws.append([wid_of.get(id(w), -1), 2 * size[0] + (1 if focus else 0)])
    ds = [[wid_of.get(id(w), -1), [wid_of.get(id(x), -1) for x in l]] for w, l in CanvasCache._deps.items()]
    return {"widgets": sorted(ws), "deps": sorted(ds), "nrefs": len(CanvasCache._refs)}


def content_of(canv):
    """Displayed cells: per row the runs (attr, charset, bytes) with equal neighbours merged; plus the cursor."""
    rows = []
    for row in canv.content():
        out = []
        for a, cs, t in row:
            t = bytes(t).decode("latin-1")
            if not t:
                continue
            if out and out[-1][0] == repr(a) and out[-1][1] == repr(cs):
                out[-1][2] += t
            else:
                out.append([repr(a), repr(cs), t])
        rows.append(out)
    return rows, (list(canv.cursor) if canv.cursor is not None else None)


def run_bk(case):
    from urwid import CanvasCache
    CanvasCache.clear()
    gc.collect()
    objs = build_bk(case)
    PUBLIC_IDS.clear()
    PUBLIC_IDS.update(id(x) for x in objs.values())
    nodes = node_map(case)
    wid_of = {id(o): i for i, o in objs.items()}
    slots, snaps, outs, frozen = {}, {}, [], []
    for op in case["ops"]:
        r = None
        try:
            if op[0] == "render":
                canv = objs[op[1]].render((op[2],), bool(op[3]))
                r = [canv.rows(), stamps_of(canv)]
                if op[4] >= 0:
                    slots[op[4]] = canv
                    snaps.setdefault(id(canv), (canv, content_of(canv)))
                del canv
            elif op[0] == "rows":
                r = ["rows", objs[op[1]].rows((op[2],), bool(op[3]))]
            elif op[0] == "mut":
                apply_config(nodes[op[1]], objs[op[1]], objs, op[2])
            elif op[0] == "drop":
                slots.pop(op[1], None)
            elif op[0] == "clear":
                CanvasCache.clear()
        except Exception as e:          # noqa: BLE001  an exception is an observable outcome
            r = "Exc:" + type(e).__name__
        # snapshots of canvases that are no longer held must not keep them alive
        for key in [k for k, (c, _) in snaps.items() if not any(c is s for s in slots.values())]:
            c, snap = snaps.pop(key)
            if content_of(c) != snap:
                frozen.append(len(outs))
            del c
        d = dump_cache(wid_of)
        d["r"] = r
        outs.append(d)
    for c, snap in snaps.values():
        if content_of(c) != snap:
            frozen.append(len(outs))
    slots.clear()
    snaps.clear()
    CanvasCache.clear()
    return {"outs": outs, "frozen": frozen}


# ---------- what the tree must show under the current versions (independent of the cache) ----------
def expect_bk(case):
    nodes = node_map(case)
    ver = {n["id"]: 0 for n in case["nodes"]}

    def show(w, maxcol, focus):
        n = nodes[w]
        if n["k"] == "leaf":
            f = 1 if (focus and not n.get("ignf")) else 0
            return 1 + (ver[w] + f) % 2, [[w, ver[w] % 36, f]]
        ch, fp = config(n, ver[w])
        parts = []
        for i, x in enumerate(ch):
            if n["k"] == "attr":
                parts.append(show(x, maxcol, focus))
            elif n["k"] == "pad":
                parts.append(show(x, maxcol - n["l"] - n["r"], focus))
            elif n["k"] == "pile":
                parts.append(show(x, maxcol, focus and i == fp))
            elif n["k"] == "switch":
                if i == 0 or maxcol >= n["l"]:
                    parts.append(show(x, maxcol, focus and i == fp))
            else:
                parts.append(show(x, n["widths"][i], focus and i == fp))
        rows = [p[0] for p in parts]
        st = sorted(s for p in parts for s in p[1])
        return (max(rows) if n["k"] == "cols" else sum(rows)), st

    exp = []
    for op in case["ops"]:
        if op[0] == "render":
            r, st = show(op[1], op[2], bool(op[3]))
            exp.append([r, st])
        elif op[0] == "rows":
            exp.append(["rows", show(op[1], op[2], bool(op[3]))[0]])
        else:
            if op[0] == "mut":
                ver[op[1]] = op[2]
            exp.append(None)
    return exp


# ======================================================================================
# real widget trees (end-to-end oracle)
# ======================================================================================
TEXTS = ["a", "hello world", "x\ny", "世界 ok", "", "one two three four", "z"]
SIZES = [8, 12, 20, 5]
BOXROWS = [1, 3, 5]


def build_real(spec):
    """spec = [type, args..., children...] (JSON) -> widget.  Only public constructors."""
    import urwid
    t = spec[0]
    if t == "text":
        return urwid.Text(TEXTS[spec[1] % len(TEXTS)], wrap=["space", "any", "clip", "ellipsis"][spec[2] % 4])
    if t == "longtext":
        return urwid.Text(" ".join("w%02d" % n for n in range(12 + 12 * (spec[1] % 3))))
    if t == "edit":
        return urwid.Edit("c:", TEXTS[spec[1] % len(TEXTS)].replace("\n", " "), multiline=bool(spec[2] % 2))
    if t == "intedit":
        return urwid.IntEdit("n:", spec[1] % 1000)
    if t == "checkbox":
        return urwid.CheckBox("cb", state=bool(spec[1] % 2))
    if t == "radio":
        grp = []
        return urwid.Pile([urwid.RadioButton(grp, "r%d" % i) for i in range(1 + spec[1] % 3)])
    if t == "button":
        return urwid.Button(TEXTS[spec[1] % len(TEXTS)].replace("\n", " "))
    if t == "divider":
        return urwid.Divider("-", top=spec[1] % 2, bottom=spec[2] % 2)
    if t == "progress":
        return urwid.ProgressBar("n", "c", current=spec[1] % 101, done=100)
    if t == "pile":
        return urwid.Pile([build_real(c) for c in spec[1]])
    if t == "columns":
        kids = [build_real(c) for c in spec[2]]
        opts = spec[3] if len(spec) > 3 else []
        lst = []
        for i, k in enumerate(kids):
            o = opts[i % len(opts)] if opts else 0
            lst.append(k if o == 0 else ("pack", k) if o == 1 else ("weight", 1 + o % 3, k) if o < 5 else ("given", 3 + o % 5, k))
        return urwid.Columns(lst, dividechars=spec[1] % 2)
    if t == "gridflow":
        return urwid.GridFlow([build_real(c) for c in spec[4]], 3 + spec[1] % 6, spec[2] % 2, spec[3] % 2,
                              ["left", "center", "right"][spec[1] % 3])
    if t == "padding":
        return urwid.Padding(build_real(spec[3]), left=spec[1] % 3, right=spec[2] % 3,
                             width=[("relative", 100), "pack", "clip", ("relative", 60), 5][(spec[1] // 3) % 5])
    if t == "attrmap":
        return urwid.AttrMap(build_real(spec[1]), "a", "f")
    if t == "linebox":
        return urwid.LineBox(build_real(spec[2]), title=["", "t", "title"][spec[1] % 3])
    if t == "boxadapter":
        return urwid.BoxAdapter(build_real_box(spec[2]), 1 + spec[1] % 5)
    if t == "wrap":
        return urwid.WidgetWrap(build_real(spec[1]))
    if t == "placeholder":
        return urwid.WidgetPlaceholder(build_real(spec[1]))
    raise core.MachineryError("unknown widget spec " + repr(t))


def build_real_box(spec):
    import urwid
    t = spec[0]
    if t == "listbox":
        walker = urwid.SimpleFocusListWalker if spec[1] % 2 else urwid.SimpleListWalker
        return urwid.ListBox(walker([build_real(c) for c in spec[2]]))
    if t == "filler":
        return urwid.Filler(build_real(spec[2]), valign=["top", "middle", "bottom"][spec[1] % 3])
    if t == "frame":
        return urwid.Frame(build_real_box(spec[1]), header=build_real(spec[2]) if spec[2] else None,
                           footer=build_real(spec[3]) if spec[3] else None)
    if t == "solid":
        return urwid.SolidFill("#")
    if t == "scrollable":
        return urwid.ScrollBar(urwid.Scrollable(build_real(spec[1])))
    if t == "overlay":
        return urwid.Overlay(build_real(spec[1]), build_real_box(spec[2]), "center", ("relative", 60), "middle", "pack")
    if t == "boxattr":
        return urwid.AttrMap(build_real_box(spec[1]), "a", "f")
    if t == "bargraph":
        b = urwid.BarGraph(["bg", "a", "b"])
        b.set_data([(1 + spec[1] % 3,), (3,), (2,)], 3)
        return b
    if t == "vscale":
        return urwid.GraphVScale([(1, "a"), (3, "b")], 4 + spec[1] % 2)
    raise core.MachineryError("unknown box widget spec " + repr(t))


def public_children(w):
    """Children reachable through PUBLIC attributes only (never generated display widgets)."""
    import urwid
    out = []
    if isinstance(w, urwid.ListBox):
        try:
            out += list(w.body)
        except TypeError:
            pass
    elif isinstance(w, urwid.Frame):
        out += [x for x in (w.header, w.body, w.footer) if x is not None]
    elif isinstance(w, urwid.Overlay):
        out += [w.top_w, w.bottom_w]
    elif isinstance(w, (urwid.Pile, urwid.Columns, urwid.GridFlow)):
        out += [c for c, _ in w.contents]
    elif isinstance(w, urwid.WidgetWrap) and not isinstance(w, (urwid.Button, urwid.CheckBox, urwid.LineBox)):
        out.append(w._w)          # WidgetWrap subclasses own _w; the bundled wimps keep theirs private
    elif isinstance(w, urwid.WidgetDecoration):
        out.append(w.original_widget)
    elif isinstance(w, urwid.LineBox):
        out.append(w.original_widget)
    return out


def walk(top):
    acc, seen, todo = [], set(), [top]
    while todo:
        w = todo.pop(0)
        if id(w) in seen:
            continue
        seen.add(id(w))
        acc.append(w)
        todo[0:0] = public_children(w)
    return acc


def new_leaf(a):
    return build_real([["text", a, a // 7], ["edit", a, 0], ["checkbox", a], ["button", a], ["divider", a, a // 2],
                       ["text", 4, 0], ["pile", []], ["text", 4, 1]][a % 8])


KEYS = ["x", "left", "right", "up", "down", "backspace", "home", "end", "enter", " ", "delete", "page down", "page up", "tab", "1", "-"]


def setprop(w, name, value):
    """Assign through a public property WITH a setter only; a plain attribute is not a mutator (no-op)."""
    p = getattr(type(w), name, None)
    if not isinstance(p, property) or p.fset is None or name.startswith("_"):
        return False
    setattr(w, name, value)
    return True


def remarkup(text, b):
    """Markup with exactly the characters of `text` and one of several attribute layouts (attribute-only change)."""
    h = len(text) // 2
    return [text, ("ok", text), ("alarm", text), [("a", text[:h]), text[h:]], [text[:h], ("b", text[h:])],
            [("a", text[:h]), ("b", text[h:])]][b % 6]


def mutate_real(w, a, b, size):
    """One public mutation of widget w chosen by the integers a, b.  Returns a short name (None = nothing done)."""
    import urwid
    if isinstance(w, urwid.Edit):
        k = a % 8
        if k == 6:
            w.set_caption(remarkup(w.caption, b))
            return "Edit.set_caption(attributes only)"
        if k == 7:
            w.set_edit_text(w.edit_text)
            return "Edit.set_edit_text(same)"
        if k == 0:
            w.set_edit_text(TEXTS[b % len(TEXTS)].replace("\n", " ") if not isinstance(w, urwid.IntEdit) else str(b % 1000))
            return "Edit.set_edit_text"
        if k == 1:
            w.keypress((size[0],), KEYS[b % len(KEYS)])
            return "Edit.keypress"
        if k == 2:
            w.set_caption(["", "cap ", "c:"][b % 3])
            return "Edit.set_caption"
        if k == 3:
            w.set_edit_pos(b % (len(w.edit_text) + 1))
            return "Edit.set_edit_pos"
        if k == 4:
            w.insert_text("q" * (1 + b % 2))
            return "Edit.insert_text"
        w.set_mask([None, "*"][b % 2])
        return "Edit.set_mask"
    if isinstance(w, urwid.Text):
        k = a % 8
        if k >= 4:
            w.set_text(remarkup(w.text, b + k))
            return "Text.set_text(attributes only)"
        if k == 0:
            w.set_text(TEXTS[b % len(TEXTS)])
            return "Text.set_text"
        if k == 1:
            w.set_text([("attr", "m"), TEXTS[b % len(TEXTS)]])
            return "Text.set_text(markup)"
        if k == 2:
            w.set_align_mode(["left", "center", "right"][b % 3])
            return "Text.set_align_mode"
        w.set_wrap_mode(["space", "any", "clip", "ellipsis"][b % 4])
        return "Text.set_wrap_mode"
    if isinstance(w, urwid.CheckBox):
        k = a % 5
        if k == 4:
            w.set_label(remarkup(w.label, b))
            return "CheckBox.set_label(attributes only)"
        if k == 0:
            w.set_state(bool(b % 2))
            return "CheckBox.set_state"
        if k == 1:
            w.toggle_state()
            return "CheckBox.toggle_state"
        if k == 2:
            w.set_label(TEXTS[b % len(TEXTS)])
            return "CheckBox.set_label"
        w.keypress((size[0],), [" ", "enter", "x"][b % 3])
        return "CheckBox.keypress"
    if isinstance(w, urwid.Button):
        if a % 2:
            w.set_label(remarkup(w.label, b))
            return "Button.set_label(attributes only)"
        w.set_label(TEXTS[b % len(TEXTS)].replace("\n", " "))
        return "Button.set_label"
    if isinstance(w, urwid.ProgressBar):
        w.set_completion(b % 120)
        return "ProgressBar.set_completion"
    if isinstance(w, urwid.Divider):
        return None       # top/bottom/div_char are plain attributes without a setter: assigning them is not a public mutator
    if isinstance(w, (urwid.Pile, urwid.Columns, urwid.GridFlow)):
        name = type(w).__name__
        n = len(w.contents)
        k = a % 14
        opt = w.options()
        if k == 8 and n:
            w.contents.reverse()
            return name + ".contents.reverse()"
        if k == 9 and n > 1:
            w.contents.pop(b % n)
            return name + ".contents.pop"
        if k == 10:
            w.contents.extend([(new_leaf(b), opt), (new_leaf(b // 5), opt)][: 1 + b % 2])
            return name + ".contents.extend"
        if k == 11 and n:
            w.contents.sort(key=lambda t: (type(t[0]).__name__, len(repr(t[0]))), reverse=bool(b % 2))
            return name + ".contents.sort"
        if k == 12 and n > 1:
            w.contents.remove(w.contents[b % n])
            return name + ".contents.remove"
        if k == 13 and n:
            w.contents += [(new_leaf(b), opt)]
            return name + ".contents.iadd"
        if k >= 8:
            return None
        if k == 0 and n:
            w.focus_position = b % n
            return name + ".focus_position"
        if k == 1 and n > 1:
            del w.contents[b % n]
            return name + ".contents.del"
        if k == 2:
            w.contents.append((new_leaf(b), opt))
            return name + ".contents.append"
        if k == 3 and n:
            w.contents[b % n] = (new_leaf(b), w.contents[b % n][1])
            return name + ".contents.assign"
        if k == 4:
            w.contents.insert(b % (n + 1), (new_leaf(b // 3), opt))
            return name + ".contents.insert"
        if k == 5 and n:
            if isinstance(w, urwid.GridFlow):
                return "GridFlow.cell_width" if setprop(w, "cell_width", 3 + b % 6) else None
            if isinstance(w, urwid.Columns):
                return "Columns.dividechars" if setprop(w, "dividechars", b % 3) else None
            w.contents[b % n] = (w.contents[b % n][0], w.options(["pack", "weight"][b % 2], [None, 1 + b % 3][b % 2]))
            return "Pile.contents.options"
        if k == 6 and n:
            if isinstance(w, urwid.GridFlow):
                if b % 3 == 0:
                    return "GridFlow.h_sep" if setprop(w, "h_sep", b % 4) else None
                if b % 3 == 1:
                    return "GridFlow.v_sep" if setprop(w, "v_sep", b % 2) else None
                return "GridFlow.align" if setprop(w, "align", ["left", "center", "right"][b % 3]) else None
            if isinstance(w, urwid.Columns):
                i = b % n
                ch = w.contents[i][0]
                o = [w.options("pack"), w.options("weight", 1 + b % 3), w.options("given", 3 + b % 5)][b % 3]
                w.contents[i] = (ch, o)
                return "Columns.contents.options"
            w.contents[:] = list(reversed(w.contents))
            return "Pile.contents.reverse"
        if k == 7 and n:
            sz = size[:1]
            w.keypress(sz, KEYS[b % len(KEYS)])
            return name + ".keypress"
        return None
    if isinstance(w, urwid.LineBox):
        k = a % 3
        if k == 0:
            w.set_title(["", "T2", "a longer title"][b % 3])
            return "LineBox.set_title"
        if k == 1:
            return "LineBox.original_widget" if setprop(w, "original_widget", new_leaf(b)) else None
        return None
    if isinstance(w, urwid.AttrMap):
        k = a % 5
        if k == 0:
            w.set_attr_map({None: ["p", "q", None][b % 3]})
            return "AttrMap.set_attr_map"
        if k == 1:
            w.set_focus_map([{None: "fp"}, {None: "fq"}, None, {"attr": "fm"}][b % 4])
            return "AttrMap.set_focus_map" + ("(None)" if b % 4 == 2 else "")
        if k == 3:
            return "AttrMap.focus_map" if setprop(w, "focus_map", [None, {None: "fr"}][b % 2]) else None
        if k == 4:
            return "AttrMap.attr_map" if setprop(w, "attr_map", {None: ["r", None][b % 2], "attr": "am"}) else None
        if "flow" in w.original_widget.sizing():
            return "AttrMap.original_widget" if setprop(w, "original_widget", new_leaf(b)) else None
        return None
    if isinstance(w, urwid.Padding):
        k = a % 5
        if k == 0:
            return "Padding.align" if setprop(w, "align", ["left", "center", "right"][b % 3]) else None
        if k == 1:
            return "Padding.width" if setprop(w, "width", [("relative", 50), ("relative", 100), "pack", 4, "clip"][b % 5]) else None
        if k == 2:
            return "Padding.left" if setprop(w, "left", b % 3) else None
        if k == 3:
            return "Padding.right" if setprop(w, "right", b % 3) else None
        return "Padding.original_widget" if setprop(w, "original_widget", new_leaf(b)) else None
    if isinstance(w, urwid.BoxAdapter):
        return "BoxAdapter.height" if setprop(w, "height", 1 + b % 5) else None
    if isinstance(w, urwid.WidgetPlaceholder):
        return "WidgetPlaceholder.original_widget" if setprop(w, "original_widget", new_leaf(b)) else None
    if isinstance(w, urwid.Filler):
        k = a % 3
        if k == 0:
            return "Filler.valign" if setprop(w, "valign", ["top", "middle", "bottom"][b % 3]) else None
        if k == 1:
            return "Filler.top" if setprop(w, "top", b % 2) else None
        return "Filler.original_widget" if setprop(w, "original_widget", new_leaf(b)) else None
    if isinstance(w, urwid.ListBox):
        n = len(w.body)
        k = a % 16
        lsize = (size[0], BOXROWS[(b // 8) % 3])
        if k == 13 and n:
            w.shift_focus(lsize, b % 8 - 4)
            return "ListBox.shift_focus"
        if k == 14 and n:
            w.change_focus(lsize, (b // 24) % n, b % 8 - 4, [None, "above", "below"][b % 3])
            return "ListBox.change_focus"
        if k == 15 and n:
            w.make_cursor_visible(lsize)
            return "ListBox.make_cursor_visible"
        if k == 7 and n:
            w.body.reverse()
            return "ListBox.body.reverse()"
        if k == 8 and n > 1:
            w.body.pop(b % n)
            return "ListBox.body.pop"
        if k == 9:
            w.body.insert(b % (n + 1), new_leaf(b))
            return "ListBox.body.insert"
        if k == 10:
            w.body.extend([new_leaf(b), new_leaf(b // 5)][: 1 + b % 2])
            return "ListBox.body.extend"
        if k == 11 and n:
            w.body.sort(key=lambda x: (type(x).__name__, len(repr(x))), reverse=bool(b % 2))
            return "ListBox.body.sort"
        if k == 12 and n > 1:
            w.body[:] = list(w.body)[b % n:] + list(w.body)[: b % n]
            return "ListBox.body.rotate"
        if k == 0 and n:
            w.set_focus(b % n)
            return "ListBox.set_focus"
        if k == 1:
            w.body.append(new_leaf(b))
            return "ListBox.body.append"
        if k == 2 and n > 1:
            del w.body[b % n]
            return "ListBox.body.del"
        if k == 3 and n:
            w.body[b % n] = new_leaf(b)
            return "ListBox.body.assign"
        if k == 4 and n:
            w.set_focus_valign(["top", "middle", "bottom"][b % 3])
            return "ListBox.set_focus_valign"
        if k == 5:
            w.keypress((size[0], BOXROWS[a % 3]), KEYS[b % len(KEYS)])
            return "ListBox.keypress"
        if k == 6:
            w.mouse_event((size[0], BOXROWS[a % 3]), "mouse press", [1, 4, 5][b % 3], b % size[0], 0, True)
            return "ListBox.mouse_event"
        return None
    if isinstance(w, urwid.Frame):
        k = a % 4
        if k == 0:
            return "Frame.header" if setprop(w, "header", [None, new_leaf(b)][b % 2]) else None
        if k == 1:
            return "Frame.footer" if setprop(w, "footer", [None, new_leaf(b)][b % 2]) else None
        if k == 2:
            return "Frame.focus_position" if setprop(w, "focus_position", ["body", "header", "footer"][b % 3]) else None
        w.keypress((size[0], 5), KEYS[b % len(KEYS)])
        return "Frame.keypress"
    if isinstance(w, urwid.Overlay):
        w.set_overlay_parameters(["left", "center", "right"][b % 3], ("relative", 40 + b % 50), "middle", "pack")
        return "Overlay.set_overlay_parameters"
    if isinstance(w, urwid.BarGraph):
        k = a % 3
        if k == 0:
            w.set_data([(1 + b % 3,), (b % 4,), (2,)], 3)
            return "BarGraph.set_data"
        if k == 1:
            w.set_segment_attributes(["bg", ["a", "x"][b % 2], ["b", "y"][b // 2 % 2]])
            return "BarGraph.set_segment_attributes"
        w.set_bar_width([None, 1, 2][b % 3])
        return "BarGraph.set_bar_width"
    if isinstance(w, urwid.GraphVScale):
        w.set_scale([(1 + b % 3, "z"), (2, "y")][: 1 + b % 2], 4)
        return "GraphVScale.set_scale"
    if isinstance(w, urwid.Scrollable):
        w.set_scrollpos(b % 4)
        return "Scrollable.set_scrollpos"
    return None


# ---------- proposed patches, applied in-process to ATTRIBUTE a violation to a recorded root cause ----------
# A violation is tagged [root cause: X] only if it disappears when the proposed patch X is applied (never edits /repo).
@contextlib.contextmanager
def shim(names):
    import urwid
    from urwid import CanvasCache, CompositeCanvas
    from urwid.widget import widget as wm
    saved = []
    SHIMS_ACTIVE[0] += 1

    def patch(cls, attr, val):
        saved.append((cls, attr, cls.__dict__[attr]))
        setattr(cls, attr, val)
    try:
        if "store-checks-widget-not-canvas" in names or "pile-hidden-child" in names or "columns-hidden-child" in names \
                or "frame-hidden-child" in names or "overlay-hidden-top" in names:
            orig_store = CanvasCache.__dict__["store"].__func__

            def kids(canv):
                for _x, _y, c, _pos in getattr(canv, "children", ()):
                    if c.widget_info:
                        yield c
                    elif hasattr(c, "children"):
                        yield from kids(c)

            def store(cls, wcls, canvas):
                if canvas.cacheable:
                    for c in kids(canvas):
                        if not any(r() is c for r in cls._widgets.get(c.widget_info[0], {}).values()):
                            return None
                return orig_store(cls, wcls, canvas)
            patch(CanvasCache, "store", classmethod(store))
        if "scrollable-render-moves-scrollpos" in names:
            sc_fn = urwid.Scrollable.render.original_fn

            def sc_render(self, size, focus=False):
                before = self._trim_top
                canv = sc_fn(self, size, focus)
                if self._trim_top != before:
                    self._invalidate()          # canvases cached for other sizes show the old scroll position
                return canv
            patch(urwid.Scrollable, "render", sc_render)
            setattr(urwid.Scrollable, "render", wm.cache_widget_render(urwid.Scrollable))
        if "pile-hidden-child" in names:
            pile_fn = urwid.Pile.render.original_fn

            def pile_render(self, size, focus=False):
                canv = pile_fn(self, size, focus)
                if id(self) in PUBLIC_IDS and any(h <= 0 for h in self.get_rows_sizes(size, focus)[1]):
                    canv = CompositeCanvas(canv)
                    canv.cacheable = False
                return canv
            patch(urwid.Pile, "render", pile_render)
            setattr(urwid.Pile, "render", wm.cache_widget_render(urwid.Pile))
        if "frame-hidden-child" in names:
            frame_fn = urwid.Frame.render.original_fn

            def frame_render(self, size, focus=False):
                canv = frame_fn(self, size, focus)
                parts = [p for p in (self.header, self.body, self.footer) if p is not None]
                if len(canv.children) < len(parts):
                    canv = CompositeCanvas(canv)
                    canv.cacheable = False
                return canv
            patch(urwid.Frame, "render", frame_render)
            setattr(urwid.Frame, "render", wm.cache_widget_render(urwid.Frame))
        if "overlay-hidden-top" in names:
            ov_fn = urwid.Overlay.render.original_fn

            def ov_render(self, size, focus=False):
                canv = ov_fn(self, size, focus)
                if len(canv.children) < 2:      # the top widget was not rendered (empty bottom canvas)
                    canv = CompositeCanvas(canv)
                    canv.cacheable = False
                return canv
            patch(urwid.Overlay, "render", ov_render)
            setattr(urwid.Overlay, "render", wm.cache_widget_render(urwid.Overlay))
        if "columns-hidden-child" in names:
            cols_fn = urwid.Columns.render.original_fn

            def cols_render(self, size, focus=False):
                canv = cols_fn(self, size, focus)
                widths = self.get_column_sizes(size, focus)[0]
                if id(self) in PUBLIC_IDS and (len(widths) < len(self.contents) or any(w <= 0 for w in widths)):
                    canv = CompositeCanvas(canv)
                    canv.cacheable = False
                return canv
            patch(urwid.Columns, "render", cols_render)
            setattr(urwid.Columns, "render", wm.cache_widget_render(urwid.Columns))
        yield
    finally:
        SHIMS_ACTIVE[0] -= 1
        for cls, attr, val in reversed(saved):
            setattr(cls, attr, val)


# the recorded, unrepaired defects (cache-design changes).  Defects repaired in /repo (Edit/Text focus-blind cache entry,
# ListBox.set_focus_valign, GraphVScale.set_scale, BarGraph.set_segment_attributes, GridFlow.pack) have no shim any more:
# if one of them comes back it is reported as [root cause: unexplained], i.e. as a new violation.
PUBLIC_IDS = set()     # ids of the widgets reachable through public attributes from the tree under test


ROOT_CAUSES = [["store-checks-widget-not-canvas"], ["pile-hidden-child"], ["columns-hidden-child"], ["frame-hidden-child"], ["overlay-hidden-top"],
               ["scrollable-render-moves-scrollpos"]]


SHIMS_ACTIVE = [0]
LAST_TRACE = {}


class Tracer:
    """Records every call of the CanvasCache primitives made while real widgets render: the input of the second
    sub-model of Model/Cache.v (widgets, keys and canvases interned to integers)."""

    def __init__(self):
        self.ev, self.fetched, self.dumps = [-2], [], []
        self.w, self.keepw, self.k, self.c, self.refc = {}, [], {}, {}, {}
        self.ncid, self.depth, self.quiet = 0, 0, False
        self.saved = []

    def wid(self, w):
        i = self.w.get(id(w))
        if i is None:
            i = self.w[id(w)] = len(self.keepw)
            self.keepw.append(w)            # keeps id(w) unique for the whole run
        return i

    def kid(self, key):
        return self.k.setdefault(key, len(self.k))

    def install(self):
        from urwid import CanvasCache
        T = self
        orig = {n: CanvasCache.__dict__[n] for n in ("store", "fetch", "invalidate", "cleanup", "clear")}
        self.saved = list(orig.items())
        o_store, o_fetch, o_inval, o_cleanup, o_clear = (orig[n].__func__ for n in ("store", "fetch", "invalidate", "cleanup", "clear"))

        def walk_depends(canv):
            out = []
            for _x, _y, c, _pos in canv.children:
                if c.widget_info:
                    out.append(c.widget_info[0])
                elif hasattr(c, "children"):
                    out.extend(walk_depends(c))
            return out

        def store(cls, wcls, canvas):
            if canvas.widget_info:
                widget, size, focus = canvas.widget_info
                dep = getattr(canvas, "depends_on", None)
                if dep is None and hasattr(canvas, "children"):
                    dep = walk_depends(canvas)
                cid = T.ncid
                T.ncid += 1
                T.c[id(canvas)] = cid
                T.ev += [1, T.wid(widget), T.kid((wcls, size, focus)), cid, int(bool(canvas.cacheable)), len(dep or ())]
                T.ev += [T.wid(x) for x in (dep or ())]
            r = o_store(cls, wcls, canvas)
            if canvas.widget_info:
                ref = cls._widgets.get(widget, {}).get((wcls, size, focus))
                if ref is not None and ref() is canvas:
                    T.refc[id(ref)] = cid
            return r

        def fetch(cls, widget, wcls, size, focus):
            r = o_fetch(cls, widget, wcls, size, focus)
            T.ev += [2, T.wid(widget), T.kid((wcls, size, focus))]
            T.fetched.append(-1 if r is None else T.c.get(id(r), -2))
            return r

        def invalidate(cls, widget):
            if T.depth == 0:
                T.ev += [3, T.wid(widget)]
            T.depth += 1
            try:
                return o_inval(cls, widget)
            finally:
                T.depth -= 1

        def cleanup(cls, ref):
            cid = T.refc.pop(id(ref), None)
            if cid is not None:
                T.ev += [4, cid]
            T.depth += 1
            try:
                return o_cleanup(cls, ref)
            finally:
                T.depth -= 1

        def clear(cls):
            if not T.quiet:
                T.ev.append(5)
            return o_clear(cls)
        for n, f in (("store", store), ("fetch", fetch), ("invalidate", invalidate), ("cleanup", cleanup), ("clear", clear)):
            setattr(CanvasCache, n, classmethod(f))

    def uninstall(self):
        from urwid import CanvasCache
        for n, v in self.saved:
            setattr(CanvasCache, n, v)

    @staticmethod
    def digest(ws, ds, nrefs):
        import hashlib
        return [len(ws), len(ds), nrefs, hashlib.sha1(core.canon([sorted(ws), sorted(ds), nrefs]).encode()).hexdigest()[:10]]

    def dump(self):
        from urwid import CanvasCache
        self.ev.append(8)
        ws = [[self.wid(w), self.kid(key)] for w, sizes in CanvasCache._widgets.items() for key in sizes]
        ds = [[self.wid(w), [self.wid(x) for x in l]] for w, l in CanvasCache._deps.items()]
        self.dumps.append(self.digest(ws, ds, len(CanvasCache._refs)))

    def result(self):
        import hashlib
        return {"nfetch": len(self.fetched), "fetched": hashlib.sha1(core.canon(self.fetched).encode()).hexdigest()[:10],
                "dumps": self.dumps}


def run_real(case):
    import urwid
    from urwid import CanvasCache
    urwid.set_encoding("utf-8")
    CanvasCache.clear()
    gc.collect()
    tracer = None
    if not SHIMS_ACTIVE[0] and not case.get("probe_c11"):
        tracer = Tracer()
        tracer.install()
    try:
        return run_real_traced(case, tracer)
    finally:
        if tracer is not None:
            tracer.uninstall()
            LAST_TRACE.clear()
            LAST_TRACE[core.canon(case)] = tracer


def run_real_traced(case, tracer):
    import urwid
    from urwid import CanvasCache
    top = build_real(case["tree"])
    PUBLIC_IDS.clear()
    PUBLIC_IDS.update(id(x) for x in walk(top))
    keep, snaps, outs, muts = [], [], [], []
    mode = case.get("mode", "swap")
    c11 = []

    def probe_c11():
        """widgets whose rows() disagrees with their own canvas, no cache involved (diagnosis runs only)"""
        saved = (CanvasCache._widgets, CanvasCache._refs, CanvasCache._deps)
        for w in walk(top):
            if "flow" not in w.sizing():
                continue
            for mc in SIZES:
                for fo in (False, True):
                    try:
                        CanvasCache.clear()
                        r = w.rows((mc,), fo)
                        CanvasCache.clear()
                        if r != w.render((mc,), fo).rows():
                            c11.append(type(w).__name__)
                    except Exception:       # noqa: BLE001
                        pass
        CanvasCache._widgets, CanvasCache._refs, CanvasCache._deps = saved
    try:
        for op in case["ops"]:
            o = {"op": op[0]}
            if op[0] in ("render", "rsub") and case.get("probe_c11"):
                probe_c11()
            if op[0] in ("render", "rsub"):
                size = (SIZES[op[1] % len(SIZES)],)
                focus = bool(op[2])
                real_top = top
                o["on"] = type(top).__name__
                if op[0] == "rsub":
                    ws = walk(top)
                    top = ws[op[4] % len(ws)]
                    del ws
                    o["on"] = type(top).__name__
                    sizing = top.sizing()
                    if "flow" not in sizing:
                        size = (size[0], BOXROWS[op[4] % 3]) if "box" in sizing else ()
                r0 = None
                try:
                    if len(size) == 1:
                        r0 = top.rows(size, focus)
                except Exception as e:      # noqa: BLE001
                    r0 = "Exc:" + type(e).__name__
                try:
                    c1 = top.render(size, focus)
                    d1 = content_of(c1)
                    r1 = top.rows(size, focus) if len(size) == 1 else c1.rows()
                except Exception as e:      # noqa: BLE001
                    o["exc"] = type(e).__name__
                    c1 = d1 = r1 = None
                if op[3] and c1 is not None:
                    keep.append(c1)
                    snaps.append((c1, d1))
                    keep = keep[-3:]
                    snaps = [s for s in snaps if any(s[0] is k for k in keep)]
                # the same request with the cache emptied first
                saved = (CanvasCache._widgets, CanvasCache._refs, CanvasCache._deps)
                if tracer is not None and mode == "swap":
                    tracer.ev.append(6)
                    tracer.quiet = True
                CanvasCache.clear()
                if tracer is not None:
                    tracer.quiet = False
                try:
                    r2 = top.rows(size, focus) if len(size) == 1 else None
                    c2 = top.render(size, focus)
                    d2 = content_of(c2)
                    r3 = c2.rows()
                    r2 = r3 if r2 is None else r2
                except Exception as e:      # noqa: BLE001
                    o["exc_fresh"] = type(e).__name__
                    d2, r2, r3, c2 = None, None, None, None
                if mode == "swap":
                    del c2                      # the fresh canvases die while the empty cache is installed
                    CanvasCache._widgets, CanvasCache._refs, CanvasCache._deps = saved
                    if tracer is not None:
                        tracer.ev.append(7)
                else:
                    if op[3] and c2 is not None:
                        keep.append(c2)
                    del c2
                del saved
                if d2 is not None and d1 is not None:
                    o["same"] = d1 == d2
                    o["rows"] = [r1, r2, r3, r0]
                    if d1 != d2:
                        o["cached"], o["fresh"] = summarize(d1), summarize(d2)
                del c1
                top = real_top
                del real_top
            elif op[0] == "mut":
                ws = walk(top)
                w = ws[op[1] % len(ws)]
                o["on"] = type(w).__name__
                try:
                    o["what"] = mutate_real(w, op[2], op[3], (SIZES[op[4] % len(SIZES)],))
                except Exception as e:      # noqa: BLE001  misuse of an API is not the subject here
                    o["what"] = None
                    o["mexc"] = type(e).__name__
                del ws, w
                PUBLIC_IDS.clear()
                PUBLIC_IDS.update(id(x) for x in walk(top))
            elif op[0] == "gc":
                # the dropped canvases become garbage together, through a reference cycle: the cycle collector finds them
                # dead in ONE pass and runs their weakref callbacks in its own order (not parent-before-child)
                n = op[1] % (len(keep) + 1)
                cyc = [keep[:n]]
                cyc.append(cyc)
                keep = keep[n:]
                snaps = [s for s in snaps if any(s[0] is k for k in keep)]
                del cyc
                gc.collect()
            elif op[0] == "clear":
                CanvasCache.clear()
            outs.append(o)
            if tracer is not None:
                tracer.dump()
        frozen = [i for i, (c, d) in enumerate(snaps) if content_of(c) != d]
        c11 = sorted(set(c11))
    finally:
        del keep, snaps
        CanvasCache.clear()
    res = {"outs": outs, "frozen": frozen}
    if case.get("probe_c11"):
        res["c11"] = c11
    if tracer is not None:
        res["cache"] = tracer.result()
    return res


def summarize(d):
    rows, cur = d
    return {"text": ["".join(seg[2] for seg in r) for r in rows][:12], "cursor": cur,
            "attrs": sorted({seg[0] for r in rows for seg in r})[:8]}


# ======================================================================================
class C06(core.Check):
    pid = "C06"
    gen_modules = ["c06_mutators"]
    model_targets = ["theories/Model/Cache.vo"]
    prop_file = "theories/Properties/C06.v"
    extract_v = "Extract/C06X.v"
    allowed_axioms = set()
    design_ref = "DESIGN.md section 5, C06"
    technique = ("Coq theorems (invariant Fresh via DepsComplete over a ghost list of all canvases, induction over operation "
                 "histories with an unconstrained collector) about a line-by-line model of CanvasCache and the render/rows wrappers "
                 "with the widgets' render bodies left uninterpreted; a Coq-checked table of the public mutators regenerated from "
                 "the sources; extracted-model correspondence (a) of the whole cached-render machinery on real containers around spy "
                 "leaves and (b) of the CanvasCache primitives on the call trace of EVERY real-widget case; end-to-end oracle "
                 "(cached vs cache-emptied render) on random and exhaustive small-scope histories over the bundled widgets")
    level_text = ("Proved in Coq for EVERY render function (an uninterpreted program that may ask for child renders and go on "
                  "with what they return), every history of Render/Rows/Mutate/Collect/Clear and every fuel, where Collect may "
                  "free ANY live canvas (nothing is assumed about which canvases a canvas keeps alive): every cached canvas "
                  "equals the cache-less render under the current versions (fresh_invariant, via deps_complete), hence rendering "
                  "with the cache = rendering with the cache emptied first (cache_invisible), a change is visible in the next "
                  "render of every widget (change_visible), rows() through the cache = rows() without it given rows()/render "
                  "consistency (rows_from_cache_ok), live canvases are never altered (finalized_never_mutated); fuel above the "
                  "widget rank always suffices and CanvasCache.invalidate / cleanup terminate within their fuel.  Also Coq-checked, "
                  "against a table regenerated from the widget sources every run: every public method / property setter of the "
                  "bundled widget classes that writes widget state syntactically reaches _invalidate (2 commented exemptions).  "
                  "Premises: acyclic widget graph; a canvas depends only on its own version and the child canvases it asked for "
                  "(= its depends_on); every state change comes with _invalidate; every canvas cacheable.  REFUTED without the "
                  "last premise (cache_invisible_full_refuted; the witness is replayed on the implementation and is a recorded "
                  "finding).  Correspondence: the model is compared exactly with the implementation on every case - the full "
                  "cached render/rows/mutate/collect machinery on real AttrMap/Padding/Pile/Columns trees over spy leaves, and the "
                  "CanvasCache primitives (store with the real depends_on lists, fetch results, invalidate, weakref cleanup order, "
                  "clear) on the call trace recorded while the bundled widgets render.  Oracle only: that the bundled widgets "
                  "meet the premises at run time (random and exhaustive small-scope histories through their public mutators, "
                  "keypress/mouse_event, contents and walker edits; recorded findings where they do not: hidden zero-size "
                  "children of Pile/Columns/Frame/Overlay, Scrollable moving its scroll position inside render).")
    level_note = ("Trusted: Coq kernel, ExtrOcamlBasic extraction + OCaml driver, the hand-written model of CanvasCache and the "
                  "wrappers (validated by the two correspondences, not proved against Python), the syntactic mutator scan "
                  "(tools/py2v/mods/c06_mutators.py), the call-trace recorder, the Python oracle.  The widgets' own layout "
                  "caches (Text._cache_maxcol, ...) are covered by the oracle only.")
    rule = ("bk cases = (tree of real AttrMap/Padding/Pile/Columns and a size-switching spy container over spy leaves whose height "
            "depends on focus, some with ignore_focus or no_cache render; op list of render(widget,maxcol,focus,slot)/rows/mutate/"
            "drop slot/clear), compared exactly with the extracted model after every op; real cases = (tree of bundled widgets, op "
            "list of render(size,focus,keep)/render of a sub-widget/public mutation/gc/clear) from random generation and four "
            "exhaustive small-scope families (every mutation selector x argument form per widget kind; every list operation of "
            "contents lists and walkers at every focus; zero-size children under every decoration; ListBox scroll positions at two "
            "widths), judged by cached-vs-cache-emptied render AND with the recorded CanvasCache call trace replayed in the "
            "extracted model (fetch results and cache dumps after every op compared).  non-trivial = a bk case that had cached "
            "entries, a real case with >= 1 applied mutation and >= 1 compared render; distinct by hash of (case, outcome)")
    correspondence_name = "cached-render machinery on spy trees + CanvasCache primitive call traces of all real-widget cases"
    trusted_base = [
        "Coq 8.16.1 kernel (coqc; vm_compute used only for the closed witness examples)",
        "extraction: ExtrOcamlBasic only; Z/positive stay Coq datatypes; OCaml 4.13.1",
        "tools/driver/driver.ml (int <-> Z conversion, line I/O)",
        "hand-written Model/Cache.v: CanvasCache.store/fetch/invalidate/cleanup/clear, cache_widget_render/rows "
        "(validated by the bookkeeping correspondence, not proved against Python)",
        "table-driven instance in Model/Cache.v for which children a real AttrMap/Padding/Pile/Columns renders at which size/focus",
        "CPython reference counting + weakref callbacks decide WHICH canvases die in the correspondence runs (the theorems "
        "allow any live canvas to die)",
        "tools/py2v/mods/c06_mutators.py: the syntactic scan producing Gen/c06_mutators_gen.v (which methods write state, which reach _invalidate)",
        "the CanvasCache call-trace recorder (class Tracer) incl. its copy of store's depends_on computation",
        "Python oracle and widget generators in harness/props/c06.py",
    ]
    assumptions = [
        "the widget graph is acyclic (a widget never displays itself)",
        "a widget's canvas is a function of its own state, the render key and the canvases of the children it asked for, and "
        "those children are what it registers as depends_on (nothing is assumed about which canvases stay alive)",
        "every change of a widget's own state is followed by self._invalidate(): for the public methods and property setters of "
        "the bundled widget classes this is a Coq-checked obligation over a table regenerated from the sources every run "
        "(syntactic reachability; 2 commented exemptions); input handlers and run-time behaviour are checked by the oracle",
        "every canvas is cacheable and no class lists 'render' in no_cache (without this the theorem is refuted: finding)",
        "rows_from_cache_ok additionally assumes rows() == render().rows() for every widget (property C11)",
        "plain public attributes without a setter (Divider.top, BoxAdapter.height, Padding.left/right) are not mutators",
    ]

    # ---------- implementation ----------
    last_real_res = None

    def run_impl(self, case):
        res = self.execute(case)
        if case.get("kind") != "bk":
            self.last_real_res = res
        return res

    def execute(self, case):
        # exceptions raised inside weakref callbacks (CanvasCache.cleanup) cannot propagate: Python hands them to
        # sys.unraisablehook.  They are invisible in every render, so they are collected here and judged by the oracle.
        import sys
        swallowed = []

        def hook(u):
            where = getattr(u.object, "__qualname__", None) or type(u.object).__name__
            swallowed.append(f"{type(u.exc_value).__name__} in {where}")
        old_hook = sys.unraisablehook
        sys.unraisablehook = hook
        try:
            res = run_bk(case) if case.get("kind") == "bk" else run_real(case)
        finally:
            sys.unraisablehook = old_hook
        res["unraisable"] = sorted(set(swallowed))
        return res

    # ---------- model wire format ----------
    def encode(self, case):
        if case.get("kind") != "bk":
            t = LAST_TRACE.get(core.canon(case))
            return list(t.ev) if t is not None else None
        l = [len(case["nodes"])]
        for n in case["nodes"]:
            cfgs = n.get("configs", [])
            l += [n["id"], KIND[n["k"]], n.get("l", 0), n.get("r", 0), n.get("ignf", 0), n.get("cache", 1)]
            l += [len(n.get("widths", []))] + list(n.get("widths", []))
            l.append(len(cfgs))
            for ch, fp in cfgs:
                l += [len(ch)] + list(ch) + [fp]
        l.append(len(case["ops"]))
        for op in case["ops"]:
            if op[0] == "render":
                l += [1, op[1], op[2], op[3], op[4]]
            elif op[0] == "rows":
                l += [2, op[1], op[2], op[3]]
            elif op[0] == "mut":
                l += [3, op[1], op[2]]
            elif op[0] == "drop":
                l += [4, op[1]]
            else:
                l += [5]
        return l

    def decode_trace(self, case, ints):
        """The reply of the trace sub-model, in the shape of the "cache" part of the implementation result."""
        import hashlib
        t = LAST_TRACE.get(core.canon(case))
        it = iter(ints)
        fetched, dumps = [], []
        ev, i = t.ev, 1
        try:
            while i < len(ev):
                o = ev[i]
                if o == 1:
                    i += 6 + ev[i + 5]
                elif o == 2:
                    fetched.append(next(it))
                    i += 3
                elif o in (3, 4):
                    i += 2
                elif o == 8:
                    nw = next(it)
                    ws = [[next(it), next(it)] for _ in range(nw)]
                    nd = next(it)
                    ds = []
                    for _ in range(nd):
                        w = next(it)
                        k = next(it)
                        ds.append([w, [next(it) for _ in range(k)]])
                    dumps.append(Tracer.digest(ws, ds, next(it)))
                    i += 1
                else:
                    i += 1
        except StopIteration:
            return {"malformed": ints[:60]}
        return {"nfetch": len(fetched), "fetched": hashlib.sha1(core.canon(fetched).encode()).hexdigest()[:10], "dumps": dumps}

    def decode(self, case, ints):
        if case.get("kind") != "bk":
            # only the cache bookkeeping is the model's business here: everything else is the implementation's own result
            res = dict(self.last_real_res)
            res["cache"] = self.decode_trace(case, ints)
            return res
        it = iter(ints)
        outs = []
        try:
            for op in case["ops"]:
                r = None
                if op[0] == "render":
                    if next(it) == 1:
                        rows = next(it)
                        n = next(it)
                        flat = [next(it) for _ in range(n)]
                        r = [rows, sorted([flat[i], flat[i + 1] % 36, flat[i + 2]] for i in range(0, n, 3))]
                    else:
                        r = "nofuel"
                elif op[0] == "rows":
                    r = ["rows", next(it)] if next(it) == 1 else "nofuel"
                nw = next(it)
                ws = sorted([next(it), next(it)] for _ in range(nw))
                nd = next(it)
                ds = []
                for _ in range(nd):
                    w = next(it)
                    k = next(it)
                    ds.append([w, [next(it) for _ in range(k)]])
                outs.append({"widgets": ws, "deps": sorted(ds), "nrefs": next(it), "r": r})
        except StopIteration:
            return {"malformed": ints[:60]}
        return {"outs": outs, "frozen": [], "unraisable": []}

    # ---------- generators ----------
    @staticmethod
    def gen_bk(rng, nops=None):
        nl = rng.choice([1, 2, 2, 3, 4])
        nodes = []
        need = {}
        for i in range(nl):
            nc = rng.random() < 0.12
            nodes.append({"id": i, "k": "leaf", "ignf": 0 if nc else int(rng.random() < 0.3), "cache": 0 if nc else 1})
            need[i] = 3
        ncont = rng.choice([1, 2, 3, 3, 4, 5])
        for j in range(ncont):
            i = nl + j
            for _attempt in range(20):
                k = rng.choice(["attr", "pad", "pile", "pile", "cols", "switch"])
                n = {"id": i, "k": k}
                ncfg = rng.choice([1, 1, 2, 3])
                pool = list(range(i))
                if k in ("attr", "pad"):
                    n["configs"] = [[[rng.choice(pool)], 0] for _ in range(ncfg)]
                    if k == "pad":
                        n["l"], n["r"] = rng.choice([0, 1]), rng.choice([0, 1, 2])
                    nd = max(need[c[0][0]] for c in n["configs"]) + n.get("l", 0) + n.get("r", 0)
                elif k in ("pile", "switch"):
                    if k == "switch":
                        n["l"] = rng.choice([10, 14, 18])
                    n["configs"] = []
                    for _ in range(ncfg):
                        m = min(len(pool), rng.choice([1, 2, 2, 3]))
                        ch = rng.sample(pool, m)
                        n["configs"].append([ch, rng.randrange(m)])
                    nd = max(need[x] for c in n["configs"] for x in c[0])
                else:
                    m = min(len(pool), rng.choice([1, 2, 2, 3]))
                    n["widths"] = [rng.choice([3, 4, 5, 7]) for _ in range(m)]
                    n["configs"] = []
                    ok = True
                    for _ in range(ncfg):
                        ch = rng.sample(pool, m)
                        ok = ok and all(need[x] <= wd for x, wd in zip(ch, n["widths"]))
                        n["configs"].append([ch, rng.randrange(m)])
                    if not ok:
                        continue
                    nd = sum(n["widths"])
                if nd <= 20:
                    break
            else:
                n = {"id": i, "k": "attr", "configs": [[[0], 0]]}
                nd = need[0]
            nodes.append(n)
            need[i] = nd
        ops = []
        tot = nl + ncont
        for _ in range(nops or rng.choice([4, 6, 8, 10, 14])):
            x = rng.random()
            # bias towards the upper part of the tree
            w = rng.choice([tot - 1, tot - 1, rng.randrange(tot), rng.randrange(nl, tot)])
            mcs = [m for m in (12, 16, 20, 9) if m >= need[w]] or [20]
            if x < 0.45:
                ops.append(["render", w, rng.choice(mcs), rng.choice([0, 1]), rng.choice([-1, 0, 0, 1, 2])])
            elif x < 0.55:
                ops.append(["rows", w, rng.choice(mcs), rng.choice([0, 1])])
            elif x < 0.83:
                w = rng.choice([rng.randrange(nl), rng.randrange(tot)])
                ops.append(["mut", w, rng.randrange(0, 30)])
            elif x < 0.96:
                ops.append(["drop", rng.choice([0, 0, 1, 2])])
            else:
                ops.append(["clear"])
        return {"kind": "bk", "nodes": nodes, "ops": ops}

    @staticmethod
    def gen_tree(rng, d):
        def leaf():
            k = rng.randrange(9)
            return [["text", rng.randrange(7), rng.randrange(4)], ["edit", rng.randrange(7), rng.randrange(2)],
                    ["checkbox", rng.randrange(2)], ["button", rng.randrange(7)], ["divider", rng.randrange(2), rng.randrange(2)],
                    ["intedit", rng.randrange(1000)], ["progress", rng.randrange(101)], ["radio", rng.randrange(3)],
                    ["text", 4, 0]][k]

        def flow(d):
            if d == 0 or rng.random() < 0.25:
                return leaf()
            k = rng.randrange(11)
            if k == 0:
                return ["pile", [flow(d - 1) for _ in range(rng.randint(0, 3))]]
            if k == 1:
                n = rng.randint(1, 3)
                return ["columns", rng.randrange(2), [flow(d - 1) for _ in range(n)], [rng.choice([0, 0, 1, 2, 5, 6]) for _ in range(n)]]
            if k == 2:
                return ["gridflow", rng.randrange(6), rng.randrange(2), rng.randrange(2), [leaf() for _ in range(rng.randint(0, 4))]]
            if k == 3:
                return ["padding", rng.randrange(15), rng.randrange(3), flow(d - 1)]
            if k == 4:
                return ["attrmap", flow(d - 1)]
            if k == 5:
                return ["linebox", rng.randrange(3), flow(d - 1)]
            if k == 6:
                return ["boxadapter", rng.randrange(5), box(d - 1)]
            if k == 7:
                return ["wrap", flow(d - 1)]
            if k == 8:
                return ["placeholder", flow(d - 1)]
            return ["pile", [flow(d - 1) for _ in range(rng.randint(1, 3))]]

        def box(d):
            k = rng.randrange(9)
            if k == 8:
                return rng.choice([["bargraph", rng.randrange(3)], ["vscale", rng.randrange(2)]])
            if k <= 2 or d <= 0:
                return ["listbox", rng.randrange(2), [flow(max(0, d - 1)) for _ in range(rng.randint(1, 4))]]
            if k == 3:
                return ["filler", rng.randrange(3), flow(d - 1)]
            if k == 4:
                return ["frame", box(d - 1), flow(0) if rng.random() < 0.6 else 0, flow(0) if rng.random() < 0.4 else 0]
            if k == 5:
                return ["scrollable", flow(d - 1)]
            if k == 6:
                return ["overlay", flow(0), box(d - 1)]
            return ["boxattr", box(d - 1)]
        return flow(d)

    @classmethod
    def gen_real(cls, rng, nops=None):
        tree = cls.gen_tree(rng, rng.choice([1, 2, 2, 3]))
        ops = [["render", rng.randrange(4), rng.randrange(2), 1]]
        for _ in range(nops or rng.choice([6, 10, 16, 24])):
            x = rng.random()
            if x < 0.34:
                ops.append(["render", rng.choice([0, 0, 1, 2, 3]), rng.randrange(2), int(rng.random() < 0.7)])
            elif x < 0.44:
                ops.append(["rsub", rng.choice([0, 0, 1, 2, 3]), rng.randrange(2), int(rng.random() < 0.5), rng.randrange(40)])
            elif x < 0.9:
                ops.append(["mut", rng.randrange(40), rng.randrange(18), rng.randrange(72), rng.randrange(4)])
            elif x < 0.97:
                ops.append(["gc", rng.randrange(4)])
            else:
                ops.append(["clear"])
        ops.append(["render", ops[0][1], ops[0][2], 0])
        return {"kind": "real", "mode": rng.choice(["swap", "swap", "clear"]), "tree": tree, "ops": ops}

    @staticmethod
    def contents_edit_cases(tier):
        """Small scope, exhaustive: every list operation of the contents list / list walker, at every focus position, on
        containers of 2..4 distinct items: render, set focus, render, edit, render."""
        items = [["text", 0, 0], ["text", 1, 0], ["text", 3, 0], ["text", 5, 0], ["checkbox", 0]]
        for kind in ("pile", "columns", "gridflow", "listbox-focus-walker", "listbox-walker"):
            for n in ((2, 3, 4) if tier == "quick" else (1, 2, 3, 4, 5)):
                kids = items[:n]
                if kind == "pile":
                    tree, idx, nk = ["pile", kids], 0, 14
                elif kind == "columns":
                    tree, idx, nk = ["columns", 1, kids, [0]], 0, 14
                elif kind == "gridflow":
                    tree, idx, nk = ["gridflow", 2, 1, 0, kids], 0, 14
                else:
                    tree, idx, nk = ["boxadapter", 4, ["listbox", 1 if kind == "listbox-focus-walker" else 0, kids]], 1, 13
                for f in range(n):
                    for k in range(1, nk):
                        for b in ((0, 1) if tier == "quick" else (0, 1, 2, 3)):
                            yield {"kind": "real", "mode": "swap", "tree": tree,
                                   "ops": [["render", 2, 1, 1], ["mut", idx, 0, f, 2], ["render", 2, 1, 1],
                                           ["mut", idx, k, b, 2], ["render", 2, 1, 0], ["render", 2, 0, 0]]}

    @staticmethod
    def zero_size_child_cases(tier):
        """Small scope, exhaustive: a child that currently renders with zero columns / zero rows (empty Text, empty Pile)
        under every decoration and container (one and two levels), rendered, then the child gets content, rendered again
        (the whole tree and every sub-widget)."""
        import urwid
        empties = [["text", 4, 0], ["text", 4, 2], ["pile", []]]

        def wrappers(c):
            for m in range(5):
                yield ["padding", 3 * m, 0, c]
            yield ["padding", 4, 1, c]
            yield ["attrmap", c]
            yield ["linebox", 1, c]
            yield ["wrap", c]
            yield ["placeholder", c]
            yield ["pile", [c, ["text", 0, 0]]]
            yield ["pile", [["text", 0, 0], c]]
            yield ["columns", 0, [c, ["text", 0, 0]], [1, 0]]
            yield ["columns", 1, [["text", 0, 0], c], [0, 1]]
            yield ["columns", 0, [c, ["text", 0, 0]], [0, 0]]
            yield ["gridflow", 2, 0, 0, [c, ["text", 0, 0]]]
            yield ["boxadapter", 2, ["filler", 0, c]]
            yield ["boxadapter", 2, ["listbox", 1, [c, ["text", 0, 0]]]]
            yield ["boxadapter", 2, ["scrollable", c]]
            yield ["boxadapter", 2, ["frame", ["listbox", 0, [["text", 0, 0]]], c, 0]]
            yield ["boxadapter", 2, ["overlay", c, ["solid"]]]

        def is_empty(w):
            return (type(w) is urwid.Text and w.text == "") or (type(w) is urwid.Pile and not w.contents)
        for c in empties:
            trees = list(wrappers(c))
            if tier != "quick" or c == empties[0]:
                trees += [t2 for t in wrappers(c) for t2 in wrappers(t)][::(2 if tier == "quick" else 1)]
            for tree in trees:
                try:
                    ws = walk(build_real(tree))
                except Exception:       # noqa: BLE001  a combination the constructors refuse
                    continue
                idx = next((i for i, w in enumerate(ws) if is_empty(w)), None)
                if idx is None:
                    continue
                grow = [["mut", idx, 0, 1, 2], ["mut", idx, 0, 3, 2]] if c[0] == "text" else [["mut", idx, 2, 0, 2]]
                for g in grow:
                    for f in (0, 1):
                        ops = [["render", 2, f, 1], ["rsub", 2, f, 1, 1], g, ["render", 2, f, 1]]
                        ops += [["rsub", 2, f, 0, i] for i in range(min(len(ws), 4))]
                        yield {"kind": "real", "mode": "swap", "tree": tree, "ops": ops}

    @staticmethod
    def listbox_scroll_cases(tier):
        """Small scope, exhaustive: a ListBox whose focus widget is taller than the box, positioned with shift_focus /
        change_focus at one width, rendered at two widths (the stored inset is a fraction that scales with the height of
        the re-wrapped widget), positioned again at the other width, rendered again."""
        for hidx in (0, 1, 2):
            for wk in (0, 1):
                lb = ["listbox", wk, [["longtext", 0], ["text", 1, 0], ["longtext", 1]]]
                for tree, idx in ((["boxadapter", 2 * hidx, lb], 1),
                                  (["boxadapter", 2 * hidx, ["boxattr", lb]], 2)):
                    for sa, sb in ((1, 3), (2, 0), (0, 3), (1, 0), (3, 1), (2, 1)) if tier == "quick" else \
                            [(x, y) for x in range(4) for y in range(4) if x != y]:
                        for k in (1, 2, 3):
                            for api in (13, 14):
                                b = 8 * hidx + (4 - k)
                                yield {"kind": "real", "mode": "swap", "tree": tree,
                                       "ops": [["render", sa, 1, 1], ["mut", idx, api, b, sa], ["render", sa, 1, 1],
                                               ["render", sb, 1, 1], ["mut", idx, api, b, sb], ["render", sb, 1, 0],
                                               ["render", sa, 1, 0]]}

    @staticmethod
    def single_mutation_cases(tier):
        """Small scope, exhaustive: every public mutation the harness knows (every selector a, argument forms b) applied
        once to every kind of bundled widget and to its child, with focused and unfocused canvases cached before."""
        t0, e0 = ["text", 1, 0], ["edit", 1, 0]
        lb = ["listbox", 1, [["text", 0, 0], ["edit", 0, 0], ["text", 3, 0]]]
        kinds = [t0, e0, ["intedit", 7], ["checkbox", 0], ["radio", 1], ["button", 1], ["progress", 30],
                 ["attrmap", t0], ["attrmap", e0], ["linebox", 0, t0], ["linebox", 1, e0], ["padding", 1, 1, t0],
                 ["padding", 3, 0, t0], ["placeholder", t0], ["wrap", t0], ["pile", [t0, e0]], ["columns", 1, [t0, e0], [0, 1]],
                 ["gridflow", 2, 1, 0, [t0, e0]], ["boxadapter", 2, lb], ["boxadapter", 2, ["filler", 0, t0]],
                 ["boxadapter", 2, ["frame", lb, t0, e0]], ["boxadapter", 2, ["overlay", t0, ["solid"]]],
                 ["boxadapter", 2, ["scrollable", ["pile", [t0, t0, e0, t0]]]], ["boxadapter", 2, ["bargraph", 1]],
                 ["boxadapter", 2, ["vscale", 0]], ["boxadapter", 2, ["boxattr", lb]]]
        if tier == "quick":
            kinds = [k for k in kinds if k[0] not in ("wrap", "placeholder", "intedit", "radio")
                     and k not in (["padding", 3, 0, t0], ["linebox", 1, e0], ["attrmap", e0], ["boxadapter", 2, ["boxattr", lb]])]
        for tree in kinds:
            for idx in (0, 1):
                for a in range(18):
                    for b in (range(3) if tier == "quick" else range(8)):
                        yield {"kind": "real", "mode": "swap", "tree": tree,
                               "ops": [["render", 2, 0, 1], ["render", 2, 1, 1], ["mut", idx, a, b, 2],
                                       ["render", 2, 0, 0], ["render", 2, 1, 0]]}

    def cases(self, rng, tier):
        yield from self.single_mutation_cases(tier)
        yield from self.listbox_scroll_cases(tier)
        yield from self.contents_edit_cases(tier)
        yield from self.zero_size_child_cases(tier)
        nbk = 2000 if tier == "quick" else 20000
        for _ in range(nbk):
            yield self.gen_bk(rng)
        # directed: a container that is cached at one size only, over an uncacheable / shared child
        for _ in range(nbk // 10):
            yield self.gen_bk_directed(rng)
        nreal = 600 if tier == "quick" else 8000
        for _ in range(nreal):
            yield self.gen_real(rng)

    @staticmethod
    def gen_bk_directed(rng):
        nc = rng.random() < 0.5
        nodes = [{"id": 0, "k": "leaf", "ignf": int(rng.random() < 0.3), "cache": 1},
                 {"id": 1, "k": "leaf", "ignf": 0, "cache": 0 if nc else 1},
                 {"id": 2, "k": "switch", "l": 14, "configs": [[[0, 1], rng.randrange(2)], [[1, 0], 0]]},
                 {"id": 3, "k": rng.choice(["attr", "pile", "pad"]), "l": 1, "r": 1, "configs": [[[2], 0]]},
                 {"id": 4, "k": "pile", "configs": [[[3, 1], 0], [[3], 0]]}]
        ops = []
        for _ in range(rng.choice([5, 8, 12])):
            x = rng.random()
            if x < 0.55:
                ops.append(["render", rng.choice([2, 3, 3, 4]), rng.choice([12, 13, 16, 18]), rng.randrange(2), rng.choice([-1, 0, 1, 2, 3])])
            elif x < 0.8:
                ops.append(["mut", rng.choice([0, 1, 1, 2, 4]), rng.randrange(20)])
            elif x < 0.9:
                ops.append(["rows", rng.choice([2, 3, 4]), rng.choice([12, 16]), rng.randrange(2)])
            else:
                ops.append(["drop", rng.randrange(4)])
        return {"kind": "bk", "nodes": nodes, "ops": ops}

    def search_cases(self, rng, tier):
        while True:
            yield self.gen_bk(rng, 6)
            yield self.gen_real(rng, 8)

    # ---------- oracle (from the property text; never looks at the model) ----------
    def oracle(self, case, res):
        msgs = self.judge(case, res)
        if not msgs:
            return msgs
        tag = self.diagnose(case, self.judge)
        msgs = [f"{m} [{tag}]" for m in msgs]
        # the same root cause shows up in many histories: report each signature a few times, count the rest
        out = []
        for m in msgs:
            sg = self.signature(case, m)
            self.sig_seen[sg] = self.sig_seen.get(sg, 0) + 1
            if self.sig_seen[sg] <= 3 or self.in_shrink:
                out.append(m)
        return out

    sig_seen: dict = {}
    in_shrink = False
    shrink_target = None

    def shrink(self, case, msg):
        self.in_shrink = True
        m = re.search(r"\[root cause: ([^\]]*)\]$", msg)
        self.shrink_target = m.group(1) if m else None
        try:
            return super().shrink(case, msg)
        finally:
            self.in_shrink = False
            self.shrink_target = None

    def judge(self, case, res):
        msgs = []
        if res.get("frozen"):
            msgs.append("a canvas handed out by an earlier render was modified afterwards")
        if res.get("unraisable"):
            msgs.append("exception swallowed inside the cache machinery (weakref callback): " + ", ".join(res["unraisable"]))
        if case.get("kind") == "bk":
            for k, (o, e) in enumerate(zip(res["outs"], expect_bk(case))):
                if e is None or o["r"] == e:
                    continue
                if isinstance(o["r"], str):
                    continue        # an exception: not a cache matter in these trees (never happens)
                what = "rows()" if e[0] == "rows" else "render"
                msgs.append(f"spy tree: {what} with cached canvases shows {o['r']}, the current versions give {e}")
                break
            return msgs
        last = None
        for k, o in enumerate(res["outs"]):
            if o["op"] == "mut":
                if o.get("what"):
                    last = f"{o['what']} on {o['on']}"
                continue
            if o["op"] not in ("render", "rsub"):
                continue
            if "exc" in o and "exc_fresh" not in o:
                msgs.append(f"render with cached canvases raises {o['exc']} but renders fine with the cache emptied (last change: {last})")
                break
            if o.get("same") is False:
                msgs.append(f"render with cached canvases differs from the render with the cache emptied (last change: {last})")
                break
            r = o.get("rows")
            # r = [rows() with cached canvases, rows() computed afresh, rows of the fresh canvas]; when the widget's own
            # rows() disagrees with its own fresh canvas (r[1] != r[2]) the difference is not the cache's doing (C11)
            if r and r[0] != r[1] and r[1] == r[2]:
                msgs.append(f"rows() answered with cached canvases = {r[0]}, computed afresh = {r[1]} (last change: {last})")
                break
            # r[3] = rows() asked before this key was rendered: only canvases of other keys (other focus, other size) exist
            if r and len(r) > 3 and r[3] is not None and r[3] != r[1] and r[1] == r[2]:
                msgs.append(f"rows() asked before the render at this size and focus = {r[3]}, computed afresh = {r[1]} "
                            f"(last change: {last})")
                break
        return msgs

    def diagnose(self, case, judge):
        """Which recorded root cause explains the violation?  (the violation vanishes under that proposed patch)"""
        combos = ROOT_CAUSES + [sorted({n for c in ROOT_CAUSES for n in c})]
        if self.shrink_target:      # while shrinking: try the root cause of the case being shrunk first
            combos = [c for c in combos if "+".join(c) == self.shrink_target] + combos
        for names in combos:
            try:
                with shim(names):
                    res = self.execute(case)
                if not judge(case, res):
                    return "root cause: " + "+".join(names)
            except Exception:       # noqa: BLE001
                continue
        return "root cause: unexplained"

    def nontrivial(self, case, res):
        if case.get("kind") == "bk":
            return any(o["widgets"] for o in res["outs"])
        return any(o.get("what") for o in res["outs"]) and any("same" in o for o in res["outs"])

    def signature(self, case, msg):
        return re.sub(r"\d+", "N", re.sub(r"shows .* give .*? \[", "shows X [", re.sub(r"\(last change: [^)]*\)", "", msg)))

    def distribution(self, case, res, dist):
        def inc(k, n=1):
            dist[k] = dist.get(k, 0) + n
        inc("kind:" + case.get("kind", "real"))
        if case.get("kind") == "bk":
            for op, o in zip(case["ops"], res["outs"]):
                inc("bk.op:" + op[0])
                inc("bk.cached_entries:%d" % min(len(o["widgets"]), 9))
            return
        inc("real.mode:" + case.get("mode", "swap"))
        for o in res["outs"]:
            if o["op"] == "mut":
                inc("mut:" + str(o.get("what")) if not o.get("mexc") else "mut-raised:" + o["mexc"])
            elif o["op"] in ("render", "rsub"):
                if o["op"] == "rsub":
                    inc("rsub.on:" + o.get("on", "?"))
                if "same" in o:
                    inc("render.compared")
                    r = o["rows"]
                    if r[1] != r[2]:
                        inc("observation:rows()!=render().rows() without cache (C11 matter)")
                        inc("observation:rows()!=render().rows() without cache, widget " + o.get("on", "?"))
                if "exc" in o and "exc_fresh" in o:
                    inc("render-raised-both:" + o["exc"])
                elif "exc_fresh" in o:
                    inc("observation:fresh render raised, cached did not:" + o["exc_fresh"])
            else:
                inc("op:" + o["op"])

    # ---------- shrinking ----------
    def shrink_candidates(self, case):
        ops = case["ops"]
        base = {k: v for k, v in case.items() if k != "ops"}
        for i in range(len(ops) - 1, -1, -1):
            yield dict(base, ops=ops[:i] + ops[i + 1:])
        if case.get("kind") == "bk":
            nodes = case["nodes"]
            used = {op[1] for op in ops if op[0] in ("render", "rows", "mut")}
            kids = {x for n in nodes for c in n.get("configs", []) for x in c[0]}
            for i in range(len(nodes) - 1, -1, -1):
                if nodes[i]["id"] not in used and nodes[i]["id"] not in kids:
                    yield dict(base, nodes=nodes[:i] + nodes[i + 1:], ops=ops)
            for i, n in enumerate(nodes):
                if len(n.get("configs", [])) > 1:
                    for j in range(len(n["configs"])):
                        n2 = dict(n, configs=n["configs"][:j] + n["configs"][j + 1:])
                        yield dict(base, nodes=nodes[:i] + [n2] + nodes[i + 1:], ops=ops)
            for i, op in enumerate(ops):
                if op[0] == "render" and op[4] != -1 and False:
                    yield dict(base, ops=ops[:i] + [op[:4] + [-1]] + ops[i + 1:])
                if op[0] == "mut" and op[2] > 1:
                    yield dict(base, ops=ops[:i] + [[op[0], op[1], 1]] + ops[i + 1:])
            return
        # real trees: replace the tree by a subtree, a subtree by a plain text, children lists by shorter ones
        for t in self.tree_shrinks(case["tree"]):
            yield dict(base, tree=t, ops=ops)
        if case.get("mode") != "swap":
            yield dict(base, mode="swap", ops=ops)
        for i, op in enumerate(ops):
            for j in range(1, len(op)):
                if isinstance(op[j], int) and op[j] > 0:
                    for v in {0, op[j] // 2, op[j] - 1}:
                        yield dict(base, ops=ops[:i] + [op[:j] + [v] + op[j + 1:]] + ops[i + 1:])

    @classmethod
    def tree_shrinks(cls, t):
        FLOWLEAF = ["text", 0, 0]
        if not isinstance(t, list) or not t:
            return
        kind = t[0]
        subs = [(i, x) for i, x in enumerate(t) if isinstance(x, list) and x and isinstance(x[0], str)]
        lists = [(i, x) for i, x in enumerate(t) if isinstance(x, list) and (not x or isinstance(x[0], list))]
        flow_kinds = {"text", "edit", "intedit", "checkbox", "radio", "button", "divider", "progress", "pile", "columns", "gridflow",
                      "padding", "attrmap", "linebox", "boxadapter", "wrap", "placeholder", "longtext"}
        if kind in flow_kinds:
            # hoist a flow child
            for _, x in subs:
                if x[0] in flow_kinds:
                    yield x
            for _, l in lists:
                for x in l:
                    if x and x[0] in flow_kinds:
                        yield x
            if kind not in ("text",) or t != FLOWLEAF:
                if kind != "text":
                    yield FLOWLEAF
        else:
            for _, x in subs:
                if x[0] not in flow_kinds:
                    yield x
        for i, l in lists:
            for j in range(len(l)):
                yield t[:i] + [l[:j] + l[j + 1:]] + t[i + 1:]
            for j, x in enumerate(l):
                for y in cls.tree_shrinks(x):
                    if (y[0] in flow_kinds) == (x[0] in flow_kinds):
                        yield t[:i] + [l[:j] + [y] + l[j + 1:]] + t[i + 1:]
        for i, x in subs:
            for y in cls.tree_shrinks(x):
                if (y[0] in flow_kinds) == (x[0] in flow_kinds):
                    yield t[:i] + [y] + t[i + 1:]
        for i, x in enumerate(t):
            if i and isinstance(x, int) and x > 0:
                yield t[:i] + [0] + t[i + 1:]

    # ---------- not case-shaped: the ast scan behind Gen/c06_mutators_gen.v, reported in the evidence ----------
    def extra_checks(self, tier, rng, ev):
        import sys
        sys.path.insert(0, os.path.join(core.ROOT, "tools", "py2v"))
        try:
            from mods import c06_mutators
        finally:
            sys.path.pop(0)
        mutators, plain = c06_mutators.scan(core.REPO)
        dist = ev["dist"]
        dist["ast:public mutators analysed (Coq-checked table Gen/c06_mutators_gen.v)"] = len(mutators)
        dist["ast:mutators that do not reach _invalidate (must be on the exemption list of Proofs/CacheMutators.v)"] = \
            sum(1 for m in mutators if not m[3])
        for c, n, st, r in mutators:
            if not r:
                dist[f"ast-warning:public mutator never reaches _invalidate: {c}.{n}" + (" (setter)" if st else "")] = 1
        for c, a in plain:
            dist[f"ast-note:plain public attribute (assigning it is not a mutator): {c}.{a}"] = 1
        return []


CHECK = C06
