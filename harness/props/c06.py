"""C06 - the canvas cache is invisible: cached rendering equals fresh rendering.

Two families of cases:

kind "bk"   bookkeeping: small trees of REAL urwid containers (AttrMap, Padding, Pile, Columns) around
            spy leaf widgets whose render is a pure function of a version counter.  After every step the
            keys of CanvasCache._widgets / _deps (widgets mapped to ids) and the rendered leaf stamps are
            compared EXACTLY with the extracted Coq model (Model/Cache.v) - the correspondence - and the
            stamps are compared with what the tree must show under the current versions (oracle).
kind "real" end-to-end oracle, no model: random histories on trees of the bundled widgets driven only
            through their public API; after every step: render with the cache, render again with the
            cache emptied, compare content and cursor; same for rows(); canvases handed out earlier
            still have the content they had at hand-out.
"""
import ast
import gc
import os
import re
import warnings

from harness import core

warnings.simplefilter("ignore")

KIND = {"leaf": 0, "attr": 1, "pad": 2, "pile": 3, "cols": 4}
VCH = "0123456789abcdefghijklmnopqrstuvwxyz"


# ======================================================================================
# spy leaves (bookkeeping cases)
# ======================================================================================
_spy = {}


def spy_classes():
    if _spy:
        return _spy
    import urwid

    def render(self, size, focus=False):
        (maxcol,) = size
        stamp = "%s%s%s" % (chr(65 + self.wid), VCH[self.v % 36], "f" if focus else "n")
        lines = [stamp.ljust(maxcol)[:maxcol].encode()] + [b"." * maxcol] * (self.v % 2)
        return urwid.TextCanvas(lines, maxcol=maxcol)

    def rows(self, size, focus=False):
        return 1 + self.v % 2

    def init(self, wid):
        urwid.Widget.__init__(self)
        self.wid, self.v = wid, 0

    base = {"_sizing": frozenset(["flow"]), "_selectable": False, "__init__": init}
    _spy["plain"] = type("Leaf", (urwid.Widget,), dict(base, render=render, rows=rows))
    _spy["ignf"] = type("LeafIgnoreFocus", (urwid.Widget,), dict(base, render=render, rows=rows, ignore_focus=True))
    _spy["nocache"] = type("LeafNoCache", (urwid.Widget,), dict(base, render=render, rows=rows, no_cache=["render"]))
    return _spy


def node_map(case):
    return {n["id"]: n for n in case["nodes"]}


def config(n, v):
    cs = n["configs"]
    return cs[v % max(1, len(cs))] if cs else [[], 0]


def build_bk(case):
    import urwid
    cls = spy_classes()
    objs = {}
    for n in case["nodes"]:
        k = n["k"]
        if k == "leaf":
            c = cls["nocache"] if not n.get("cache", 1) else cls["ignf"] if n.get("ignf") else cls["plain"]
            objs[n["id"]] = c(n["id"])
            continue
        ch, fp = config(n, 0)
        kids = [objs[i] for i in ch]
        if k == "attr":
            objs[n["id"]] = urwid.AttrMap(kids[0], None)
        elif k == "pad":
            objs[n["id"]] = urwid.Padding(kids[0], left=n["l"], right=n["r"])
        elif k == "pile":
            objs[n["id"]] = urwid.Pile(kids, focus_item=fp)
        elif k == "cols":
            objs[n["id"]] = urwid.Columns([("given", wd, x) for wd, x in zip(n["widths"], kids)], dividechars=0, focus_column=fp)
        else:
            raise core.MachineryError("unknown node kind " + k)
    return objs


def apply_config(n, w, objs, v):
    """The public mutators of the real containers; a leaf just counts."""
    k = n["k"]
    if k == "leaf":
        w.v = v
        w._invalidate()
        return
    ch, fp = config(n, v)
    kids = [objs[i] for i in ch]
    if k in ("attr", "pad"):
        w.original_widget = kids[0]
    elif k == "pile":
        w.contents[:] = [(x, w.options()) for x in kids]
        w.focus_position = fp
    elif k == "cols":
        w.contents[:] = [(x, w.options("given", wd)) for wd, x in zip(n["widths"], kids)]
        w.focus_position = fp


def stamps_of(canv):
    out = []
    for line in canv.text:
        for m in re.finditer(r"([A-Z])([0-9a-z])([fn])", line.decode("ascii", "replace")):
            out.append([ord(m.group(1)) - 65, VCH.index(m.group(2)), 1 if m.group(3) == "f" else 0])
    return sorted(out)


def dump_cache(wid_of):
    from urwid import CanvasCache
    ws = []
    for w, sizes in CanvasCache._widgets.items():
        for (_cls, size, focus) in sizes:
            ws.append([wid_of.get(id(w), -1), 2 * size[0] + (1 if focus else 0)])
    ds = [[wid_of.get(id(w), -1), [wid_of.get(id(x), -1) for x in l]] for w, l in CanvasCache._deps.items()]
    return {"widgets": sorted(ws), "deps": sorted(ds), "nrefs": len(CanvasCache._refs)}


def content_of(canv):
    return [[[repr(a), repr(cs), bytes(t).decode("latin-1")] for a, cs, t in row] for row in canv.content()], \
        (list(canv.cursor) if canv.cursor is not None else None)


def run_bk(case):
    from urwid import CanvasCache
    CanvasCache.clear()
    gc.collect()
    objs = build_bk(case)
    nodes = node_map(case)
    wid_of = {id(o): i for i, o in objs.items()}
    slots, snaps, outs, frozen = {}, {}, [], []
    for op in case["ops"]:
        r = None
        try:
            if op[0] == "render":
                canv = objs[op[1]].render((op[2],), bool(op[3]))
                r = [canv.rows(), stamps_of(canv)]
                if op[4] >= 0:
                    slots[op[4]] = canv
                    snaps.setdefault(id(canv), (canv, content_of(canv)))
                del canv
            elif op[0] == "rows":
                r = ["rows", objs[op[1]].rows((op[2],), bool(op[3]))]
            elif op[0] == "mut":
                apply_config(nodes[op[1]], objs[op[1]], objs, op[2])
            elif op[0] == "drop":
                slots.pop(op[1], None)
            elif op[0] == "clear":
                CanvasCache.clear()
        except Exception as e:          # noqa: BLE001  an exception is an observable outcome
            r = "Exc:" + type(e).__name__
        # snapshots of canvases that are no longer held must not keep them alive
        for key in [k for k, (c, _) in snaps.items() if not any(c is s for s in slots.values())]:
            c, snap = snaps.pop(key)
            if content_of(c) != snap:
                frozen.append(len(outs))
            del c
        d = dump_cache(wid_of)
        d["r"] = r
        outs.append(d)
    for c, snap in snaps.values():
        if content_of(c) != snap:
            frozen.append(len(outs))
    slots.clear()
    snaps.clear()
    CanvasCache.clear()
    return {"outs": outs, "frozen": frozen}


# ---------- what the tree must show under the current versions (independent of the cache) ----------
def expect_bk(case):
    nodes = node_map(case)
    ver = {n["id"]: 0 for n in case["nodes"]}

    def show(w, maxcol, focus):
        n = nodes[w]
        if n["k"] == "leaf":
            f = 1 if (focus and not n.get("ignf")) else 0
            return 1 + ver[w] % 2, [[w, ver[w] % 36, f]]
        ch, fp = config(n, ver[w])
        parts = []
        for i, x in enumerate(ch):
            if n["k"] == "attr":
                parts.append(show(x, maxcol, focus))
            elif n["k"] == "pad":
                parts.append(show(x, maxcol - n["l"] - n["r"], focus))
            elif n["k"] == "pile":
                parts.append(show(x, maxcol, focus and i == fp))
            else:
                parts.append(show(x, n["widths"][i], focus and i == fp))
        rows = [p[0] for p in parts]
        st = sorted(s for p in parts for s in p[1])
        return (max(rows) if n["k"] == "cols" else sum(rows)), st

    exp = []
    for op in case["ops"]:
        if op[0] == "render":
            r, st = show(op[1], op[2], bool(op[3]))
            exp.append([r, st])
        elif op[0] == "rows":
            exp.append(["rows", show(op[1], op[2], bool(op[3]))[0]])
        else:
            if op[0] == "mut":
                ver[op[1]] = op[2]
            exp.append(None)
    return exp


# ======================================================================================
# real widget trees (end-to-end oracle)
# ======================================================================================
TEXTS = ["a", "hello world", "x\ny", "世界 ok", "", "one two three four", "z"]
SIZES = [8, 12, 20, 5]
BOXROWS = [1, 3, 5]


def build_real(spec):
    """spec = [type, args..., children...] (JSON) -> widget.  Only public constructors."""
    import urwid
    t = spec[0]
    if t == "text":
        return urwid.Text(TEXTS[spec[1] % len(TEXTS)], wrap=["space", "any", "clip", "ellipsis"][spec[2] % 4])
    if t == "edit":
        return urwid.Edit("c:", TEXTS[spec[1] % len(TEXTS)].replace("\n", " "), multiline=bool(spec[2] % 2))
    if t == "intedit":
        return urwid.IntEdit("n:", spec[1] % 1000)
    if t == "checkbox":
        return urwid.CheckBox("cb", state=bool(spec[1] % 2))
    if t == "radio":
        grp = []
        return urwid.Pile([urwid.RadioButton(grp, "r%d" % i) for i in range(1 + spec[1] % 3)])
    if t == "button":
        return urwid.Button(TEXTS[spec[1] % len(TEXTS)].replace("\n", " "))
    if t == "divider":
        return urwid.Divider("-", top=spec[1] % 2, bottom=spec[2] % 2)
    if t == "progress":
        return urwid.ProgressBar("n", "c", current=spec[1] % 101, done=100)
    if t == "pile":
        return urwid.Pile([build_real(c) for c in spec[1]])
    if t == "columns":
        kids = [build_real(c) for c in spec[2]]
        opts = spec[3] if len(spec) > 3 else []
        lst = []
        for i, k in enumerate(kids):
            o = opts[i % len(opts)] if opts else 0
            lst.append(k if o == 0 else ("pack", k) if o == 1 else ("weight", 1 + o % 3, k) if o < 5 else ("given", 3 + o % 5, k))
        return urwid.Columns(lst, dividechars=spec[1] % 2)
    if t == "gridflow":
        return urwid.GridFlow([build_real(c) for c in spec[4]], 3 + spec[1] % 6, spec[2] % 2, spec[3] % 2,
                              ["left", "center", "right"][spec[1] % 3])
    if t == "padding":
        return urwid.Padding(build_real(spec[3]), left=spec[1] % 3, right=spec[2] % 3)
    if t == "attrmap":
        return urwid.AttrMap(build_real(spec[1]), "a", "f")
    if t == "linebox":
        return urwid.LineBox(build_real(spec[2]), title=["", "t", "title"][spec[1] % 3])
    if t == "boxadapter":
        return urwid.BoxAdapter(build_real_box(spec[2]), 1 + spec[1] % 5)
    if t == "wrap":
        return urwid.WidgetWrap(build_real(spec[1]))
    if t == "placeholder":
        return urwid.WidgetPlaceholder(build_real(spec[1]))
    raise core.MachineryError("unknown widget spec " + repr(t))


def build_real_box(spec):
    import urwid
    t = spec[0]
    if t == "listbox":
        walker = urwid.SimpleFocusListWalker if spec[1] % 2 else urwid.SimpleListWalker
        return urwid.ListBox(walker([build_real(c) for c in spec[2]]))
    if t == "filler":
        return urwid.Filler(build_real(spec[2]), valign=["top", "middle", "bottom"][spec[1] % 3])
    if t == "frame":
        return urwid.Frame(build_real_box(spec[1]), header=build_real(spec[2]) if spec[2] else None,
                           footer=build_real(spec[3]) if spec[3] else None)
    if t == "solid":
        return urwid.SolidFill("#")
    if t == "scrollable":
        return urwid.ScrollBar(urwid.Scrollable(build_real(spec[1])))
    if t == "overlay":
        return urwid.Overlay(build_real(spec[1]), build_real_box(spec[2]), "center", ("relative", 60), "middle", "pack")
    if t == "boxattr":
        return urwid.AttrMap(build_real_box(spec[1]), "a", "f")
    raise core.MachineryError("unknown box widget spec " + repr(t))


def public_children(w):
    """Children reachable through PUBLIC attributes only (never generated display widgets)."""
    import urwid
    out = []
    if isinstance(w, urwid.ListBox):
        try:
            out += list(w.body)
        except TypeError:
            pass
    elif isinstance(w, urwid.Frame):
        out += [x for x in (w.header, w.body, w.footer) if x is not None]
    elif isinstance(w, urwid.Overlay):
        out += [w.top_w, w.bottom_w]
    elif isinstance(w, (urwid.Pile, urwid.Columns, urwid.GridFlow)):
        out += [c for c, _ in w.contents]
    elif isinstance(w, urwid.WidgetWrap) and not isinstance(w, (urwid.Button, urwid.CheckBox, urwid.LineBox)):
        out.append(w._w)          # WidgetWrap subclasses own _w; the bundled wimps keep theirs private
    elif isinstance(w, urwid.WidgetDecoration):
        out.append(w.original_widget)
    elif isinstance(w, urwid.LineBox):
        out.append(w.original_widget)
    return out


def walk(top):
    acc, seen, todo = [], set(), [top]
    while todo:
        w = todo.pop(0)
        if id(w) in seen:
            continue
        seen.add(id(w))
        acc.append(w)
        todo[0:0] = public_children(w)
    return acc


def new_leaf(a):
    return build_real([["text", a, a // 7], ["edit", a, 0], ["checkbox", a], ["button", a], ["divider", a, a // 2],
                       ["text", 4, 0], ["pile", []], ["text", 4, 1]][a % 8])


KEYS = ["x", "left", "right", "up", "down", "backspace", "home", "end", "enter", " ", "delete", "page down", "page up", "tab", "1", "-"]


def mutate_real(w, a, b, size):
    """One public mutation of widget w chosen by the integers a, b.  Returns a short name."""
    import urwid
    if isinstance(w, urwid.Edit):
        k = a % 6
        if k == 0:
            w.set_edit_text(TEXTS[b % len(TEXTS)].replace("\n", " ") if not isinstance(w, urwid.IntEdit) else str(b % 1000))
            return "Edit.set_edit_text"
        if k == 1:
            w.keypress((size[0],), KEYS[b % len(KEYS)])
            return "Edit.keypress"
        if k == 2:
            w.set_caption(["", "cap ", "c:"][b % 3])
            return "Edit.set_caption"
        if k == 3:
            w.set_edit_pos(b % (len(w.edit_text) + 1))
            return "Edit.set_edit_pos"
        if k == 4:
            w.insert_text("q" * (1 + b % 2))
            return "Edit.insert_text"
        w.set_mask([None, "*"][b % 2])
        return "Edit.set_mask"
    if isinstance(w, urwid.Text):
        k = a % 4
        if k == 0:
            w.set_text(TEXTS[b % len(TEXTS)])
            return "Text.set_text"
        if k == 1:
            w.set_text([("attr", "m"), TEXTS[b % len(TEXTS)]])
            return "Text.set_text(markup)"
        if k == 2:
            w.set_align_mode(["left", "center", "right"][b % 3])
            return "Text.set_align_mode"
        w.set_wrap_mode(["space", "any", "clip", "ellipsis"][b % 4])
        return "Text.set_wrap_mode"
    if isinstance(w, urwid.CheckBox):
        k = a % 4
        if k == 0:
            w.set_state(bool(b % 2))
            return "CheckBox.set_state"
        if k == 1:
            w.toggle_state()
            return "CheckBox.toggle_state"
        if k == 2:
            w.set_label(TEXTS[b % len(TEXTS)])
            return "CheckBox.set_label"
        w.keypress((size[0],), [" ", "enter", "x"][b % 3])
        return "CheckBox.keypress"
    if isinstance(w, urwid.Button):
        w.set_label(TEXTS[b % len(TEXTS)].replace("\n", " "))
        return "Button.set_label"
    if isinstance(w, urwid.ProgressBar):
        w.set_completion(b % 120)
        return "ProgressBar.set_completion"
    if isinstance(w, urwid.Divider):
        k = a % 2
        if k == 0:
            w.top = b % 3
            return "Divider.top"
        w.bottom = b % 3
        return "Divider.bottom"
    if isinstance(w, (urwid.Pile, urwid.Columns, urwid.GridFlow)):
        name = type(w).__name__
        n = len(w.contents)
        k = a % 8
        opt = w.options()
        if k == 0 and n:
            w.focus_position = b % n
            return name + ".focus_position"
        if k == 1 and n > 1:
            del w.contents[b % n]
            return name + ".contents.del"
        if k == 2:
            w.contents.append((new_leaf(b), opt))
            return name + ".contents.append"
        if k == 3 and n:
            w.contents[b % n] = (new_leaf(b), w.contents[b % n][1])
            return name + ".contents.assign"
        if k == 4:
            w.contents.insert(b % (n + 1), (new_leaf(b // 3), opt))
            return name + ".contents.insert"
        if k == 5 and n:
            if isinstance(w, urwid.GridFlow):
                w.cell_width = 3 + b % 6
                return "GridFlow.cell_width"
            if isinstance(w, urwid.Columns):
                w.dividechars = b % 3
                return "Columns.dividechars"
            w.contents[b % n] = (w.contents[b % n][0], w.options(["pack", "weight"][b % 2], [None, 1 + b % 3][b % 2]))
            return "Pile.contents.options"
        if k == 6 and n:
            if isinstance(w, urwid.GridFlow):
                [setattr(w, "h_sep", b % 3), setattr(w, "v_sep", b % 2), setattr(w, "align", ["left", "center", "right"][b % 3])][b % 3 and 0]
                w.h_sep = b % 3
                return "GridFlow.h_sep"
            if isinstance(w, urwid.Columns):
                i = b % n
                ch = w.contents[i][0]
                o = [w.options("pack"), w.options("weight", 1 + b % 3), w.options("given", 3 + b % 5)][b % 3]
                w.contents[i] = (ch, o)
                return "Columns.contents.options"
            w.contents[:] = list(reversed(w.contents))
            return "Pile.contents.reverse"
        if k == 7 and n:
            sz = size[:1]
            w.keypress(sz, KEYS[b % len(KEYS)])
            return name + ".keypress"
        return None
    if isinstance(w, urwid.LineBox):
        k = a % 3
        if k == 0:
            w.set_title(["", "T2", "a longer title"][b % 3])
            return "LineBox.set_title"
        if k == 1:
            w.original_widget = new_leaf(b)
            return "LineBox.original_widget"
        w.title_align = ["left", "center", "right"][b % 3] if hasattr(type(w), "title_align") else None
        return None
    if isinstance(w, urwid.AttrMap):
        k = a % 3
        if k == 0:
            w.set_attr_map({None: ["p", "q", None][b % 3]})
            return "AttrMap.set_attr_map"
        if k == 1:
            w.set_focus_map({None: ["fp", "fq"][b % 2]})
            return "AttrMap.set_focus_map"
        if "flow" in w.original_widget.sizing():
            w.original_widget = new_leaf(b)
            return "AttrMap.original_widget"
        return None
    if isinstance(w, urwid.Padding):
        k = a % 5
        if k == 0:
            w.align = ["left", "center", "right"][b % 3]
            return "Padding.align"
        if k == 1:
            w.width = [("relative", 50), ("relative", 100), "pack", 4][b % 4]
            return "Padding.width"
        if k == 2:
            w.left = b % 3
            return "Padding.left"
        if k == 3:
            w.right = b % 3
            return "Padding.right"
        w.original_widget = new_leaf(b)
        return "Padding.original_widget"
    if isinstance(w, urwid.BoxAdapter):
        w.height = 1 + b % 5
        return "BoxAdapter.height"
    if isinstance(w, urwid.WidgetPlaceholder):
        w.original_widget = new_leaf(b)
        return "WidgetPlaceholder.original_widget"
    if isinstance(w, urwid.Filler):
        k = a % 3
        if k == 0:
            w.valign = ["top", "middle", "bottom"][b % 3]
            return "Filler.valign"
        if k == 1:
            w.top = b % 2
            return "Filler.top"
        w.original_widget = new_leaf(b)
        return "Filler.original_widget"
    if isinstance(w, urwid.ListBox):
        n = len(w.body)
        k = a % 7
        if k == 0 and n:
            w.set_focus(b % n)
            return "ListBox.set_focus"
        if k == 1:
            w.body.append(new_leaf(b))
            return "ListBox.body.append"
        if k == 2 and n > 1:
            del w.body[b % n]
            return "ListBox.body.del"
        if k == 3 and n:
            w.body[b % n] = new_leaf(b)
            return "ListBox.body.assign"
        if k == 4 and n:
            w.set_focus_valign(["top", "middle", "bottom"][b % 3])
            return "ListBox.set_focus_valign"
        if k == 5:
            w.keypress((size[0], BOXROWS[a % 3]), KEYS[b % len(KEYS)])
            return "ListBox.keypress"
        if k == 6:
            w.mouse_event((size[0], BOXROWS[a % 3]), "mouse press", [1, 4, 5][b % 3], b % size[0], 0, True)
            return "ListBox.mouse_event"
        return None
    if isinstance(w, urwid.Frame):
        k = a % 4
        if k == 0:
            w.header = [None, new_leaf(b)][b % 2]
            return "Frame.header"
        if k == 1:
            w.footer = [None, new_leaf(b)][b % 2]
            return "Frame.footer"
        if k == 2:
            w.focus_position = ["body", "header", "footer"][b % 3]
            return "Frame.focus_position"
        w.keypress((size[0], 5), KEYS[b % len(KEYS)])
        return "Frame.keypress"
    if isinstance(w, urwid.Overlay):
        w.set_overlay_parameters(["left", "center", "right"][b % 3], ("relative", 40 + b % 50), "middle", "pack")
        return "Overlay.set_overlay_parameters"
    if isinstance(w, urwid.Scrollable):
        w.set_scrollpos(b % 4)
        return "Scrollable.set_scrollpos"
    return None


def run_real(case):
    import urwid
    from urwid import CanvasCache
    urwid.set_encoding("utf-8")
    CanvasCache.clear()
    gc.collect()
    top = build_real(case["tree"])
    keep, snaps, outs, muts = [], [], [], []
    mode = case.get("mode", "swap")
    try:
        for op in case["ops"]:
            o = {"op": op[0]}
            if op[0] == "render":
                size = (SIZES[op[1] % len(SIZES)],)
                focus = bool(op[2])
                try:
                    c1 = top.render(size, focus)
                    d1 = content_of(c1)
                    r1 = top.rows(size, focus)
                except Exception as e:      # noqa: BLE001
                    o["exc"] = type(e).__name__
                    outs.append(o)
                    continue
                if op[3]:
                    keep.append(c1)
                    snaps.append((c1, d1))
                    keep = keep[-3:]
                    snaps = [s for s in snaps if any(s[0] is k for k in keep)]
                # the same request with the cache emptied first
                saved = (CanvasCache._widgets, CanvasCache._refs, CanvasCache._deps)
                CanvasCache.clear()
                try:
                    r2 = top.rows(size, focus)
                    c2 = top.render(size, focus)
                    d2 = content_of(c2)
                    r3 = c2.rows()
                except Exception as e:      # noqa: BLE001
                    o["exc_fresh"] = type(e).__name__
                    d2, r2, r3, c2 = None, None, None, None
                if mode == "swap":
                    del c2                      # the fresh canvases die while the empty cache is installed
                    CanvasCache._widgets, CanvasCache._refs, CanvasCache._deps = saved
                else:
                    if op[3] and c2 is not None:
                        keep.append(c2)
                    del c2
                del saved
                if d2 is not None:
                    o["same"] = d1 == d2
                    o["rows"] = [r1, r2, r3]
                    if d1 != d2:
                        o["cached"], o["fresh"] = summarize(d1), summarize(d2)
                del c1
            elif op[0] == "mut":
                ws = walk(top)
                w = ws[op[1] % len(ws)]
                o["on"] = type(w).__name__
                try:
                    o["what"] = mutate_real(w, op[2], op[3], (SIZES[op[4] % len(SIZES)],))
                except Exception as e:      # noqa: BLE001  misuse of an API is not the subject here
                    o["what"] = None
                    o["mexc"] = type(e).__name__
                del ws, w
            elif op[0] == "gc":
                keep = keep[op[1] % (len(keep) + 1):]
                snaps = [s for s in snaps if any(s[0] is k for k in keep)]
                gc.collect()
            elif op[0] == "clear":
                CanvasCache.clear()
            outs.append(o)
        frozen = [i for i, (c, d) in enumerate(snaps) if content_of(c) != d]
    finally:
        del keep, snaps
        CanvasCache.clear()
    return {"outs": outs, "frozen": frozen}


def summarize(d):
    rows, cur = d
    return {"text": ["".join(seg[2] for seg in r) for r in rows][:12], "cursor": cur,
            "attrs": sorted({seg[0] for r in rows for seg in r})[:8]}


# ======================================================================================
class C06(core.Check):
    pid = "C06"
    gen_modules = []
    model_targets = ["theories/Model/Cache.vo"]
    prop_file = "theories/Properties/C06.v"
    extract_v = "Extract/C06X.v"
    allowed_axioms = set()
    design_ref = "DESIGN.md section 5, C06"

    # ---------- implementation ----------
    def run_impl(self, case):
        if case.get("kind") == "bk":
            return run_bk(case)
        return run_real(case)

    # ---------- model wire format ----------
    def encode(self, case):
        if case.get("kind") != "bk":
            return None
        l = [len(case["nodes"])]
        for n in case["nodes"]:
            cfgs = n.get("configs", [])
            l += [n["id"], KIND[n["k"]], n.get("l", 0), n.get("r", 0), n.get("ignf", 0), n.get("cache", 1)]
            l += [len(n.get("widths", []))] + list(n.get("widths", []))
            l.append(len(cfgs))
            for ch, fp in cfgs:
                l += [len(ch)] + list(ch) + [fp]
        l.append(len(case["ops"]))
        for op in case["ops"]:
            if op[0] == "render":
                l += [1, op[1], op[2], op[3], op[4]]
            elif op[0] == "rows":
                l += [2, op[1], op[2], op[3]]
            elif op[0] == "mut":
                l += [3, op[1], op[2]]
            elif op[0] == "drop":
                l += [4, op[1]]
            else:
                l += [5]
        return l

    def decode(self, case, ints):
        it = iter(ints)
        outs = []
        try:
            for op in case["ops"]:
                r = None
                if op[0] == "render":
                    if next(it) == 1:
                        rows = next(it)
                        n = next(it)
                        flat = [next(it) for _ in range(n)]
                        r = [rows, sorted([flat[i], flat[i + 1] % 36, flat[i + 2]] for i in range(0, n, 3))]
                    else:
                        r = "nofuel"
                elif op[0] == "rows":
                    r = ["rows", next(it)] if next(it) == 1 else "nofuel"
                nw = next(it)
                ws = sorted([next(it), next(it)] for _ in range(nw))
                nd = next(it)
                ds = []
                for _ in range(nd):
                    w = next(it)
                    k = next(it)
                    ds.append([w, [next(it) for _ in range(k)]])
                outs.append({"widgets": ws, "deps": sorted(ds), "nrefs": next(it), "r": r})
        except StopIteration:
            return {"malformed": ints[:60]}
        return {"outs": outs, "frozen": []}

    # ---------- generators ----------
    @staticmethod
    def gen_bk(rng, nops=None):
        nl = rng.choice([1, 2, 2, 3, 4])
        nodes = []
        need = {}
        for i in range(nl):
            nc = rng.random() < 0.12
            nodes.append({"id": i, "k": "leaf", "ignf": 0 if nc else int(rng.random() < 0.3), "cache": 0 if nc else 1})
            need[i] = 3
        ncont = rng.choice([1, 2, 3, 3, 4, 5])
        for j in range(ncont):
            i = nl + j
            for _attempt in range(20):
                k = rng.choice(["attr", "pad", "pile", "pile", "cols"])
                n = {"id": i, "k": k}
                ncfg = rng.choice([1, 1, 2, 3])
                pool = list(range(i))
                if k in ("attr", "pad"):
                    n["configs"] = [[[rng.choice(pool)], 0] for _ in range(ncfg)]
                    if k == "pad":
                        n["l"], n["r"] = rng.choice([0, 1]), rng.choice([0, 1, 2])
                    nd = max(need[c[0][0]] for c in n["configs"]) + n.get("l", 0) + n.get("r", 0)
                elif k == "pile":
                    n["configs"] = []
                    for _ in range(ncfg):
                        m = min(len(pool), rng.choice([1, 2, 2, 3]))
                        ch = rng.sample(pool, m)
                        n["configs"].append([ch, rng.randrange(m)])
                    nd = max(need[x] for c in n["configs"] for x in c[0])
                else:
                    m = min(len(pool), rng.choice([1, 2, 2, 3]))
                    n["widths"] = [rng.choice([3, 4, 5, 7]) for _ in range(m)]
                    n["configs"] = []
                    ok = True
                    for _ in range(ncfg):
                        ch = rng.sample(pool, m)
                        ok = ok and all(need[x] <= wd for x, wd in zip(ch, n["widths"]))
                        n["configs"].append([ch, rng.randrange(m)])
                    if not ok:
                        continue
                    nd = sum(n["widths"])
                if nd <= 20:
                    break
            else:
                n = {"id": i, "k": "attr", "configs": [[[0], 0]]}
                nd = need[0]
            nodes.append(n)
            need[i] = nd
        ops = []
        tot = nl + ncont
        for _ in range(nops or rng.choice([4, 6, 8, 10, 14])):
            x = rng.random()
            # bias towards the upper part of the tree
            w = rng.choice([tot - 1, tot - 1, rng.randrange(tot), rng.randrange(nl, tot)])
            mcs = [m for m in (12, 16, 20, 9) if m >= need[w]] or [20]
            if x < 0.45:
                ops.append(["render", w, rng.choice(mcs), rng.choice([0, 1]), rng.choice([-1, 0, 0, 1, 2])])
            elif x < 0.55:
                ops.append(["rows", w, rng.choice(mcs), rng.choice([0, 1])])
            elif x < 0.83:
                w = rng.choice([rng.randrange(nl), rng.randrange(tot)])
                ops.append(["mut", w, rng.randrange(0, 30)])
            elif x < 0.96:
                ops.append(["drop", rng.choice([0, 0, 1, 2])])
            else:
                ops.append(["clear"])
        return {"kind": "bk", "nodes": nodes, "ops": ops}


CHECK = C06
