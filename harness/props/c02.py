"""C02 - canvas composition is equivalent to operating on a plain grid of cells.

case = {"leaves": [leaf...], "defs": [tree...], "deltas": [[i, j]...]}
  leaf  = {"t": "text", "rows": [[[attr, cs, "chars"]...]...], "maxcol": int|None, "cursor": [x, y]|None,
           "mode": 0|1|2, "short": bool}                      (attr/cs are ints, 0 = None)
        | {"t": "solid", "cs": int, "ch": "x", "cols": int, "rows": int}
  tree  = ["leaf", i] | ["ref", k] | ["wrap", t] | ["combine", [t...]] | ["join", [[t, cols]...]]
        | ["overlay", top_t, bottom_t, left, top] | ["padlr", t, l, r] | ["padtb", t, top, bottom]
        | ["trim", t, top, count|None] | ["trimend", t, e] | ["fill", t, [[k, v]...]]
        | ["cursor", t, [x, y]|None] | ["popup", t, w, x, y] | ["finalize", t]
Every def is evaluated in order, bound (later defs may ["ref", k] it: shared operands) and observed:
content cell by cell, cols, rows, cursor, pop-up, finalized flag and the internal shards tuples.
deltas [i, j] observe defs[i].content_delta(defs[j]).
"""
import re
import warnings

from harness import core

warnings.simplefilter("ignore")

# ---- the character alphabet: widths are fixed HERE (independent of urwid's width tables) ----
NARROW = "abcxyz .-qéλ"
WIDE = "世界語"
ZERO = "\u0301\u0308"
CS = {0: None, 1: "0", 2: "U"}
CSR = {None: 0, "0": 1, "U": 2}
ERRC = {"IndexError": 1, "ValueError": 2, "TypeError": 3, "CanvasError": 5, "RuntimeError": 9}
POP_WH = (5, 3)


# ---- double-byte encodings (urwid's "wide" byte encoding): one column per byte, a two-byte character is a
# double-width character.  Narrow characters are ASCII (many of them lie in the trail-byte range 0x40..0x7e);
# the double-width pool of each encoding holds, for every boundary of the trail-byte ranges the codec uses,
# the first CJK / Hangul character with that trail byte.
DB_ENCODINGS = ("big5", "gbk", "uhc", "euc-kr", "gb2312", "euc-jp")
DB_NARROW = "abcxyz .-q@A[\\]^_`{|}~"
TRAIL_CLASSES = (0x40, 0x41, 0x5A, 0x5B, 0x5C, 0x60, 0x61, 0x7A, 0x7B, 0x7C, 0x7D, 0x7E, 0x80, 0x81, 0xA0, 0xA1, 0xA2, 0xFD, 0xFE)


def _db_pools():
    pools = {}
    for enc in DB_ENCODINGS:
        first = {}
        for cp in list(range(0x4E00, 0xA000)) + list(range(0xAC00, 0xD7A4)):
            try:
                b = chr(cp).encode(enc)
            except UnicodeEncodeError:
                continue
            if len(b) == 2 and b[0] >= 0x81 and b[1] not in first:
                first[b[1]] = chr(cp)
        pools[enc] = "".join(first[t] for t in TRAIL_CLASSES if t in first)
    return pools


DB_WIDE = _db_pools()
ALL_WIDE = frozenset(WIDE + "".join(DB_WIDE.values()))


def chw(ch):
    if ch in ZERO:
        return 0
    if ch in ALL_WIDE:
        return 2
    return 1


# attribute ids: 0 = None (the default attribute), 8 = the integer 0 and 9 = the empty string (two more attribute
# values that are falsy in Python), any other n = the string "a<n>"
def attr_py(a):
    if a == 0:
        return None
    if a == 8:
        return 0
    if a == 9:
        return ""
    return "a%d" % a


def attr_id(a):
    if a is None:
        return 0
    if isinstance(a, bool):
        return -1
    if isinstance(a, int) and a == 0:
        return 8
    if isinstance(a, str) and a == "":
        return 9
    if isinstance(a, str) and re.fullmatch(r"a\d+", a):
        return int(a[1:])
    return -1


def errcode(e):
    return ERRC.get(type(e).__name__, 10)


MUTATORS = ("padlr", "padtb", "trim", "trimend", "fill", "cursor", "popup", "finalize")


def compile_tree(t, out):
    k = t[0]
    if k == "leaf":
        out.append(["leaf", t[1]])
    elif k == "ref":
        out.append(["ref", t[1]])
    elif k == "wrap":
        compile_tree(t[1], out)
        out.append(["wrap"])
    elif k == "combine":
        for s in t[1]:
            compile_tree(s, out)
        out.append(["combine", len(t[1])])
    elif k == "join":
        for s, _ in t[1]:
            compile_tree(s, out)
        out.append(["join", [c for _, c in t[1]]])
    elif k == "overlay":
        compile_tree(t[2], out)      # bottom first, top on the stack top
        compile_tree(t[1], out)
        out.append(["overlay", t[3], t[4]])
    elif k in MUTATORS:
        compile_tree(t[1], out)
        out.append([k] + list(t[2:]))
    else:
        raise core.MachineryError("unknown tree node %r" % (k,))
    return out


def tree_ok(t):
    """Structural validity of a tree for this harness (a mutator never acts on a shared ref)."""
    k = t[0]
    if k in ("leaf", "ref"):
        return True
    if k == "wrap":
        return tree_ok(t[1])
    if k == "combine":
        return all(tree_ok(s) for s in t[1])
    if k == "join":
        return all(tree_ok(s) for s, _ in t[1])
    if k == "overlay":
        return tree_ok(t[1]) and tree_ok(t[2])
    if k in MUTATORS:
        return t[1][0] != "ref" and tree_ok(t[1])
    return False


def program(case):
    prog = []
    for d in case["defs"]:
        compile_tree(d, prog)
        prog.append(["bind"])
    for i, j in case.get("deltas", []):
        prog.append(["delta", i, j])
    return prog


# ---------------------------------------------------------------- cells of an implementation row
def cells_of_row(row, enc="utf-8"):
    out = []
    for a, cs, bs in row:
        try:
            s = bs.decode(enc)
        except UnicodeDecodeError:
            out.append([9, attr_id(a), CSR.get(cs, -1), bs.hex()])
            continue
        base = None
        for ch in s:
            w = chw(ch)
            if w == 0:
                if base is not None:
                    out[base][3] += ch
                else:
                    out.append([3, attr_id(a), CSR.get(cs, -1), ch])      # stray zero-width
            elif w == 1:
                base = len(out)
                out.append([0, attr_id(a), CSR.get(cs, -1), ch])
            else:
                base = len(out)
                out.append([1, attr_id(a), CSR.get(cs, -1), ch])
                out.append([2, attr_id(a), CSR.get(cs, -1), ""])
    return out


class C02(core.Check):
    pid = "C02"
    # str_util / util integer code translated by py2v for C11 (Model/Width.v); imported read-only by Model/CanvasBytes.v
    gen_modules = ["str_util", "str_loops", "wcwidth_table"]
    model_targets = ["theories/Model/Canvas.vo", "theories/Model/CanvasHeap.vo", "theories/Model/CanvasBytes.vo"]
    prop_file = "theories/Properties/C02.v"
    extract_v = "Extract/C02X.v"
    allowed_axioms = set()
    design_ref = "DESIGN.md section 5, C02 and Appendix A"
    technique = ("Coq theorems (well-formedness invariant over the shard lists, refinement of the shard machine to rows "
                 "of cells, induction over shard lists and over programs of canvas operations) about a hand-written "
                 "line-by-line model of canvas.py; extracted-model correspondence on random operation trees including the "
                 "internal shards tuples; independent 2-D grid oracle")
    level_text = "see LEVEL_TEXT below"
    level_note = ("Trusted: Coq kernel; the hand-written model Model/Canvas.v (validated on every run against canvas.py by the exact "
                  "correspondence on content, cols/rows, coords AND the internal shards tuples, not proved against Python); "
                  "ExtrOcamlBasic extraction + OCaml driver; the harness encoding of a TextCanvas as rows of cells (runs aligned "
                  "to character cells, UTF-8 or a double-byte encoding, fixed width alphabet); the Python grid oracle.")
    rule = ("cases = random trees (depth <= 6) of canvas operations (CanvasCombine, CanvasJoin with padding, CanvasOverlay, "
            "CompositeCanvas wrap, pad_trim_left_right, pad_trim_top_bottom, trim, trim_end, fill_attr_apply, set cursor / pop-up, "
            "finalize) over text leaves (double-width and zero-width characters, run-length attribute and charset lists split in "
            "three ways, short rows, cursors) and solid leaves, with shared operands; joins get a 0-row canvas beside the others in 12% of the "
            "cases and at every position in a systematic family followed by every trim / window / overlay offset; one case in five is written in a double-byte "
            "encoding (big5, gbk, uhc, euc-kr, gb2312, euc-jp) instead of UTF-8; attribute maps range over ordinary attributes, None and "
            "the falsy attributes 0 and '' as keys and targets, with fills over already filled canvases; systematic families (all "
            "pad/trim amounts, all overlay offsets over rows with double-width characters, the same windows and offsets in every "
            "double-byte encoding over double-width characters of every trail-byte class, every pair of single-entry attribute maps "
            "applied one after the other); same-size pairs for content_delta; a malformed stream "
            "(out-of-range amounts, unequal widths) judged by the correspondence only; probes = direct reads "
            "leaf.content(trim_left, trim_top, cols, rows, attr) of text leaves (0-3 random windows per random case, every window of the "
            "systematic leaves in UTF-8 and in every double-byte encoding, some windows sticking out), compared raw - segment for segment, "
            "byte for byte - with the byte-level model and, decoded, with the window of the leaf's grid by the oracle. non-trivial = at least one composite "
            "operation evaluated; distinct by hash of (case, outcome)")
    trusted_base = [
        "Coq 8.16.1 kernel (coqc; vm_compute used only for closed examples)",
        "hand-written model coq/theories/Model/Canvas.v of urwid/canvas.py and its object-identity layer Model/CanvasHeap.v (validated by the correspondence incl. internal shards and aliasing pattern, not proved against Python)",
        "cell abstraction of TextCanvas rows in Model/Canvas.v: PROVED against the byte-level TextCanvas (Model/CanvasBytes.v) for the double-byte "
        "encodings (byte_text_canvas_is_cell_text_canvas); for UTF-8 it stays a modelling step validated by the correspondence (cells AND the raw "
        "content() segments of the byte model on probe windows)",
        "hand-written byte-level model coq/theories/Model/CanvasBytes.v of TextCanvas.__init__ / content() (tied by the probe correspondence: raw "
        "(attr, cs, bytes) segments of leaf.content(trim_left, trim_top, cols, rows, attr)); it calls the C11 model Model/Width.v (calc_width, "
        "trim_text_attr_cs, rle_product; integer code translated by py2v from str_util.py / util.py) which is imported read-only together with "
        "C11's theorems within_double_byte_exact / calc_trim_text_double_byte",
        "extraction: ExtrOcamlBasic only; Z/positive stay Coq datatypes; OCaml 4.13.1",
        "tools/driver/driver.ml (int <-> Z conversion, line I/O)",
        "Python grid oracle and wire encode/decode in harness/props/c02.py",
    ]
    assumptions = [
        "encodings: UTF-8 (fixed alphabet of narrow, double-width and zero-width code points) and the double-byte encodings big5, gbk, "
        "uhc, euc-kr, gb2312, euc-jp (narrow = ASCII incl. characters of the trail-byte range, double-width = two-byte characters with "
        "one representative per boundary of the codec's trail-byte ranges; three-byte EUC-JP and half-width katakana not used)",
        "attribute / charset runs of leaf text canvases end on character-cell boundaries; a row does not start with a zero-width character",
        "operations are applied where they are defined (positive sizes, equal widths for stacking, overlay inside the bottom canvas, "
        "join widths >= canvas widths); outside, only model-vs-implementation agreement is checked; one case beyond the theorems is judged by "
        "the oracle as well: a canvas WITHOUT rows (SolidCanvas(.., cols, 0), what an empty Pile renders) as an operand of CanvasJoin is a blank "
        "block of its width (pad_trim_top_bottom on a 0-row canvas, repo 69bd6e4, is in the model; the theorems still assume rows > 0)",
        "attribute keys are hashable constants (modelled as integers; None, the integer 0 and the empty string are among the "
        "attributes used, as cell attributes, map keys and map targets); attribute maps are compared as dicts",
        "object identity of leaf canvases (cv[5] is other_cv[5]) is an integer id; equal ids denote the same canvas (premise ids_ok of the delta theorem)",
        "shortcuts and children lists, widget_info contents and the CanvasCache are not modelled",
        "canvas objects themselves are handles: a mutating method is never applied directly to a bound canvas (the generator wraps first), only list objects are heap objects",
    ]

    # ================================================================= implementation
    @staticmethod
    def leaf_lists(spec, spec_enc):
        """the three lists handed to TextCanvas for a text leaf: byte strings, attribute runs, charset runs
        (attributes / charsets as integer ids)"""
        text, attr, cs = [], [], []
        mode = spec.get("mode", 0)
        for cells in spec["rows"]:
            bs = b""
            al, cl = [], []
            for n, (a, c, ch) in enumerate(cells):
                b = ch.encode(spec_enc)
                bs += b
                for lst, val in ((al, a), (cl, c)):
                    merge = lst and lst[-1][0] == val and (mode == 0 or (mode == 2 and n % 2 == 1))
                    if merge:
                        lst[-1] = (val, lst[-1][1] + len(b))
                    else:
                        lst.append((val, len(b)))
            if spec.get("short"):
                while al and al[-1][0] == 0:
                    al.pop()
                while cl and cl[-1][0] == 0:
                    cl.pop()
            text.append(bs)
            attr.append(al)
            cs.append(cl)
        return text, attr, cs

    def build_leaf(self, spec):
        from urwid import canvas as C
        if spec["t"] == "solid":
            return C.SolidCanvas(spec["ch"], spec["cols"], spec["rows"])
        text, attr, cs = self.leaf_lists(spec, getattr(self, "_enc", "utf-8"))
        attr = [[(attr_py(a), n) for a, n in r] for r in attr]
        cs = [[(CS[c], n) for c, n in r] for r in cs]
        cur = tuple(spec["cursor"]) if spec.get("cursor") is not None else None
        return C.TextCanvas(text, attr, cs, cursor=cur, maxcol=spec.get("maxcol"))

    @staticmethod
    def alias_pattern(raw):
        """identities of the list objects of the bound canvases, renumbered by first occurrence:
        which .shards lists and which cviews lists are the same object"""
        om, im, out = {}, {}, []
        for e in raw:
            if e is None:
                out.append(None)
                continue
            o = om.setdefault(e[0], len(om))
            out.append([o, [im.setdefault(i, len(im)) for i in e[1]]])
        return out

    @staticmethod
    def _shards(c):
        from urwid import canvas as C
        out = []
        for n, cvs in c.shards:
            l = []
            for cv in cvs:
                m = cv[4]
                if m is not None:
                    m = sorted([attr_id(k), attr_id(v)] for k, v in m.items())
                canv = cv[5]
                cid = 0 if canv is C.blank_canvas else getattr(canv, "_verif_id", -1)
                l.append([cv[0], cv[1], cv[2], cv[3], m, cid])
            out.append([n, l])
        return out

    def observe(self, v):
        comp = hasattr(v, "shards")
        o = {"kind": 1 if comp else 0}
        for name in ("cols", "rows"):
            try:
                o[name] = [0, getattr(v, name)()]
            except Exception as e:
                o[name] = [1, errcode(e)]
        cu = v.cursor
        o["cursor"] = list(cu) if cu is not None else None
        p = v.get_pop_up()
        if p is None:
            o["popup"] = None
        else:
            w = p[2]
            wid = w[0][1] if (isinstance(w, tuple) and len(w) == 3 and isinstance(w[0], tuple) and tuple(w[1:]) == POP_WH) else -1
            o["popup"] = [p[0], p[1], wid]
        o["fin"] = 1 if (comp and v.widget_info) else 0
        try:
            o["content"] = [cells_of_row(r, self._enc) for r in v.content()]
        except Exception as e:
            o["content"] = {"err": errcode(e)}
        o["shards"] = self._shards(v) if comp else []
        return o

    _enc = "utf-8"

    def run_impl(self, case):
        import urwid
        enc = case.get("enc", "utf-8")
        if enc != "utf-8" and enc not in DB_ENCODINGS:
            raise core.MachineryError("unknown encoding %r" % (enc,))
        self._enc = enc
        urwid.set_encoding(enc)
        try:
            return self.run_impl_enc(case)
        finally:
            self._enc = "utf-8"
            urwid.set_encoding("utf-8")

    @staticmethod
    def probes_of(case):
        """probes [leaf, trim_left, trim_top, cols, rows, map|None] that address a text leaf"""
        return [p for p in case.get("probes", [])
                if 1 <= p[0] <= len(case["leaves"]) and case["leaves"][p[0] - 1]["t"] == "text"]

    def run_impl_enc(self, case):
        from urwid import canvas as C
        res = {"obs": [], "deltas": [], "error": None, "changed": [], "alias": [], "probes": []}
        leaves = []
        for n, spec in enumerate(case["leaves"]):
            try:
                lf = self.build_leaf(spec)
                lf._verif_id = n + 1
                leaves.append(lf)
            except Exception as e:
                leaves.append(e)
                if res["error"] is None:
                    res["error"] = errcode(e)
        # TextCanvas.content(trim_left, trim_top, cols, rows, attr) of the leaves, raw: segment for segment, byte for byte
        for i, tl_, tt_, c_, r_, m_ in self.probes_of(case):
            lf = leaves[i - 1]
            if isinstance(lf, Exception):
                res["probes"].append({"err": errcode(lf)})
                continue
            try:
                am = None if m_ is None else {attr_py(a): attr_py(b) for a, b in m_}
                res["probes"].append([[[attr_id(a), CSR.get(cs, -1), list(bs)] for a, cs, bs in row]
                                      for row in lf.content(tl_, tt_, c_, r_, am)])
            except Exception as e:
                res["probes"].append({"err": errcode(e)})
        if res["error"] is not None:
            return res
        leaf_snap = [self.observe(l) for l in leaves]
        env, snaps, stack = [], [], []
        for ins in program(case):
            k = ins[0]
            try:
                if k == "leaf":
                    if not (1 <= ins[1] <= len(leaves)):
                        raise core.MachineryError("bad leaf index")
                    stack.append(leaves[ins[1] - 1])
                elif k == "ref":
                    stack.append(env[ins[1]])
                elif k == "bind":
                    v = stack.pop()
                    env.append(v)
                    o = self.observe(v)
                    res["obs"].append(o)
                    snaps.append(o)
                elif k == "delta":
                    a, b = env[ins[1]], env[ins[2]]
                    try:
                        rows = []
                        for r in a.content_delta(b):
                            items, seg = [], []
                            for it in r:
                                if isinstance(it, int):
                                    if seg:
                                        items += [["c", c] for c in cells_of_row(seg, self._enc)]
                                        seg = []
                                    items.append(["s", it])
                                else:
                                    seg.append(it)
                            if seg:
                                items += [["c", c] for c in cells_of_row(seg, self._enc)]
                            rows.append(items)
                        res["deltas"].append(rows)
                    except Exception as e:
                        res["deltas"].append({"err": errcode(e)})
                else:
                    self.impl_op(C, stack, ins)
            except core.MachineryError:
                raise
            except Exception as e:
                res["error"] = errcode(e)
                break
        res["alias"] = self.alias_pattern([[id(v.shards), [id(cvs) for _, cvs in v.shards]] if hasattr(v, "shards") else None
                                           for v in env])
        # operands unchanged: everything bound earlier (and every leaf) still reads the same
        for n, (v, s) in enumerate(zip(env, snaps)):
            if self.observe(v) != s:
                res["changed"].append(n)
        for n, (v, s) in enumerate(zip(leaves, leaf_snap)):
            if self.observe(v) != s:
                res["changed"].append(-(n + 1))
        return res

    @staticmethod
    def impl_op(C, stack, ins):
        k = ins[0]
        if k == "wrap":
            v = stack.pop()
            stack.append(C.CompositeCanvas(v))
        elif k == "combine":
            n = ins[1]
            vs = stack[len(stack) - n:] if n else []
            del stack[len(stack) - n:]
            stack.append(C.CanvasCombine([(v, None, False) for v in vs]))
        elif k == "join":
            n = len(ins[1])
            vs = stack[len(stack) - n:] if n else []
            del stack[len(stack) - n:]
            stack.append(C.CanvasJoin([(v, None, False, c) for v, c in zip(vs, ins[1])]))
        elif k == "overlay":
            top_c = stack.pop()
            bottom_c = stack.pop()
            stack.append(C.CanvasOverlay(top_c, bottom_c, ins[1], ins[2]))
        else:
            c = stack[-1]
            if not hasattr(c, "shards"):
                raise AttributeError("not a composite canvas")
            if k == "padlr":
                c.pad_trim_left_right(ins[1], ins[2])
            elif k == "padtb":
                c.pad_trim_top_bottom(ins[1], ins[2])
            elif k == "trim":
                c.trim(ins[1], ins[2])
            elif k == "trimend":
                c.trim_end(ins[1])
            elif k == "fill":
                c.fill_attr_apply({attr_py(a): attr_py(b) for a, b in ins[1]})
            elif k == "cursor":
                c.cursor = tuple(ins[1]) if ins[1] is not None else None
            elif k == "popup":
                c.set_pop_up(("W", ins[1]), ins[2], ins[3], *POP_WH)
            elif k == "finalize":
                c.finalize(object(), (1,), False)
            else:
                raise core.MachineryError("unknown instruction " + k)

    # ================================================================= model wire format
    def encode(self, case):
        enc = case.get("enc", "utf-8")
        out = [1 if enc == "utf-8" else 2]
        tidx, bl = {}, []
        for n, spec in enumerate(case["leaves"]):
            if spec["t"] != "text":
                continue
            tidx[n + 1] = len(tidx)
            text, attr, cs = self.leaf_lists(spec, enc)
            b = [0] if spec.get("maxcol") is None else [1, spec["maxcol"]]
            b.append(len(text))
            for t, a, c in zip(text, attr, cs):
                b += [len(t)] + list(t) + [len(a)] + [x for run in a for x in run] + [len(c)] + [x for run in c for x in run]
            bl.append(b)
        out.append(len(bl))
        for b in bl:
            out += b
        pr = self.probes_of(case)
        out.append(len(pr))
        for i, tl_, tt_, c_, r_, m_ in pr:
            out += [tidx[i], tl_, tt_, c_, r_]
            out += [0] if m_ is None else [1, len(m_)] + [x for kv in m_ for x in kv]
        out.append(len(case["leaves"]))
        for spec in case["leaves"]:
            if spec["t"] == "solid":
                out += [2, spec["cs"], len(spec["ch"])] + [ord(c) for c in spec["ch"]] + [spec["cols"], spec["rows"]]
                continue
            out.append(1)
            out += [0] if spec.get("maxcol") is None else [1, spec["maxcol"]]
            out.append(len(spec["rows"]))
            for cells in spec["rows"]:
                out.append(len(cells))
                for a, c, ch in cells:
                    out += [1 if chw(ch[0]) == 2 else 0, a, c, len(ch)] + [ord(x) for x in ch]
            out += [0] if spec.get("cursor") is None else [1] + list(spec["cursor"])
        prog = program(case)
        out.append(len(prog))
        for ins in prog:
            k = ins[0]
            if k == "leaf":
                out += [1, ins[1]]
            elif k == "ref":
                out += [2, ins[1]]
            elif k == "wrap":
                out += [3]
            elif k == "combine":
                out += [4, ins[1]]
            elif k == "join":
                out += [5, len(ins[1])] + list(ins[1])
            elif k == "overlay":
                out += [6, ins[1], ins[2]]
            elif k == "padlr":
                out += [7, ins[1], ins[2]]
            elif k == "padtb":
                out += [8, ins[1], ins[2]]
            elif k == "trim":
                out += [9, ins[1]] + ([0] if ins[2] is None else [1, ins[2]])
            elif k == "trimend":
                out += [10, ins[1]]
            elif k == "fill":
                out += [11, len(ins[1])]
                for a, b in ins[1]:
                    out += [a, b]
            elif k == "cursor":
                out += [12] + ([0] if ins[1] is None else [1] + list(ins[1]))
            elif k == "popup":
                out += [13, ins[1], ins[2], ins[3]]
            elif k == "finalize":
                out += [14]
            elif k == "bind":
                out += [15]
            elif k == "delta":
                out += [16, ins[1], ins[2]]
            else:
                raise core.MachineryError("cannot encode " + k)
        return out

    def decode(self, case, ints):
        it = iter(ints)
        nx = lambda: next(it)

        def cell():
            k, a, c, n = nx(), nx(), nx(), nx()
            return [k, a, c, "".join(chr(nx()) for _ in range(n))]

        def rz():
            t, v = nx(), nx()
            return [t, v]

        res = {"obs": [], "deltas": [], "error": None, "changed": [], "alias": [], "probes": []}
        wf = []
        try:
            while True:
                try:
                    tag = nx()
                except StopIteration:
                    break
                if tag == 1:
                    o = {"kind": nx()}
                    o["cols"] = rz()
                    o["rows"] = rz()
                    o["cursor"] = [nx(), nx()] if nx() else None
                    o["popup"] = [nx(), nx(), nx()] if nx() else None
                    o["fin"] = nx()
                    if nx() == 0:
                        o["content"] = [[cell() for _ in range(nx())] for _ in range(nx())]
                    else:
                        o["content"] = {"err": nx()}
                    sh = []
                    for _ in range(nx()):
                        n = nx()
                        cvs = []
                        for _ in range(nx()):
                            a = [nx(), nx(), nx(), nx()]
                            m = None
                            if nx():
                                m = [[nx(), nx()] for _ in range(nx())]
                            cvs.append(a + [m, nx()])
                        sh.append([n, cvs])
                    o["shards"] = sh
                    wf.append(nx())
                    res["obs"].append(o)
                elif tag == 2:
                    res["error"] = nx()
                elif tag == 3:
                    if nx() == 0:
                        rows = []
                        for _ in range(nx()):
                            items = []
                            for _ in range(nx()):
                                if nx() == 0:
                                    items.append(["s", nx()])
                                else:
                                    items.append(["c", cell()])
                            rows.append(items)
                        res["deltas"].append(rows)
                    else:
                        res["deltas"].append({"err": nx()})
                elif tag == 4:
                    raw = []
                    for _ in range(nx()):
                        if nx() == 0:
                            raw.append(None)
                        else:
                            o = nx()
                            raw.append([o, [nx() for _ in range(nx())]])
                    res["alias"] = self.alias_pattern(raw)
                elif tag == 5:
                    if nx() == 0:
                        res["probes"].append([[[nx(), nx(), [nx() for _ in range(nx())]] for _ in range(nx())] for _ in range(nx())])
                    else:
                        res["probes"].append({"err": nx()})
                else:
                    return {"malformed": ints[:60]}
        except StopIteration:
            return {"malformed": ints[:60]}
        # the invariant WF assumed by the theorems must hold for every composite canvas obtained by
        # operations applied where they are defined (the grid evaluator decides "defined")
        leaves = [self.g_leaf(s) for s in case["leaves"]]
        env = []
        for n, t in enumerate(case["defs"]):
            v = self.g_eval(t, leaves, env)
            env.append(v)
            if v is None or n >= len(res["obs"]):
                break
            if res["obs"][n]["kind"] == 1 and not wf[n]:
                return {"model-invariant-broken": "wfb is false for def#%d although every operation is defined" % n}
        self.wf_seen = getattr(self, "wf_seen", 0) + sum(1 for x in wf if x)
        return res

    # ================================================================= oracle: a plain 2-D array of cells
    # A grid value: {"g": rows of [kind, attr, cs, chars], "cur": cursor worlds, "pop": [(x, y, w, covered)]}
    # "cur" lists the cursors the value may carry: None (no cursor) or (x, y, covered).  Where several operands
    # carry a cursor the property does not say whose survives, so each is a possible world; every later operation
    # is applied to every world (a trim that removes the cursor's cell turns that world into None).
    # cs == "*" is a wildcard (the charset of the space that replaces a cut double-width character).
    @staticmethod
    def g_leaf(spec):
        if spec["t"] == "solid":
            if spec["cols"] <= 0 or spec["rows"] < 0:
                return None
            # rows == 0: a canvas without rows (what an empty Pile renders); only its width is known ("w")
            return {"g": [[[0, 0, spec["cs"], spec["ch"]] for _ in range(spec["cols"])] for _ in range(spec["rows"])],
                    "cur": [None], "pop": [], "w": spec["cols"]}
        rows = []
        for cells in spec["rows"]:
            r = []
            for a, c, ch in cells:
                if chw(ch[0]) == 2:
                    r += [[1, a, c, ch], [2, a, c, ""]]
                else:
                    r.append([0, a, c, ch])
            rows.append(r)
        mc = spec.get("maxcol")
        if mc is None:
            mc = max([len(r) for r in rows] + [0])
        if mc <= 0 or not rows or any(len(r) > mc for r in rows):
            return None
        rows = [r + [[0, 0, 0, " "] for _ in range(mc - len(r))] for r in rows]
        cur = [(spec["cursor"][0], spec["cursor"][1], False)] if spec.get("cursor") is not None else [None]
        return {"g": rows, "cur": cur, "pop": []}

    @staticmethod
    def w_merge(ops):
        """cursor worlds of a combination: any operand's cursor; no cursor only if no operand need have one"""
        out = []
        for ws in ops:
            for w in ws:
                if w is not None and w not in out:
                    out.append(w)
        if all(None in ws for ws in ops):
            out.append(None)
        return out

    @staticmethod
    def w_map(ws, f):
        out = []
        for w in ws:
            w2 = None if w is None else f(w)
            if w2 not in out:
                out.append(w2)
        return out

    @staticmethod
    def g_cut(row):
        """Cells of a horizontally cut row: dangling halves of double-width characters become spaces."""
        row = [list(c) for c in row]
        if row and row[0][0] == 2:
            row[0] = [0, row[0][1], "*", " "]
        if row and row[-1][0] == 1:
            row[-1] = [0, row[-1][1], "*", " "]
        return row

    def g_eval(self, t, leaves, env):
        """Grid evaluation of a tree.  Returns a grid value or None when some operation is applied outside
        the domain where the property defines it (then nothing is demanded)."""
        BL = [0, 0, 0, " "]
        k = t[0]
        if k == "leaf":
            i = t[1]
            if not (1 <= i <= len(leaves)) or leaves[i - 1] is None:
                return None
            v = leaves[i - 1]
            if not v["g"]:
                return None        # a canvas without rows is only defined as an operand of a join (handled there)
            return {"g": [[list(c) for c in r] for r in v["g"]], "cur": list(v["cur"]), "pop": list(v["pop"]), "leaf": True}
        if k == "ref":
            if not (0 <= t[1] < len(env)) or env[t[1]] is None:
                return None
            v = env[t[1]]
            return {"g": [[list(c) for c in r] for r in v["g"]], "cur": list(v["cur"]), "pop": list(v["pop"]),
                    "leaf": v.get("leaf", False), "fin": v.get("fin", False)}
        if k == "wrap":
            v = self.g_eval(t[1], leaves, env)
            if v is None:
                return None
            return {"g": v["g"], "cur": v["cur"], "pop": v["pop"]}
        if k == "combine":
            vs = [self.g_eval(s, leaves, env) for s in t[1]]
            if not vs or any(v is None for v in vs):
                return None
            w = len(vs[0]["g"][0])
            if any(len(v["g"][0]) != w for v in vs):
                return None
            g, cur, pop, y = [], [], [], 0
            for v in vs:
                g += v["g"]
                cur.append(self.w_map(v["cur"], lambda w, y=y: (w[0], w[1] + y, w[2])))
                pop += [(x, yy + y, ww, c) for x, yy, ww, c in v["pop"]]
                y += len(v["g"])
            return {"g": g, "cur": self.w_merge(cur), "pop": pop}
        if k == "join":
            def operand(s):
                # a leaf without rows joined with canvases that have rows: a blank block of its width
                if s[0] == "leaf" and 1 <= s[1] <= len(leaves) and leaves[s[1] - 1] is not None and not leaves[s[1] - 1]["g"]:
                    return {"g": [], "cur": [None], "pop": [], "w": leaves[s[1] - 1]["w"]}
                return self.g_eval(s, leaves, env)
            vs = [(operand(s), c) for s, c in t[1]]
            if not vs or any(v is None for v, _ in vs):
                return None
            width = lambda v: len(v["g"][0]) if v["g"] else v["w"]
            if any(c < width(v) for v, c in vs):
                return None
            h = max(len(v["g"]) for v, _ in vs)
            if h == 0:
                return None
            g = [[] for _ in range(h)]
            cur, pop, x0 = [], [], 0
            for v, c in vs:
                w = width(v)
                for y in range(h):
                    g[y] += (v["g"][y] if y < len(v["g"]) else [list(BL) for _ in range(w)]) + [list(BL) for _ in range(c - w)]
                cur.append(self.w_map(v["cur"], lambda ww_, x0=x0: (ww_[0] + x0, ww_[1], ww_[2])))
                pop += [(x + x0, y, ww, cc) for x, y, ww, cc in v["pop"]]
                x0 += c
            return {"g": g, "cur": self.w_merge(cur), "pop": pop}
        if k == "overlay":
            top_v = self.g_eval(t[1], leaves, env)
            bot = self.g_eval(t[2], leaves, env)
            if top_v is None or bot is None or top_v.get("leaf"):
                return None
            left, top = t[3], t[4]
            W, H = len(bot["g"][0]), len(bot["g"])
            w, h = len(top_v["g"][0]), len(top_v["g"])
            if left < 0 or top < 0 or left + w > W or top + h > H:
                return None
            g = [list(r) for r in bot["g"]]
            for y in range(h):
                r = g[top + y]
                g[top + y] = self.g_cut(r[:left]) + top_v["g"][y] + self.g_cut(r[left + w:])
            inside = lambda x, y: left <= x < left + w and top <= y < top + h
            cur = self.w_merge([self.w_map(bot["cur"], lambda ww_: (ww_[0], ww_[1], ww_[2] or inside(ww_[0], ww_[1]))),
                                self.w_map(top_v["cur"], lambda ww_: (ww_[0] + left, ww_[1] + top, ww_[2]))])
            pop = [(x, y, ww, c or inside(x, y)) for x, y, ww, c in bot["pop"]] + [(x + left, y + top, ww, c) for x, y, ww, c in top_v["pop"]]
            return {"g": g, "cur": cur, "pop": pop}
        if k in MUTATORS:
            v = self.g_eval(t[1], leaves, env)
            if v is None or v.get("leaf") or v.get("fin"):
                return None
            g = v["g"]
            W, H = len(g[0]), len(g)
            dx = dy = 0
            if k == "padlr":
                l, r = t[2], t[3]
                if W + min(l, 0) + min(r, 0) <= 0:
                    return None
                ng = []
                for row in g:
                    row = row[max(0, -l):W - max(0, -r)]
                    if l < 0 or r < 0:
                        row = self.g_cut(row)
                    ng.append([list(BL) for _ in range(max(0, l))] + row + [list(BL) for _ in range(max(0, r))])
                g, dx = ng, l
            elif k == "padtb":
                tp, b = t[2], t[3]
                if H + min(tp, 0) + min(b, 0) <= 0:
                    return None
                g = g[max(0, -tp):H - max(0, -b)]
                g = [[list(BL) for _ in range(W)] for _ in range(max(0, tp))] + g + [[list(BL) for _ in range(W)] for _ in range(max(0, b))]
                dy = tp
            elif k == "trim":
                top, count = t[2], t[3]
                if not (0 <= top < H) or (count is not None and not (1 <= count <= H - top)):
                    return None
                g = g[top:] if count is None else g[top:top + count]
                dy = -top
            elif k == "trimend":
                e = t[2]
                if not (1 <= e < H):
                    return None
                g = g[:H - e]
            elif k == "fill":
                m = {}
                for a, b in t[2]:
                    m[a] = b
                g = [[[c[0], m.get(c[1], c[1]), c[2], c[3]] for c in row] for row in g]
            nW, nH = len(g[0]), len(g)
            cur = v["cur"]
            if k == "padtb":
                # the trimming part shifts by -trim_top and drops a cursor outside the trimmed canvas, then the
                # top padding shifts what is left
                tp, b = t[2], t[3]
                if tp < 0 or b < 0:
                    tH = H - max(0, -tp) - max(0, -b)
                    cur = self.w_map(cur, lambda ww_: (ww_[0], ww_[1] - max(0, -tp), ww_[2]))
                    cur = self.w_map(cur, lambda ww_: ww_ if (0 <= ww_[0] < W and 0 <= ww_[1] < tH) else None)
                if tp > 0:
                    cur = self.w_map(cur, lambda ww_: (ww_[0], ww_[1] + tp, ww_[2]))
            else:
                cur = self.w_map(cur, lambda ww_: (ww_[0] + dx, ww_[1] + dy, ww_[2]))
                if k in ("trim", "trimend") or (k == "padlr" and (t[2] < 0 or t[3] < 0)):
                    # content removed => its cursor removed
                    cur = self.w_map(cur, lambda ww_: ww_ if (0 <= ww_[0] < nW and 0 <= ww_[1] < nH) else None)
            out = {"g": g, "cur": cur,
                   "pop": [(x + dx, y + dy, w, c) for x, y, w, c in v["pop"]]}
            if k == "cursor":
                out["cur"] = [None] if t[2] is None else [(t[2][0], t[2][1], False)]
            elif k == "popup":
                out["pop"] = [(t[3], t[4], t[2], False)]
            elif k == "finalize":
                out["fin"] = True
            return out
        return None

    @staticmethod
    def cells_equal(got, exp):
        if len(got) != len(exp):
            return False
        for a, b in zip(got, exp):
            if len(a) != len(b):
                return False
            for x, y in zip(a, b):
                if x[0] != y[0] or x[1] != y[1] or x[3] != y[3]:
                    return False
                if y[2] != "*" and x[2] != y[2]:
                    return False
        return True

    def oracle(self, case, res):
        msgs = []
        if "malformed" in res:
            return msgs
        if res["changed"]:
            msgs.append("operand canvases changed by a later operation: defs/leaves %s" % res["changed"])
        leaves = [self.g_leaf(s) for s in case["leaves"]]
        env = []
        defined_all = all(l is not None for l in leaves)
        for n, t in enumerate(case["defs"]):
            v = self.g_eval(t, leaves, env)
            env.append(v)
            if v is None:
                break          # undefined operation: later defs are not judged (the impl may have raised)
            if n >= len(res["obs"]):
                if defined_all:
                    msgs.append("def#%d: every operation is applied where it is defined but the implementation raised error code %s" % (n, res["error"]))
                break
            o = res["obs"][n]
            g = v["g"]
            H, W = len(g), len(g[0])
            if isinstance(o["content"], dict):
                msgs.append("def#%d: content() raised error code %s on a defined composition" % (n, o["content"]["err"]))
                continue
            if not self.cells_equal(o["content"], g):
                msgs.append("def#%d: content differs from the plain grid: got %s expected %s" % (n, self.show(o["content"]), self.show(g)))
            if o["cols"] != [0, W]:
                msgs.append("def#%d: cols() = %s, grid width %d" % (n, o["cols"], W))
            if o["rows"] != [0, H]:
                msgs.append("def#%d: rows() = %s, grid height %d" % (n, o["rows"], H))
            worlds = v["cur"]
            nonnone = [ww_ for ww_ in worlds if ww_ is not None]
            got = o["cursor"]
            if got is not None:
                if (got[0], got[1]) not in [(x, y) for x, y, _ in nonnone]:
                    msgs.append("def#%d: cursor at %s does not move with its content (expected one of %s%s)"
                                % (n, got, [(x, y) for x, y, _ in nonnone], " or none" if None in worlds else ""))
            elif None not in worlds:
                vis = [(x, y) for x, y, c in nonnone if not c and 0 <= x < W and 0 <= y < H]
                if vis:
                    msgs.append("def#%d: cursor lost (expected one of %s)" % (n, vis))
            for name, cands, got in (("pop-up", [(x, y, c) for x, y, w, c in v["pop"]], o["popup"][:2] if o["popup"] else None),):
                if got is not None:
                    if (got[0], got[1]) not in [(x, y) for x, y, _ in cands]:
                        msgs.append("def#%d: %s at %s does not move with its content (expected one of %s)" % (n, name, got, [(x, y) for x, y, _ in cands]))
                else:
                    vis = [(x, y) for x, y, c in cands if not c and 0 <= x < W and 0 <= y < H]
                    if vis:
                        msgs.append("def#%d: %s lost (expected one of %s)" % (n, name, vis))
            if o["popup"] is not None and o["popup"][2] not in [w for _, _, w, _ in v["pop"]]:
                msgs.append("def#%d: pop-up data %s is not the one that was set" % (n, o["popup"][2]))
        # a text leaf read through a window (what a cview does): the window of the leaf's grid, a double-width
        # character cut at either edge replaced by a space, the attribute map applied cell by cell
        enc = case.get("enc", "utf-8")
        for (i, tl_, tt_, c_, r_, m_), got in zip(self.probes_of(case), res.get("probes", [])):
            v = leaves[i - 1]
            if v is None:
                continue
            W, H = len(v["g"][0]), len(v["g"])
            cc, rr = c_ or W - tl_, r_ or H - tt_
            if not (0 <= tl_ < W and cc > 0 and tl_ + cc <= W and 0 <= tt_ < H and rr > 0 and tt_ + rr <= H):
                continue
            if isinstance(got, dict):
                msgs.append("leaf#%d.content(%d, %d, %d, %d): raised error code %s for a window inside the leaf" % (i, tl_, tt_, c_, r_, got["err"]))
                continue
            mm = {a: b for a, b in (m_ or [])}
            exp = [[[c[0], mm.get(c[1], c[1]), c[2], c[3]] for c in self.g_cut(row[tl_:tl_ + cc])] for row in v["g"][tt_:tt_ + rr]]
            gotc = [cells_of_row([(attr_py(a), CS.get(c, "?"), bytes(bs)) for a, c, bs in row], enc) for row in got]
            if not self.cells_equal(gotc, exp):
                msgs.append("leaf#%d.content(%d, %d, %d, %d): window of the text leaf differs from the window of its grid: got %s expected %s"
                            % (i, tl_, tt_, c_, r_, self.show(gotc), self.show(exp)))
        # delta clause: the difference applied to the old rows reproduces the new content
        for (i, j), d in zip(case.get("deltas", []), res["deltas"]):
            if i >= len(res["obs"]) or j >= len(res["obs"]):
                continue
            new, old = res["obs"][i], res["obs"][j]
            if isinstance(new["content"], dict) or isinstance(old["content"], dict):
                continue
            if new["cols"] != old["cols"] or new["rows"] != old["rows"] or new["cols"][0] or new["rows"][0]:
                continue
            if i >= len(env) or j >= len(env) or env[i] is None or env[j] is None:
                continue
            if isinstance(d, dict):
                msgs.append("delta(%d,%d): content_delta raised error code %s for two canvases of the same size" % (i, j, d["err"]))
                continue
            ok = len(d) == len(new["content"])
            if ok:
                for y, items in enumerate(d):
                    rec, x = [], 0
                    for it in items:
                        if it[0] == "s":
                            rec += old["content"][y][x:x + it[1]]
                            x += it[1]
                        else:
                            rec.append(it[1])
                            x += 1
                    if rec != new["content"][y]:
                        ok = False
                        break
            if not ok:
                msgs.append("delta(%d,%d): applying content_delta to the old rows does not reproduce the new content" % (i, j))
        return msgs

    @staticmethod
    def show(g):
        return "|".join("".join((c[3] if c[0] != 2 else "·") + ("" if not c[1] else "'%d" % c[1]) for c in r) for r in g)[:200]

    def nontrivial(self, case, res):
        return any(o.get("kind") == 1 for o in res.get("obs", []))

    def signature(self, case, msg):
        msg = re.sub(r"got .*", "", msg)
        return re.sub(r"-?\d+", "N", msg)

    def distribution(self, case, res, dist):
        def walk(t):
            dist["op:" + t[0]] = dist.get("op:" + t[0], 0) + 1
            if t[0] in ("combine",):
                for s in t[1]:
                    walk(s)
            elif t[0] == "join":
                for s, _ in t[1]:
                    walk(s)
            elif t[0] == "overlay":
                walk(t[1]), walk(t[2])
            elif t[0] in MUTATORS or t[0] == "wrap":
                walk(t[1])

        def depth(t):
            if t[0] in ("leaf", "ref"):
                return 0
            if t[0] == "combine":
                return 1 + max([depth(s) for s in t[1]] + [0])
            if t[0] == "join":
                return 1 + max([depth(s) for s, _ in t[1]] + [0])
            if t[0] == "overlay":
                return 1 + max(depth(t[1]), depth(t[2]))
            return 1 + depth(t[1])
        for t in case["defs"]:
            walk(t)
            k = "depth:%d" % min(depth(t), 9)
            dist[k] = dist.get(k, 0) + 1
        dist["err:%s" % res.get("error")] = dist.get("err:%s" % res.get("error"), 0) + 1
        wide_cut = 0
        for o in res.get("obs", []):
            if isinstance(o["content"], dict):
                dist["content_err"] = dist.get("content_err", 0) + 1
        for d in res.get("deltas", []):
            if isinstance(d, dict):
                dist["delta:err"] = dist.get("delta:err", 0) + 1
            else:
                skip = any(it[0] == "s" for r in d for it in r)
                full = all(it[0] == "s" for r in d for it in r) and bool(d)
                kk = "delta:all-unchanged" if full else ("delta:some-unchanged" if skip else "delta:all-changed")
                dist[kk] = dist.get(kk, 0) + 1
        if case.get("malformed"):
            dist["malformed-stream"] = dist.get("malformed-stream", 0) + 1
        dist["enc:" + case.get("enc", "utf-8")] = dist.get("enc:" + case.get("enc", "utf-8"), 0) + 1

        def fills(t, over):
            """fill over a canvas that already carries a map; fill with a falsy target"""
            if t[0] in ("leaf", "ref"):
                return
            if t[0] == "fill":
                if over.get("inner"):
                    dist["fill-over-fill"] = dist.get("fill-over-fill", 0) + 1
                if any(b in (0, 8, 9) for _, b in t[2]):
                    dist["fill-to-falsy"] = dist.get("fill-to-falsy", 0) + 1
            for s in ([x for x in t[1]] if t[0] == "combine" else [x for x, _ in t[1]] if t[0] == "join"
                      else [t[1], t[2]] if t[0] == "overlay" else [t[1]]):
                fills(s, over)
            if t[0] == "fill":
                over["inner"] = True
        for t in case["defs"]:
            fills(t, {})
        # a cut double-width character shows up as a space that the leaves do not contain at that place:
        # count the cases in which the grid evaluator produced a wildcard-charset cell
        try:
            lv = [self.g_leaf(sp) for sp in case["leaves"]]
            env = []
            for t in case["defs"]:
                v = self.g_eval(t, lv, env)
                env.append(v)
                if v is None:
                    break
                if any(c[2] == "*" for r in v["g"] for c in r):
                    dist["cut-wide-char"] = dist.get("cut-wide-char", 0) + 1
                    break
        except Exception:
            pass
        if any(sp["t"] == "text" and any(chw(ch[0]) == 2 for r in sp["rows"] for _, _, ch in r) for sp in case["leaves"]):
            dist["has-wide"] = dist.get("has-wide", 0) + 1

    # ================================================================= generators
    _gen_enc = "utf-8"

    def pick_enc(self, rng):
        """encoding of the next generated case: mostly UTF-8, else one of the double-byte encodings"""
        self._gen_enc = "utf-8" if rng.random() < 0.8 else rng.choice(DB_ENCODINGS)
        return self._gen_enc

    def gen_leaf(self, rng, cols=None, rows=None, wide_bias=0.3):
        db = self._gen_enc != "utf-8"
        narrow, wide = (DB_NARROW, DB_WIDE[self._gen_enc]) if db else (NARROW, WIDE)
        pa = [0, 0, 1, 2, 3] if rng.random() < 0.85 else [0, 1, 2, 8, 9]
        if rng.random() < 0.12:
            return {"t": "solid", "cs": 0, "ch": rng.choice("x.-q") + (rng.choice(ZERO) if rng.random() < 0.1 and not db else ""),
                    "cols": cols or rng.randint(1, 5), "rows": rows or rng.randint(1, 3)}
        cols = cols or rng.choice([1, 2, 3, 3, 4, 5, 6])
        rows = rows or rng.choice([1, 1, 2, 2, 3])
        short_ok = rng.random() < 0.2
        out = []
        for _ in range(rows):
            cells, w = [], 0
            target = cols if not short_ok else rng.randint(max(0, cols - 2), cols)
            a = rng.choice(pa[:4])
            c = 0
            while w < target:
                if rng.random() < 0.4:
                    a = rng.choice(pa)
                if rng.random() < 0.15:
                    c = rng.choice([0, 0, 1, 2])
                if w + 2 <= target and rng.random() < wide_bias:
                    ch = rng.choice(wide)
                    cc = 0 if c == 1 else c
                    w += 2
                else:
                    ch = rng.choice(narrow)
                    cc = c
                    w += 1
                if rng.random() < 0.08 and not db:
                    ch += rng.choice(ZERO)
                cells.append([a, cc, ch])
            out.append(cells)
        spec = {"t": "text", "rows": out, "maxcol": cols if (short_ok or rng.random() < 0.5) else None,
                "cursor": [rng.randrange(cols), rng.randrange(rows)] if rng.random() < 0.3 else None,
                "mode": rng.choice([0, 1, 2]), "short": rng.random() < 0.3}
        if spec["maxcol"] is None and max(sum(chw(ch[0]) for _, _, ch in r) for r in out) < cols:
            spec["maxcol"] = cols
        return spec

    def gen_tree(self, rng, depth, leaves, nenv_dims, comp=False):
        """Random valid tree.  Returns (tree, cols, rows, is_leaf)."""
        def new_leaf(cols=None, rows=None):
            leaves.append(self.gen_leaf(rng, cols, rows))
            sp = leaves[-1]
            if sp["t"] == "solid":
                return ["leaf", len(leaves)], sp["cols"], sp["rows"]
            w = sp["maxcol"] if sp["maxcol"] is not None else max(sum(chw(ch[0]) for _, _, ch in r) for r in sp["rows"])
            return ["leaf", len(leaves)], w, len(sp["rows"])

        def fit_width(t, w, h, want, is_leaf):
            """pad / trim t to width want"""
            if w == want:
                return t
            if is_leaf or t[0] == "ref":
                t = ["wrap", t]
            d = want - w
            l = rng.randint(min(0, d), max(0, d))
            return ["padlr", t, l, d - l]

        if depth <= 0 or rng.random() < 0.18:
            r = rng.random()
            if r < 0.15 and nenv_dims:
                k = rng.randrange(len(nenv_dims))
                t, w, h = ["ref", k], nenv_dims[k][0], nenv_dims[k][1]
            elif r < 0.35 and [sp for sp in leaves if not (sp["t"] == "solid" and sp["rows"] == 0)]:
                i = rng.choice([j for j, sp in enumerate(leaves) if not (sp["t"] == "solid" and sp["rows"] == 0)])
                sp = leaves[i]
                if sp["t"] == "solid":
                    w, h = sp["cols"], sp["rows"]
                else:
                    w = sp["maxcol"] if sp["maxcol"] is not None else max(sum(chw(ch[0]) for _, _, ch in rr) for rr in sp["rows"])
                    h = len(sp["rows"])
                t = ["leaf", i + 1]
            else:
                t, w, h = new_leaf()
            if comp:
                return ["wrap", t], w, h, False
            return t, w, h, t[0] == "leaf"
        k = rng.choice(["combine", "combine", "join", "join", "overlay", "overlay", "padlr", "padlr", "padtb", "padtb",
                        "trim", "trimend", "fill", "fill", "wrap", "cursor", "popup", "finalize"])
        if k == "combine":
            n = rng.choice([1, 2, 2, 3])
            parts = [self.gen_tree(rng, depth - 1, leaves, nenv_dims) for _ in range(n)]
            want = parts[0][1]
            ts = [fit_width(t, w, h, want, lf) for t, w, h, lf in parts]
            return ["combine", ts], want, sum(p[2] for p in parts), False
        if k == "join":
            n = rng.choice([1, 2, 2, 3])
            parts = [self.gen_tree(rng, depth - 1, leaves, nenv_dims) for _ in range(n)]
            items = [[t, w + rng.choice([0, 0, 1, 2])] for t, w, h, lf in parts]
            if rng.random() < 0.12:
                # a canvas without rows (an empty Pile renders SolidCanvas(" ", cols, 0)) beside the others
                zw = rng.choice([1, 2, 3])
                leaves.append({"t": "solid", "cs": 0, "ch": " ", "cols": zw, "rows": 0})
                items.insert(rng.randint(0, len(items)), [["leaf", len(leaves)], zw + rng.choice([0, 0, 1])])
            return ["join", items], sum(c for _, c in items), max(p[2] for p in parts), False
        if k == "overlay":
            bt, W, H, _ = self.gen_tree(rng, depth - 1, leaves, nenv_dims)
            tt_, w, h, lf = self.gen_tree(rng, depth - 1, leaves, nenv_dims, comp=True)
            if w > W:
                tt_ = ["padlr", tt_, 0, W - w] if rng.random() < 0.5 else ["padlr", tt_, W - w, 0]
                w = W
            if h > H:
                tt_ = ["trim", tt_, rng.randint(0, h - H), H]
                h = H
            return ["overlay", tt_, bt, rng.randint(0, W - w), rng.randint(0, H - h)], W, H, False
        t, w, h, lf = self.gen_tree(rng, depth - 1, leaves, nenv_dims, comp=True)
        if k == "fill" and rng.random() < 0.35:
            # the operand already carries an attribute map
            t = ["fill", t, [[a, rng.choice([0, 1, 2, 3, 4, 8, 9])] for a in rng.sample([0, 1, 2, 3, 8, 9], rng.randint(1, 3))]]
        if k == "wrap":
            return ["wrap", t], w, h, False
        if k == "padlr":
            l = rng.randint(-min(3, w - 1), 2)
            r = rng.randint(-min(3, w - 1 - max(0, -l)), 2)
            return ["padlr", t, l, r], w + l + r, h, False
        if k == "padtb":
            a = rng.randint(-min(2, h - 1), 2)
            b = rng.randint(-min(2, h - 1 - max(0, -a)), 2)
            return ["padtb", t, a, b], w, h + a + b, False
        if k == "trim":
            top = rng.randint(0, h - 1)
            cnt = rng.choice([None] + list(range(1, h - top + 1)))
            return ["trim", t, top, cnt], w, (h - top if cnt is None else cnt), False
        if k == "trimend":
            if h < 2:
                return t, w, h, False
            e = rng.randint(1, h - 1)
            return ["trimend", t, e], w, h - e, False
        if k == "fill":
            # keys and targets range over the attributes in use, the default attribute None (0) and the two other
            # falsy attribute values (8, 9); a fill over a fill gets, half of the time, keys among the targets of
            # the inner map (the composition of the two maps is then not the union)
            keys, vals = [0, 1, 2, 3, 4, 8, 9], [0, 0, 1, 2, 3, 4, 8, 9]
            if t[0] == "fill" and rng.random() < 0.5:
                keys = sorted({b for _, b in t[2]}) + [rng.choice(keys)]
                keys = sorted(set(keys))
            m = [[a, rng.choice(vals)] for a in rng.sample(keys, rng.randint(1, min(3, len(keys))))]
            return ["fill", t, m], w, h, False
        if k == "cursor":
            return ["cursor", t, rng.choice([None, [rng.randrange(w), rng.randrange(h)]])], w, h, False
        if k == "popup":
            return ["popup", t, rng.randint(1, 9), rng.randrange(w), rng.randrange(h)], w, h, False
        if k == "finalize":
            # finalized canvases are only used as operands afterwards (wrap gives a fresh composite)
            return ["wrap", ["finalize", t]] if rng.random() < 0.8 else ["finalize", t], w, h, False
        raise core.MachineryError(k)

    def random_case(self, rng, depth):
        enc = self.pick_enc(rng)
        leaves, dims, defs = [], [], []
        for _ in range(rng.choice([1, 1, 1, 2, 3])):
            t, w, h, _ = self.gen_tree(rng, depth, leaves, dims)
            defs.append(t)
            dims.append((w, h))
        return self.with_enc({"leaves": leaves, "defs": defs, "deltas": []}, enc, rng)

    @staticmethod
    def leaf_dims(sp):
        w = sp["maxcol"] if sp.get("maxcol") is not None else max([sum(chw(ch[0]) for _, _, ch in r) for r in sp["rows"]] + [0])
        return w, len(sp["rows"])

    def gen_probes(self, rng, leaves, n):
        """direct reads TextCanvas.content(trim_left, trim_top, cols, rows, attr) of text leaves: mostly windows
        inside the leaf (0 = default for cols / rows), sometimes a window that sticks out"""
        txt = [i + 1 for i, sp in enumerate(leaves) if sp["t"] == "text"]
        out = []
        for _ in range(n if txt else 0):
            i = rng.choice(txt)
            W, H = self.leaf_dims(leaves[i - 1])
            W, H = max(W, 1), max(H, 1)
            tl_ = rng.randrange(W)
            c_ = rng.choice([0, W - tl_] + list(range(1, W - tl_ + 1)))
            tt_ = rng.randrange(H)
            r_ = rng.choice([0, H - tt_] + list(range(1, H - tt_ + 1)))
            if rng.random() < 0.1:
                k = rng.randrange(4)
                tl_, tt_, c_, r_ = (tl_ + rng.choice([-1, W]) if k == 0 else tl_, tt_ + rng.choice([-1, H]) if k == 1 else tt_,
                                    c_ + rng.choice([-W - 1, W]) if k == 2 else c_, r_ + rng.choice([-H - 1, H]) if k == 3 else r_)
            m_ = None
            if rng.random() < 0.5:
                m_ = [[a, rng.choice([0, 1, 2, 3, 4, 8, 9])] for a in rng.sample([0, 1, 2, 3, 8, 9], rng.randint(0, 3))]
            out.append([i, tl_, tt_, c_, r_, m_])
        return out

    def with_enc(self, case, enc, rng=None):
        if enc != "utf-8":
            case["enc"] = enc
        if rng is not None:
            pr = self.gen_probes(rng, case["leaves"], rng.choice([0, 1, 2, 3]))
            if pr:
                case["probes"] = pr
        return case

    def mangle(self, rng, t):
        """malformed stream: perturb one numeric argument somewhere in the tree"""
        t = list(t)
        k = t[0]
        kids = {"wrap": [1], "overlay": [1, 2]}.get(k, [1] if k in MUTATORS else [])
        if k == "combine" and t[1]:
            if rng.random() < 0.7:
                i = rng.randrange(len(t[1]))
                t[1] = t[1][:i] + [self.mangle(rng, t[1][i])] + t[1][i + 1:]
                return t
        if k == "join" and t[1]:
            i = rng.randrange(len(t[1]))
            if rng.random() < 0.5:
                t[1] = t[1][:i] + [[self.mangle(rng, t[1][i][0]), t[1][i][1]]] + t[1][i + 1:]
            else:
                t[1] = t[1][:i] + [[t[1][i][0], t[1][i][1] + rng.choice([-3, -2, -1, 1])]] + t[1][i + 1:]
            return t
        nums = [i for i in range(2, len(t)) if isinstance(t[i], int)]
        if kids and (not nums or rng.random() < 0.6):
            i = rng.choice(kids)
            t[i] = self.mangle(rng, t[i])
        elif nums:
            i = rng.choice(nums)
            t[i] = t[i] + rng.choice([-7, -3, -2, -1, 1, 2, 3, 7])
        return t

    def delta_case(self, rng):
        """pairs of canvases built from shared leaves: same tree rebuilt, one leaf swapped for a same-size one,
        one numeric argument changed, or an unrelated tree"""
        enc = self.pick_enc(rng)
        leaves, dims = [], []
        t, w, h, _ = self.gen_tree(rng, rng.choice([1, 2, 3]), leaves, dims, comp=True)
        how = rng.choice(["same", "swap", "swap", "tweak", "other", "band", "moved", "moved"])
        if how == "moved":
            # the same canvases placed at other columns / rows: a tall leaf beside a stack of short ones
            hh = rng.choice([2, 3])
            parts = []
            for k in range(rng.choice([2, 3])):
                wk = rng.choice([1, 2, 3])
                if rng.random() < 0.5:
                    leaves.append(self.gen_leaf(rng, wk, hh))
                    if leaves[-1]["t"] == "text":
                        leaves[-1]["maxcol"] = wk
                    parts.append([["leaf", len(leaves)], wk])
                else:
                    sub = []
                    for _ in range(hh):
                        leaves.append(self.gen_leaf(rng, wk, 1))
                        if leaves[-1]["t"] == "text":
                            leaves[-1]["maxcol"] = wk
                        sub.append(["leaf", len(leaves)])
                    parts.append([["combine", sub], wk])
            perm = parts[1:] + parts[:1] if rng.random() < 0.7 else list(reversed(parts))
            defs = [["join", parts], ["join", perm]]
            if rng.random() < 0.5:
                defs = [["combine", [defs[0], ["ref", 0]]] if False else defs[0], defs[1]]
            return self.with_enc({"leaves": leaves, "defs": defs, "deltas": [[1, 0], [0, 1], [0, 0]]}, enc)
        t2 = t
        if how == "swap" and leaves:
            i = rng.randrange(len(leaves))
            sp = leaves[i]
            if sp["t"] == "text":
                w0 = sp["maxcol"] if sp["maxcol"] is not None else max(sum(chw(ch[0]) for _, _, ch in r) for r in sp["rows"])
                leaves.append(self.gen_leaf(rng, w0, len(sp["rows"])))
                if leaves[-1]["t"] == "text":
                    leaves[-1]["maxcol"] = w0
            else:
                leaves.append(dict(sp, ch="-"))
            new_id = len(leaves)

            def sub(t, done=[False]):
                if t[0] == "leaf":
                    if t[1] == i + 1 and not done[0]:
                        done[0] = True
                        return ["leaf", new_id]
                    return t
                if t[0] == "ref":
                    return t
                if t[0] == "combine":
                    return ["combine", [sub(s) for s in t[1]]]
                if t[0] == "join":
                    return ["join", [[sub(s), c] for s, c in t[1]]]
                if t[0] == "overlay":
                    return ["overlay", sub(t[1]), sub(t[2]), t[3], t[4]]
                return [t[0], sub(t[1])] + list(t[2:])
            t2 = sub(t, [False])
        elif how == "tweak":
            t2 = self.mangle(rng, t)
        elif how == "other":
            t2, _, _, _ = self.gen_tree(rng, 2, leaves, dims, comp=True)
        elif how == "band":
            # same size, different row bands: one h-row leaf against h one-row leaves
            leaves.append(self.gen_leaf(rng, w, h))
            if leaves[-1]["t"] == "text":
                leaves[-1]["maxcol"] = w
            whole = ["wrap", ["leaf", len(leaves)]]
            parts = []
            for _ in range(h):
                leaves.append(self.gen_leaf(rng, w, 1))
                if leaves[-1]["t"] == "text":
                    leaves[-1]["maxcol"] = w
                parts.append(["leaf", len(leaves)])
            t, t2 = whole, ["combine", parts]
        defs = [t, t2]
        deltas = [[1, 0], [0, 1], [0, 0]]
        if rng.random() < 0.4:
            defs.append(["combine", [["ref", 0], ["ref", 1]]] if rng.random() < 0.5 else ["join", [[["ref", 0], w], [["ref", 1], w]]])
            defs.append(["combine", [["ref", 1], ["ref", 0]]] if rng.random() < 0.5 else ["join", [[["ref", 0], w], [["ref", 0], w]]])
            deltas += [[2, 3], [3, 2]]
        return self.with_enc({"leaves": leaves, "defs": defs, "deltas": deltas}, enc)

    WLEAF = {"t": "text", "rows": [[[1, 0, WIDE[0]], [0, 0, "a"], [2, 0, WIDE[1]], [0, 0, "b\u0301"]],
                                   [[0, 0, "c"], [3, 0, WIDE[2]], [3, 0, WIDE[0]], [0, 1, "q"]]],
             "maxcol": 6, "cursor": [2, 1], "mode": 1, "short": False}
    TLEAF = {"t": "text", "rows": [[[2, 0, WIDE[1]], [1, 0, "x"]]], "maxcol": 3, "cursor": [0, 0], "mode": 0, "short": False}

    def systematic(self):
        """every pad/trim amount and every overlay offset over rows that contain double-width characters"""
        W, H = 6, 2
        for l in range(-W, 3):
            for r in range(-W, 3):
                if W + min(l, 0) + min(r, 0) > 0:
                    yield {"leaves": [self.WLEAF], "defs": [["padlr", ["wrap", ["leaf", 1]], l, r]], "deltas": []}
        base = ["combine", [["leaf", 1], ["join", [[["leaf", 2], 4], [["leaf", 2], 3]]] if False else ["padlr", ["wrap", ["leaf", 2]], 1, 2], ["leaf", 1]]]
        HH = 5
        for top in range(0, HH):
            for cnt in [None] + list(range(1, HH - top + 1)):
                yield {"leaves": [self.WLEAF, self.TLEAF], "defs": [["trim", base, top, cnt]], "deltas": []}
        for a in range(-HH + 1, 3):
            for b in range(-HH + 1, 3):
                if HH + min(a, 0) + min(b, 0) > 0:
                    yield {"leaves": [self.WLEAF, self.TLEAF], "defs": [["padtb", base, a, b]], "deltas": []}
        for e in range(1, HH):
            yield {"leaves": [self.WLEAF, self.TLEAF], "defs": [["trimend", base, e]], "deltas": []}
        # a join whose parts have different heights, then every window of it
        jn = ["join", [[["leaf", 1], 7], [["combine", [["leaf", 2], ["leaf", 2], ["leaf", 2]]], 3], [["leaf", 2], 4]]]
        JW, JH = 14, 3
        for l in range(0, JW):
            for w in range(1, JW - l + 1):
                if (l + w) % 3 == 0 or l % 4 == 1 or w <= 2:
                    yield {"leaves": [self.WLEAF, self.TLEAF], "defs": [["padlr", jn, -l, -(JW - l - w)]], "deltas": []}
        for top in range(0, JH):
            for cnt in range(1, JH - top + 1):
                yield {"leaves": [self.WLEAF, self.TLEAF], "defs": [["trim", jn, top, cnt]], "deltas": []}
        # overlay of a 3x1 canvas at every offset of the 6x2 and of the 14x3 canvas
        for left in range(0, W - 3 + 1):
            for top in range(0, H):
                yield {"leaves": [self.WLEAF, self.TLEAF], "defs": [["overlay", ["wrap", ["leaf", 2]], ["leaf", 1], left, top]], "deltas": []}
        for left in range(0, JW - 3 + 1):
            for top in range(0, JH):
                yield {"leaves": [self.WLEAF, self.TLEAF], "defs": [["overlay", ["wrap", ["leaf", 2]], jn, left, top]], "deltas": []}
        two = ["combine", [["leaf", 2], ["leaf", 2]]]
        for left in range(0, JW - 3 + 1):
            for top in range(0, JH - 1):
                yield {"leaves": [self.WLEAF, self.TLEAF], "defs": [["fill", ["overlay", two, jn, left, top], [[0, 4], [2, 1]]]], "deltas": []}

    def fill_systematic(self):
        """attribute maps applied twice: every single-entry inner map k -> v followed by every single-entry outer
        map v -> v2 (v2 ranging over ordinary attributes, the default attribute None and the other falsy values),
        directly and through an overlay / join whose parts carry different maps"""
        leaf = {"t": "text", "rows": [[[0, 0, "a"], [1, 0, "b"], [2, 0, WIDE[0]], [3, 0, "c"], [8, 0, "x"], [9, 0, "y"]]],
                "maxcol": 7, "cursor": None, "mode": 1, "short": False}
        vals = [0, 1, 4, 8, 9]
        for k in [0, 1, 2, 8, 9]:
            for v in vals:
                for v2 in vals:
                    inner = ["fill", ["wrap", ["leaf", 1]], [[k, v]]]
                    yield {"leaves": [leaf], "defs": [["fill", inner, [[v, v2], [3, 2]]]], "deltas": []}
        for v in vals:
            for v2 in vals:
                a = ["fill", ["wrap", ["leaf", 1]], [[1, v], [2, 3]]]
                b = ["fill", ["wrap", ["leaf", 1]], [[0, v], [3, v2]]]
                yield {"leaves": [leaf], "defs": [["fill", ["join", [[a, 7], [["leaf", 1], 8], [b, 7]]], [[v, v2], [3, 0]]]], "deltas": []}
                yield {"leaves": [leaf], "defs": [["fill", ["overlay", ["padlr", a, -2, -2], ["combine", [b, ["leaf", 1]]], 3, 0],
                                                   [[v, v2], [4, 8]]]], "deltas": []}

    def db_systematic(self):
        """every window and every overlay offset over rows written in each double-byte encoding, with double-width
        characters of every trail-byte class of the encoding and narrow ASCII characters from the trail-byte range"""
        for enc in DB_ENCODINGS:
            pool = DB_WIDE[enc]
            for v0 in range(0, len(pool), 5):
                ws = [pool[(v0 + i) % len(pool)] for i in range(5)]
                wl = {"t": "text", "rows": [[[1, 0, ws[0]], [0, 0, "a"], [2, 0, ws[1]], [0, 0, "~"]],
                                            [[0, 0, "@"], [3, 0, ws[2]], [3, 0, ws[3]], [0, 1, "q"]]],
                      "maxcol": 6, "cursor": [2, 1], "mode": 1, "short": False}
                tl_ = {"t": "text", "rows": [[[2, 0, ws[4]], [1, 0, "|"]]], "maxcol": 3, "cursor": [0, 0], "mode": 0, "short": False}
                mk = lambda d: {"leaves": [wl, tl_], "defs": [d], "deltas": [], "enc": enc}
                W, H = 6, 2
                for l in range(-W, 2):
                    for r in range(-W, 2):
                        if W + min(l, 0) + min(r, 0) > 0:
                            yield mk(["padlr", ["wrap", ["leaf", 1]], l, r])
                jn = ["join", [[["leaf", 1], 7], [["combine", [["leaf", 2], ["leaf", 2], ["leaf", 2]]], 3], [["leaf", 2], 4]]]
                JW, JH = 14, 3
                for l in range(0, JW):
                    for w in range(1, JW - l + 1):
                        if (l + w) % 3 == 0 or w <= 2:
                            yield mk(["padlr", jn, -l, -(JW - l - w)])
                for left in range(0, W - 3 + 1):
                    for top in range(0, H):
                        yield mk(["overlay", ["wrap", ["leaf", 2]], ["leaf", 1], left, top])
                for left in range(0, JW - 3 + 1):
                    for top in range(0, JH):
                        yield mk(["overlay", ["wrap", ["leaf", 2]], jn, left, top])
                for m_ in (None, [[1, 0], [3, 9], [0, 2]]):
                    yield dict(mk(["wrap", ["leaf", 1]]), probes=self.all_windows(1, W, H, m_) + self.all_windows(2, 3, 1, m_))

    @staticmethod
    def all_windows(leaf, W, H, m_):
        return [[leaf, a, b, c, d, m_] for a in range(W) for c in range(0, W - a + 1) for b in range(H) for d in range(0, H - b + 1)]

    def zero_row_systematic(self):
        """a canvas without rows at every position of a join, then every trim, window and overlay offset of the result"""
        z = {"t": "solid", "cs": 0, "ch": " ", "cols": 2, "rows": 0}
        L = [self.WLEAF, self.TLEAF, z]
        for pos in range(3):
            for zc in (2, 3):
                items = [[["leaf", 1], 6], [["combine", [["leaf", 2], ["leaf", 2], ["leaf", 2]]], 3]]
                items.insert(pos, [["leaf", 3], zc])
                jn = ["join", items]
                JW, JH = 9 + zc, 3
                yield {"leaves": L, "defs": [jn], "deltas": []}
                for top in range(JH):
                    for cnt in [None] + list(range(1, JH - top + 1)):
                        yield {"leaves": L, "defs": [["trim", jn, top, cnt]], "deltas": []}
                for a in (-1, 1):
                    for b in (-1, 0, 2):
                        yield {"leaves": L, "defs": [["padtb", jn, a, b]], "deltas": []}
                for l in range(0, JW, 2):
                    for w in (1, 2, 5):
                        if l + w <= JW:
                            yield {"leaves": L, "defs": [["padlr", jn, -l, -(JW - l - w)]], "deltas": []}
                for left in range(0, JW - 3 + 1):
                    for top in range(JH):
                        yield {"leaves": L, "defs": [["overlay", ["wrap", ["leaf", 2]], jn, left, top]], "deltas": []}
                yield {"leaves": L, "defs": [jn, ["combine", [["ref", 0], jn]], ["join", [[["ref", 0], JW], [["leaf", 3], 2]]]],
                       "deltas": [[0, 0]]}

    def cases(self, rng, tier):
        for c in self.systematic():
            yield c
        for c in self.zero_row_systematic():
            yield c
        for c in self.fill_systematic():
            yield c
        for m_ in (None, [[1, 0], [3, 9], [0, 2]]):
            yield {"leaves": [self.WLEAF, self.TLEAF], "defs": [["wrap", ["leaf", 1]]], "deltas": [],
                   "probes": self.all_windows(1, 6, 2, m_) + self.all_windows(2, 3, 1, m_)}
        for c in self.db_systematic():
            yield c
        n = 6000 if tier == "quick" else 60000
        for i in range(n):
            yield self.random_case(rng, rng.choice([1, 2, 3, 4, 5, 6]))
        for i in range(n // 4):
            yield self.delta_case(rng)
        for i in range(n // 8):
            c = self.random_case(rng, rng.choice([1, 2, 3, 4]))
            k = rng.randrange(len(c["defs"]))
            c["defs"][k] = self.mangle(rng, c["defs"][k])
            if all(tree_ok(t) for t in c["defs"]):
                c["malformed"] = True
                yield c

    def search_cases(self, rng, tier):
        while True:
            yield self.random_case(rng, rng.choice([1, 2, 3]))
            yield self.delta_case(rng)

    # ================================================================= shrinking
    def shrink_candidates(self, case):
        def subtrees(t):
            k = t[0]
            if k == "combine":
                return list(t[1])
            if k == "join":
                return [s for s, _ in t[1]]
            if k == "overlay":
                return [t[1], t[2]]
            if k in MUTATORS or k == "wrap":
                return [t[1]]
            return []

        def variants(t):
            """trees obtained from t by one simplification somewhere"""
            for s in subtrees(t):
                yield s
            k = t[0]
            if k == "combine":
                for i in range(len(t[1])):
                    if len(t[1]) > 1:
                        yield ["combine", t[1][:i] + t[1][i + 1:]]
                    for v in variants(t[1][i]):
                        yield ["combine", t[1][:i] + [v] + t[1][i + 1:]]
            elif k == "join":
                for i in range(len(t[1])):
                    if len(t[1]) > 1:
                        yield ["join", t[1][:i] + t[1][i + 1:]]
                    for v in variants(t[1][i][0]):
                        yield ["join", t[1][:i] + [[v, t[1][i][1]]] + t[1][i + 1:]]
            elif k == "overlay":
                for v in variants(t[1]):
                    yield ["overlay", v, t[2], t[3], t[4]]
                for v in variants(t[2]):
                    yield ["overlay", t[1], v, t[3], t[4]]
            elif k in MUTATORS or k == "wrap":
                for v in variants(t[1]):
                    yield [k, v] + list(t[2:])
        defs = case["defs"]
        if len(defs) > 1 and not case.get("deltas"):
            for i in range(len(defs)):
                uses = any(("[\"ref\", %d]" % j) in core.canon(d).replace(",", ", ") for d in defs for j in range(i, len(defs)))
                if not uses:
                    yield dict(case, defs=defs[:i] + defs[i + 1:])
        for i, d in enumerate(defs):
            n = 0
            for v in variants(d):
                n += 1
                if n > 60:
                    break
                c = dict(case, defs=defs[:i] + [v] + defs[i + 1:])
                if all(tree_ok(t) for t in c["defs"]):
                    yield c
        for i, sp in enumerate(case["leaves"]):
            if sp["t"] == "text":
                if sp.get("cursor") is not None:
                    yield dict(case, leaves=case["leaves"][:i] + [dict(sp, cursor=None)] + case["leaves"][i + 1:])
                plain = [[[0, 0, "a"] if chw(ch[0]) == 1 else [0, 0, ch[0]] for a, c, ch in r] for r in sp["rows"]]
                if plain != sp["rows"]:
                    yield dict(case, leaves=case["leaves"][:i] + [dict(sp, rows=plain)] + case["leaves"][i + 1:])


C02.level_text = (
    "Proved in Coq, for EVERY program of canvas operations of any length and nesting depth with shared operands "
    "(canvas_composition_is_grid): wherever the plain-grid semantics (Model/CanvasGrid.v) defines the operations, the "
    "shard model of canvas.py raises nothing and every resulting canvas has cell-for-cell the content (text, attribute, "
    "charset), the cols()/rows() and the cursor / pop-up coordinates of the grid value, and satisfies the well-formedness "
    "invariant WF.  This covers CanvasCombine, CanvasJoin with padding, CanvasOverlay at any offset inside the bottom canvas, "
    "CompositeCanvas(c), pad_trim_left_right / pad_trim_top_bottom with any mix of padding and trimming, trim, trim_end, "
    "fill_attr_apply (and composition of attribute maps), cursor, pop-up and finalize; after trim / trim_end / a trimming "
    "pad_trim_left_right / pad_trim_top_bottom the cursor is the moved cursor when it still lies inside the canvas and is gone "
    "otherwise (_drop_cursor_outside; pop-up coordinates are kept).  Per-operation theorems on shard "
    "lists (append = stacking, shards_trim_rows = take, shards_trim_top = drop, shards_trim_sides = window of every row, "
    "shards_join = row-wise concatenation, attribute map = cell map) each with WF preservation and size; a double-width "
    "character cut by a window becomes a space and a window of a window is the window; content() of a WF canvas has "
    "rows() rows of cols() cells and no half character at a row edge.  The key lemma content_correct ties the Python "
    "shard_body/shard_body_row/shard_body_tail iterator algorithm to a 'remaining rows' machine.  The delta clause is "
    "proved as well (delta_applied_to_old_rows_gives_new_rows): for any two well-formed canvases of equal size, "
    "content_delta (shards_delta, shard_cviews_delta, the shard machinery over cviews flagged unchanged, merged skips, the "
    "repeated-[int]-row shortcut) does not raise and, applied to the old rows, reproduces the new rows exactly; premise: "
    "integer canvas ids model object identity (equal id => same leaf canvas).  Nothing is left _partial.  'The operand canvases "
    "are left unchanged' is proved on a heap layer (Model/CanvasHeap.v) that makes Python's aliasing explicit: a composite "
    "canvas holds a reference to its shards list and every shard a reference to its cviews list; CompositeCanvas(c) shares "
    "the list, Combine / trim(top) / pad_trim_* / overlay share the shard tuples they keep, pad_trim_top_bottom appends in "
    "place unless the list is still the operand's (the .copy()).  Theorems: no operation writes to a list object that "
    "existed before it (no_operation_writes_to_an_existing_list_object; the only in-place write hits a list created by the "
    "same call); operands_unchanged: for every program, every bound canvas denotes the same canvas value after any later "
    "operations; heap_machine_refines_pure_machine: the machine over references (the one that is extracted) computes exactly "
    "what the pure machine computes, so the composition theorem holds for it (canvas_composition_is_grid_on_the_heap).  The "
    "oracle still re-reads every bound canvas and leaf at the end of each case.  "
    "Extension 2 - below the cells: Model/CanvasBytes.v models TextCanvas itself (byte strings, run-length attribute / charset lists, "
    "the constructor's width check and padding, content() with util.trim_text_attr_cs and util.rle_product) on top of the C11 model of "
    "str_util.py / util.py (translated integer code, imported read-only).  Proved for EVERY row of well-formed double-byte text (big5 / gbk / "
    "uhc / euc-* : lead 0x81..0xFF, trail 0x40..0x7E or 0x80..0xFF) with any attribute / charset run-length split and every window: "
    "trim_text_attr_cs returns the bytes and runs of a row whose cells are trim_cells of the cells - a double-width character cut by either "
    "edge becomes one 0x20 with the character's attribute and charset None (double_byte_row_trim_is_cell_trim, using C11's "
    "within_double_byte_exact and calc_trim_text_double_byte); rle_subseg is the slice and rle_product the CANONICAL zip of the per-byte "
    "expansions, so no (attr, cs, bytes) segment ends inside a character; content() raises exactly when the cell-level text_content does and "
    "otherwise decodes, segment by segment, to the cell rows (double_byte_text_content_is_cell_content); the constructor raises exactly when "
    "make_text does and pads like it; together (byte_text_canvas_is_cell_text_canvas, hypotheses = the boolean check binit_okb of the "
    "constructor's arguments, non-vacuity ex_bytes): every content() call a cview can make on a double-byte text leaf returns the cells the "
    "cell-level model uses, so the composition theorem speaks about the bytes urwid emits in these encodings.  UTF-8 rows are not covered by "
    "this proof (zero-width characters and the width table make the byte/column map non-trivial): there the byte model is only compared with "
    "canvas.py and with the cell model on the probe windows.  "
    "The models of canvas.py are hand-written (only the str_util / util functions under CanvasBytes.v are translated code): their agreement with canvas.py is re-established on every run by the exact "
    "correspondence on content, sizes, coords, raised error kinds, the internal shards tuples AND the aliasing pattern (which "
    "shards lists and which cviews lists of the bound canvases are the same object); WF is evaluated by the extracted model "
    "on every canvas of every defined case."
)

CHECK = C02
