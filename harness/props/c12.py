"""C12 - MainLoop delivers input in order and always restores the terminal.

Three kinds of cases:

* kind "hook"  (exact correspondence + oracle): the REAL MainLoop and the REAL SelectEventLoop drive an
  instrumented subclass of the REAL raw_display.Screen whose input is a pipe and whose output is a
  recorder (no tty anywhere): every public screen call, every DEC private mode escape sequence the
  screen writes (in write order), every callback invocation is one trace item.  Scripted rounds of
  events are injected from an idle callback ("the loop is about to wait -> the next events arrive");
  a fault plan maps the global callback invocation index to ExitMainLoop / a custom exception.
* kind "plain" (exact correspondence + oracle): a plain BaseScreen fake WITHOUT hook_event_loop, which
  sends MainLoop.run() through _run_screen_event_loop().
* kind "pty"   (oracle only; partial by nature): the real raw_display.Screen on a pty with each
  installed event loop, one session per subprocess with a hard timeout; final states only.

All in-process sessions run inside a persistent worker subprocess (signal handlers, descriptors) that is
killed and restarted when a session does not finish in time ("hang" is then the observable result).
"""
import json
import os
import re
import select as _select
import subprocess
import sys
import warnings

from harness import core

warnings.simplefilter("ignore")

# ---- trace item tags (shared with Model/MainLoop.v, enc_tev) ----
T_START, T_STOP, T_SETMOUSE, T_HOOK, T_UNHOOK, T_DRAW, T_CLEAR, T_COLSROWS, T_WRITE = 1, 2, 3, 4, 5, 6, 7, 8, 9
T_FILTER, T_KEYPRESS, T_MOUSE, T_UNHANDLED, T_ALARM, T_PIPE, T_FILE, T_RENDER, T_QUIT = 10, 11, 12, 13, 14, 15, 16, 17, 18
T_GETINPUT, T_TIMEOUTS, T_PSTART, T_PSTOP, T_WAIT, T_POPKEY = 19, 20, 21, 22, 23, 24
KEY_OPEN, KEY_CLOSE = 111, 120      # 'o' opens the pop-up (PopUpLauncher), 'x' typed into the pop-up closes it
BASE_EXC = 1000       # fault values >= BASE_EXC raise a class derived from BaseException (not Exception)

CTRL_L = 12
MODES = {1049: "alt", 25: "cursor", 1000: "mouse", 1002: "mouse2", 1006: "mouse6", 2004: "paste", 1004: "focus"}
SIG_IDS = {"dfl": 0, "ign": 1, "app": 2, "urwid": 3, "other": 4}


UP, ESC_KEY = 1001, 1002
UP_BYTES = b"\x1b[A"          # typed one byte at a time in "frag" events
NAMED = {CTRL_L: "ctrl l", UP: "up", ESC_KEY: "esc"}
NAMED_REV = {v: k for k, v in NAMED.items()}
FRAG_WAIT = 1.0               # complete_wait of sessions that type a key in fragments (seconds)


def key_to_py(k):
    """wire key [kind,a,b,c] -> urwid input value"""
    if k[0] == 0:
        return "window resize"
    if k[0] == 1:
        return NAMED[k[1]] if k[1] in NAMED else chr(k[1])
    return ("mouse press", k[1], k[2], k[3])


def key_from_py(v):
    if v == "window resize":
        return [0, 0, 0, 0]
    if isinstance(v, str):
        return [1, NAMED_REV[v] if v in NAMED_REV else (ord(v) if len(v) == 1 else -1), 0, 0]
    if isinstance(v, tuple) and len(v) == 4:
        return [2, v[1], v[2], v[3]]
    return [9, -1, -1, -1]


def key_bytes(k):
    if k[0] == 1 and k[1] == UP:
        return UP_BYTES
    if k[0] == 1:
        return bytes([k[1]])
    if k[0] == 2:
        return b"\x1b[M" + bytes([32 + k[1] - 1, 33 + k[2], 33 + k[3]])
    raise ValueError(k)


class UserExc(Exception):
    def __init__(self, ident):
        Exception.__init__(self, ident)
        self.ident = ident


class UserBaseExc(BaseException):
    """an application exception outside the Exception hierarchy (like KeyboardInterrupt / SystemExit)"""

    def __init__(self, ident):
        BaseException.__init__(self, ident)
        self.ident = ident


class Grid:
    """a very small terminal: enough of a VT100 to see what raw_display.Screen.draw_screen painted"""
    TOK = re.compile(r"\x1b\[([0-9;?]*)([@-~])|\x1b[()](.)|\x1b(.)|([\x00-\x1a\x1c-\x1f])|([^\x00-\x1f]+)", re.S)

    def __init__(self, cols, rows):
        self.cols, self.rows = cols, rows
        self.bufs = [[[" "] * cols for _ in range(rows)] for _ in (0, 1)]
        self.alt = 0
        self.x = self.y = 0

    def feed(self, data):
        for m in self.TOK.finditer(data):
            params, final, _cs, _esc, ctl, text = m.groups()
            if final is not None:
                if final == "H":
                    ps = [int(x) if x else 1 for x in (params.split(";") + ["", ""])[:2]]
                    self.y = min(max(ps[0] - 1, 0), self.rows - 1)
                    self.x = min(max(ps[1] - 1, 0), self.cols - 1)
                elif final == "K" and params in ("", "0"):
                    row = self.bufs[self.alt][self.y]
                    for i in range(min(self.x, self.cols), self.cols):
                        row[i] = " "
                elif final in "hl" and params.startswith("?"):
                    for num in params[1:].split(";"):
                        if num in ("1049", "47"):
                            self.alt = 1 if final == "h" else 0
                            if final == "h":
                                self.bufs[1] = [[" "] * self.cols for _ in range(self.rows)]
                                self.x = self.y = 0
            elif ctl is not None:
                if ctl == "\r":
                    self.x = 0
                elif ctl == "\n":
                    self.y = min(self.y + 1, self.rows - 1)
                elif ctl == "\b":
                    self.x = max(self.x - 1, 0)
            elif text is not None:
                row = self.bufs[self.alt][self.y]
                for ch in text:
                    if self.x >= self.cols:
                        self.x = self.cols - 1
                    row[self.x] = ch
                    self.x += 1

    def garble(self):
        """something else scribbled over the terminal (why a user presses ctrl-L)"""
        self.bufs[self.alt] = [["?"] * self.cols for _ in range(self.rows)]

    def shows(self, lines):
        want = [(lines[i] if i < len(lines) else "").ljust(self.cols)[:self.cols] for i in range(self.rows)]
        return ["".join(r) for r in self.bufs[self.alt]] == want


# =====================================================================================================
#  in-process sessions (run inside the worker)
# =====================================================================================================
class Session:
    """State shared by the callbacks of one scripted session."""

    def __init__(self, case):
        self.case = case
        self.trace = []
        self.n = 0                       # global callback invocation index
        self.plan = {int(k): v for k, v in case.get("plan", {}).items()}
        self.raised = []                 # exception objects we raised (identity check)
        self.shown = []                  # per wait point: does the terminal show the widget state?
        self.wstate = 0                  # the widget's state (number of inputs it handled); its text is S<n>
        self.pop_open = lambda: False    # is the launcher's pop-up open (make_launcher)

    def screen_lines(self):
        """what the terminal has to show: the body's text and, when open, the pop-up (10x3 at column 1, row 1)"""
        lines = ["S%d" % self.wstate]
        if self.pop_open():
            lines += [" " + "P" * 10] * 3
        return lines

    def cb(self, item):
        """one callback invocation: trace it, then fault if the plan says so"""
        self.trace.append(item)
        i = self.n
        self.n += 1
        if i in self.plan:
            import urwid
            f = self.plan[i]
            e = urwid.ExitMainLoop() if f == 0 else (UserBaseExc(f) if f >= BASE_EXC else UserExc(f))
            self.raised.append(e)
            raise e


def make_widget(S, wc, urwid):
    keys = {int(k): v for k, v in wc.get("keys", {}).items()}
    mouse = set(wc.get("mouse", []))

    cache = {}

    def keypress(self, size, key):
        k = key_from_py(key)
        S.cb([T_KEYPRESS, k[1]])
        r = keys.get(k[1], k[1])
        if r == 0:
            S.wstate += 1            # the widget handled the key: it changed
            return None
        return key_to_py([1, r, 0, 0])

    def mouse_event(self, size, event, button, col, row, focus):
        S.cb([T_MOUSE, button, col, row])
        if button in mouse:
            S.wstate += 1
            return True
        return False

    def render(self, size, focus=False):
        S.cb([T_RENDER])
        # an unchanged widget hands out the very same canvas object again (as the canvas cache does)
        if cache.get("key") != (S.wstate, tuple(size)):
            c = urwid.CompositeCanvas(urwid.Filler(urwid.Text("S%d" % S.wstate), "top").render(tuple(size)))
            if wc.get("cursor"):
                c.cursor = (0, 0)
            cache["key"], cache["canvas"] = (S.wstate, tuple(size)), c
        # (the render wrapper of urwid.Widget re-wraps a canvas that is already finalized: hand it out
        #  un-finalized so that the SAME object reaches Screen.draw_screen, as with a cached widget)
        cache["canvas"]._widget_info = None
        return cache["canvas"]

    def selectable(self):
        return bool(wc.get("selectable", True))

    d = {"_sizing": frozenset([urwid.BOX]), "no_cache": ["render"], "keypress": keypress, "render": render,
         "selectable": selectable}
    if wc.get("has_mouse", True):
        d["mouse_event"] = mouse_event
        return type("W", (urwid.Widget,), d)()
    # duck-typed widget without mouse_event (urwid.Widget always has one)
    del d["_sizing"], d["no_cache"]
    return type("DuckW", (object,), d)()


def make_launcher(S, body, wc, urwid):
    """PopUpLauncher around the body widget; create_pop_up() hands out the same (cached) pop-up widget each time"""
    pop_handled = set(wc.get("pop_keys", []))

    class Pop(urwid.Widget):
        _sizing = frozenset([urwid.BOX])
        _selectable = True
        no_cache = ["render"]

        def keypress(self, size, key):
            k = key_from_py(key)
            S.cb([T_POPKEY, k[1]])
            if k[1] == KEY_CLOSE:
                launcher.close_pop_up()
                return None
            return None if k[1] in pop_handled else key

        def render(self, size, focus=False):
            S.cb([T_RENDER])
            return urwid.SolidCanvas("P", size[0], size[1])

    class Launcher(urwid.PopUpLauncher):
        def create_pop_up(self):
            return pop

        def get_pop_up_parameters(self):
            return {"left": 1, "top": 1, "overlay_width": 10, "overlay_height": 3}

        def keypress(self, size, key):
            if key == chr(KEY_OPEN):
                S.cb([T_KEYPRESS, KEY_OPEN])
                self.open_pop_up()
                return None
            return self._original_widget.keypress(size, key)

    pop = Pop()
    launcher = Launcher(body)
    S.pop_open = lambda: launcher._pop_up_widget is not None
    return launcher


class Recorder:
    """stands for the terminal: decodes DEC private mode sequences out of what the screen writes"""
    PAT = re.compile(r"\x1b\[\?([0-9;]+)([hl])")

    def __init__(self, S, grid=None):
        self.S = S
        self.pending = ""
        self.grid = grid

    def write(self, data):
        data = self.pending + data
        self.pending = ""
        # keep an unterminated tail (a sequence split over two writes)
        m = re.search(r"\x1b(\[(\?[0-9;]*)?)?$", data)
        if m:
            self.pending = data[m.start():]
            data = data[:m.start()]
        if self.grid is not None:
            self.grid.feed(data)
        for mo in self.PAT.finditer(data):
            for num in mo.group(1).split(";"):
                if num:
                    self.S.trace.append([T_WRITE, int(num), 1 if mo.group(2) == "h" else 0])

    def flush(self):
        pass


def sig_id(h, scr, app):
    import signal
    if h == signal.SIG_DFL:
        return 0
    if h == signal.SIG_IGN:
        return 1
    if h is app:
        return 2
    if getattr(h, "__self__", None) is scr:
        return 3
    return 4


def run_hook(case):
    """real MainLoop + real SelectEventLoop + instrumented real raw_display.Screen on pipes"""
    import signal
    import urwid
    from urwid.display.raw import Screen
    S = Session(case)
    tr = S.trace
    cfg = case["cfg"]
    tios_before = None
    if cfg.get("tty"):
        # the input is a pseudo terminal (os.isatty is true: termios is saved / set to cbreak / restored);
        # the output stays the recorder
        import pty
        import termios
        in_w, in_r = pty.openpty()
        tios_before = termios.tcgetattr(in_r)
    else:
        in_r, in_w = os.pipe()
    os.set_blocking(in_r, False)
    in_file = os.fdopen(in_r, "rb", buffering=0)

    class RecScreen(Screen):
        def start(self, *a, **kw):
            tr.append([T_START])
            return Screen.start(self, *a, **kw)

        def stop(self):
            tr.append([T_STOP])
            return Screen.stop(self)

        def set_mouse_tracking(self, enable=True):
            tr.append([T_SETMOUSE])
            return Screen.set_mouse_tracking(self, enable)

        def hook_event_loop(self, event_loop, callback):
            tr.append([T_HOOK])
            return Screen.hook_event_loop(self, event_loop, callback)

        def unhook_event_loop(self, event_loop):
            tr.append([T_UNHOOK])
            return Screen.unhook_event_loop(self, event_loop)

        def draw_screen(self, size, canvas):
            tr.append([T_DRAW])
            return Screen.draw_screen(self, size, canvas)

        def clear(self):
            tr.append([T_CLEAR])
            # a forced repaint is requested because the terminal may show anything by now
            grid.garble()
            return Screen.clear(self)

        def get_cols_rows(self):
            tr.append([T_COLSROWS])
            return Screen.get_cols_rows(self)

    def app_handler(signum, frame):
        pass

    grid = Grid(80, 24)                  # Screen.get_cols_rows() falls back to 80x24 without a tty output
    sigs = (signal.SIGWINCH, signal.SIGTSTP, signal.SIGCONT)
    initial = [{0: signal.SIG_DFL, 1: signal.SIG_IGN, 2: app_handler}[x] for x in cfg.get("sig", [0, 0, 0])]
    for s, hd in zip(sigs, initial):
        signal.signal(s, hd)
    scr = RecScreen(input=in_file, output=Recorder(S, grid), bracketed_paste_mode=bool(cfg.get("paste")),
                    focus_reporting=bool(cfg.get("focus")))
    loop = urwid.SelectEventLoop()
    w = make_widget(S, case["widget"], urwid)

    filt = None
    if cfg.get("filter") is not None:
        drop = set(cfg["filter"])

        def filt(keys, raw):
            ks = [key_from_py(k) for k in keys]
            S.cb([T_FILTER, len(ks)] + [x for k in ks for x in k])
            return [k for k, kk in zip(keys, ks) if not (kk[0] == 1 and kk[1] in drop)]
    unh = None
    if cfg.get("unhandled") is not None:
        def unh(key):
            S.cb([T_UNHANDLED] + key_from_py(key))
            return bool(cfg["unhandled"])

    if cfg.get("launcher"):
        w = make_launcher(S, w, case["widget"], urwid)
    ml = urwid.MainLoop(w, screen=scr, event_loop=loop, handle_mouse=bool(cfg.get("handle_mouse", True)),
                        input_filter=filt, unhandled_input=unh, pop_ups=bool(cfg.get("pop_ups")))
    pipes = {}
    files = {}
    to_close = [in_w]

    def alarm_cb(l, ident):
        S.cb([T_ALARM, ident])

    def quit_cb():
        tr.append([T_QUIT])
        raise urwid.ExitMainLoop()

    def inject(ev):
        k = ev[0]
        if k == "in":
            os.write(in_w, b"".join(key_bytes(x) for x in ev[1]))
        elif k == "resize":
            scr._sigwinch_handler(28, None)
        elif k == "alarm":
            ml.set_alarm_in(0, alarm_cb, ev[1])
        elif k == "pipe":
            os.write(pipes[ev[1]], bytes([ev[2]]))
        elif k == "file":
            os.write(files[ev[1]][1], b"x")
        elif k == "frag":
            # one byte of the escape sequence of 'up'; the previous byte has been read by now
            os.write(in_w, UP_BYTES[ev[1]:ev[1] + 1])
        elif k == "sleep":
            # nothing arrives for longer than complete_wait: a forgotten incomplete-input timer would fire
            loop.alarm(FRAG_WAIT + 0.25, lambda: None)

    rounds = [list(r) for r in case["rounds"]]
    if any(ev[0] == "frag" for r in rounds for ev in r):
        scr.set_input_timeouts(complete_wait=FRAG_WAIT)
    state = {"i": 0}

    def injector():
        # the idle callbacks are through: the loop is about to wait.  Does the terminal show the widget?
        tr.append([T_WAIT])
        S.shown.append(1 if grid.shows(S.screen_lines()) else 0)
        i = state["i"]
        state["i"] += 1
        if i < len(rounds):
            for ev in rounds[i]:
                inject(ev)
        elif i == len(rounds):
            loop.alarm(0, quit_cb)

    for ev in [e for r in rounds for e in r]:
        if ev[0] == "pipe" and ev[1] not in pipes:
            def pcb(data, ident=ev[1]):
                S.cb([T_PIPE, ident, data[0] if data else -1])
            pipes[ev[1]] = ml.watch_pipe(pcb)
            to_close.append(pipes[ev[1]])
        if ev[0] == "file" and ev[1] not in files:
            r_, w_ = os.pipe()
            to_close += [r_, w_]

            def fcb(ident=ev[1], r_=r_):
                os.read(r_, 1)
                S.cb([T_FILE, ident])
            files[ev[1]] = (r_, w_)
            ml.watch_file(r_, fcb)
    # the injector must run AFTER MainLoop.entering_idle in every idle round: register it from an alarm that
    # fires inside the loop (MainLoop.start() has registered its own idle callback by then)
    loop.alarm(0, lambda: state.__setitem__("h", loop.enter_idle(injector)))
    for ident in cfg.get("pre_alarms", []):
        ml.set_alarm_in(0, alarm_cb, ident)
    if cfg.get("prestarted"):
        scr.start()

    out = ["ok"]
    try:
        ml.run()
    except (UserExc, UserBaseExc) as e:
        out = ["exc", e.ident, 1 if (S.raised and e is S.raised[-1]) else 0]
    except BaseException as e:     # noqa: B036
        out = ["err", type(e).__name__]
    def observe():
        cb_ = 0
        if tios_before is not None:
            import termios
            cb_ = 0 if termios.tcgetattr(in_r) == tios_before else 1
        return [sig_id(signal.getsignal(s), scr, app_handler) for s in sigs], bool(scr.started), cb_
    final, started, cbreak = observe()
    ntrace, nshown, ncb1 = len(tr), len(S.shown), S.n
    second = None
    if cfg.get("second_run") and out[0] in ("ok", "exc"):
        # run() once more on the same MainLoop and Screen (also after a session that ended with an exception the
        # application caught): nothing new is scripted, the harness quits at the first wait.  No fault is planned.
        S.plan = {}
        if "h" in state:
            loop.remove_enter_idle(state.pop("h"))
        state["i"] = len(rounds)
        loop.alarm(0, lambda: state.__setitem__("h", loop.enter_idle(injector)))
        out2 = ["ok"]
        try:
            ml.run()
        except BaseException as e:     # noqa: B036
            out2 = ["err", type(e).__name__]
        sig2, started2, cbreak2 = observe()
        second = {"out": out2, "shown": S.shown[nshown:], "started": started2, "sig": sig2,
                  "term": dict(replay_modes(tr), cbreak=cbreak2)}
    shown1 = S.shown[:nshown]
    for s in sigs:
        signal.signal(s, signal.SIG_DFL)
    for fd in to_close:
        try:
            os.close(fd)
        except OSError:
            pass
    for wfd, (_h, rfd) in list(ml._watch_pipes.items()):
        try:
            os.close(rfd)
        except OSError:
            pass
    in_file.close()
    for sk in (scr._resize_pipe_rd, scr._resize_pipe_wr):
        try:
            sk.close()
        except OSError:
            pass
    return {"trace": tr, "out": out, "sig": final, "started": started, "ncb": ncb1, "cbreak": cbreak,
            "shown": shown1, "second": second, "ntr1": ntrace}


def run_plain(case):
    """real MainLoop with a plain BaseScreen that has no hook_event_loop -> _run_screen_event_loop"""
    import urwid
    from urwid.display.common import BaseScreen
    S = Session(case)
    tr = S.trace
    cfg = case["cfg"]
    script = [list(b) for b in case["inputs"]]

    class PlainScreen(BaseScreen):
        def start(self, *a, **kw):
            tr.append([T_START])
            return BaseScreen.start(self, *a, **kw)

        def stop(self):
            tr.append([T_STOP])
            return BaseScreen.stop(self)

        def _start(self):
            tr.append([T_PSTART])

        def _stop(self):
            tr.append([T_PSTOP])

        def set_mouse_tracking(self, enable=True):
            tr.append([T_SETMOUSE])

        def set_input_timeouts(self, *a, **kw):
            tr.append([T_TIMEOUTS, 0 if (a and a[0] is None) else 1])

        def get_input(self, raw_keys=False):
            tr.append([T_GETINPUT])
            if not script:
                tr.append([T_QUIT])
                raise urwid.ExitMainLoop()
            keys = [key_to_py(k) for k in script.pop(0)]
            return (keys, []) if raw_keys else keys

        def draw_screen(self, size, canvas):
            tr.append([T_DRAW])

        def clear(self):
            tr.append([T_CLEAR])

        def get_cols_rows(self):
            tr.append([T_COLSROWS])
            return 80, 24

    scr = PlainScreen()
    w = make_widget(S, case["widget"], urwid)
    filt = None
    if cfg.get("filter") is not None:
        drop = set(cfg["filter"])

        def filt(keys, raw):
            ks = [key_from_py(k) for k in keys]
            S.cb([T_FILTER, len(ks)] + [x for k in ks for x in k])
            return [k for k, kk in zip(keys, ks) if not (kk[0] == 1 and kk[1] in drop)]
    unh = None
    if cfg.get("unhandled") is not None:
        def unh(key):
            S.cb([T_UNHANDLED] + key_from_py(key))
            return bool(cfg["unhandled"])
    if cfg.get("launcher"):
        w = make_launcher(S, w, case["widget"], urwid)
    ml = urwid.MainLoop(w, screen=scr, handle_mouse=bool(cfg.get("handle_mouse", True)),
                        input_filter=filt, unhandled_input=unh, pop_ups=bool(cfg.get("pop_ups")))

    def alarm_cb(l, ident):
        S.cb([T_ALARM, ident])
    for ident in cfg.get("pre_alarms", []):
        ml.set_alarm_in(0, alarm_cb, ident)
    if cfg.get("prestarted"):
        scr.start()
    out = ["ok"]
    try:
        ml.run()
    except (UserExc, UserBaseExc) as e:
        out = ["exc", e.ident, 1 if (S.raised and e is S.raised[-1]) else 0]
    except BaseException as e:     # noqa: B036
        out = ["err", type(e).__name__]
    return {"trace": tr, "out": out, "sig": [0, 0, 0], "started": bool(scr.started), "ncb": S.n}


def worker_main():
    """persistent worker: one JSON case per line in, one JSON result per line out"""
    out = os.fdopen(os.dup(1), "w")
    os.dup2(2, 1)                      # anything urwid prints goes to stderr, never into the protocol
    for line in sys.stdin:
        line = line.strip()
        if not line:
            continue
        case = json.loads(line)
        try:
            res = run_hook(case) if case["kind"] == "hook" else run_plain(case)
        except BaseException as e:     # noqa: B036
            import traceback
            res = {"harness_error": type(e).__name__ + ": " + str(e)[:300], "tb": traceback.format_exc()[-1500:]}
        out.write(json.dumps(res) + "\n")
        out.flush()


# =====================================================================================================
#  pty sessions (one per subprocess): real raw_display.Screen on a pty, any installed event loop
# =====================================================================================================
PTY_KEYS = [[1, 97, 0, 0], [1, 98, 0, 0], [2, 1, 3, 2], [1, 99, 0, 0]]      # 'a' (handled) 'b' mouse 'c'
PTY_REDRAW = [1, CTRL_L, 0, 0]           # typed later, on its own: the widget does not change
LOOPS = ["select", "asyncio", "tornado", "trio", "twisted", "zmq"]
PTY_SAFETY = 8.0          # seconds; a complete session takes about 0.1 s
RERUNNABLE = ("select", "asyncio", "zmq", "trio", "tornado")     # loops whose run() may be entered a second time


def make_loop(name, urwid):
    if name == "select":
        return urwid.SelectEventLoop()
    if name == "asyncio":
        import asyncio
        return urwid.AsyncioEventLoop(loop=asyncio.new_event_loop())
    if name == "tornado":
        return urwid.TornadoEventLoop()
    if name == "trio":
        return urwid.TrioEventLoop()
    if name == "twisted":
        return urwid.TwistedEventLoop()
    if name == "zmq":
        return urwid.ZMQEventLoop()
    raise ValueError(name)


def run_pty(case):
    """alarm -> keys typed on the pty -> pipe write -> ctrl-L typed -> alarm -> quit,
    each step started by the previous one, so the order does not depend on timing"""
    import fcntl
    import pty
    import signal
    import struct
    import termios
    import urwid
    from urwid.display.raw import Screen
    S = Session(case)
    tr = S.trace
    cfg = case["cfg"]
    master, slave = pty.openpty()
    fcntl.ioctl(master, termios.TIOCSWINSZ, struct.pack("HHHH", 5, 20, 0, 0))
    os.set_blocking(master, False)
    tty_in = os.fdopen(slave, "rb", buffering=0, closefd=False)
    tty_out = os.fdopen(slave, "w", closefd=False)
    grid = Grid(20, 5)
    seen = []

    def drain():
        """everything the screen has written so far goes into the little terminal"""
        try:
            tty_out.flush()
        except Exception:      # noqa: BLE001
            pass
        data = b""
        try:
            while True:
                ch = os.read(master, 65536)
                if not ch:
                    break
                data += ch
        except (BlockingIOError, OSError):
            pass
        text = data.decode("latin-1")
        seen.append(text)
        grid.feed(text)

    class PtyScreen(Screen):
        def clear(self):
            # a forced repaint is requested because the terminal may show anything by now
            drain()
            grid.garble()
            return Screen.clear(self)

    def app_handler(signum, frame):
        pass
    sigs = (signal.SIGWINCH, signal.SIGTSTP, signal.SIGCONT)
    for s, x in zip(sigs, cfg.get("sig", [0, 0, 0])):
        signal.signal(s, {0: signal.SIG_DFL, 1: signal.SIG_IGN, 2: app_handler}[x])
    tios_before = termios.tcgetattr(slave)
    tios_ref = [tios_before]       # what run() has to restore: the settings in force when that run() began
    scr = PtyScreen(input=tty_in, output=tty_out, bracketed_paste_mode=bool(cfg.get("paste")),
                    focus_reporting=bool(cfg.get("focus")))
    loop = make_loop(case["loop"], urwid)
    w = make_widget(S, case["widget"], urwid)
    keys = case.get("keys", PTY_KEYS)
    nkeys_seen = [0]
    pipe_fd = [None]

    frag = {"on": bool(case.get("frag")), "i": -1}
    if frag["on"]:
        scr.set_input_timeouts(complete_wait=FRAG_WAIT)
    n1 = len(keys)

    def filt(ks, raw):
        kk = [key_from_py(k) for k in ks]
        real = [k for k in kk if k[0] != 0]
        before = nkeys_seen[0]
        nkeys_seen[0] += len(real)
        now = nkeys_seen[0]
        if phase["second"]:
            return ks
        if before < n1 + 1 <= now:
            phase["judge"] = True          # the redraw key is in this batch
        try:
            S.cb([T_FILTER, len(kk)] + [x for k in kk for x in k])
        finally:
            # the next step of the chain starts once the previous input has gone through MainLoop
            if before < n1 <= now and pipe_fd[0] is not None:
                fd, pipe_fd[0] = pipe_fd[0], None
                # (a real delay: the loop redraws and waits before the chain goes on)
                ml.set_alarm_in(0.01, lambda l, d: os.write(fd, b"P"))
            elif before < n1 + 1 <= now:
                if frag["on"]:
                    frag["i"] = 0
                    os.write(master, UP_BYTES[0:1])       # 'up', one byte per read
                else:
                    ml.set_alarm_in(0.01, alarm2)
            elif frag["on"] and not real and 0 <= frag["i"] < len(UP_BYTES) - 1:
                # the incomplete sequence was read (MainLoop got an empty batch): the next byte arrives
                frag["i"] += 1
                os.write(master, UP_BYTES[frag["i"]:frag["i"] + 1])
            elif before < n1 + 2 <= now:
                # keep the session alive for longer than complete_wait: a forgotten timer would deliver 'esc'
                ml.set_alarm_in(FRAG_WAIT + 0.25, alarm2)
        return ks

    def unh(key):
        S.cb([T_UNHANDLED] + key_from_py(key))
        return False

    ml = urwid.MainLoop(w, screen=scr, event_loop=loop, handle_mouse=bool(cfg.get("handle_mouse", True)),
                        input_filter=filt, unhandled_input=unh, pop_ups=bool(cfg.get("pop_ups")))

    phase = {"second": False, "judge": False, "h": None}

    def after_idle():
        # runs right after MainLoop.entering_idle in every idle round: the loop is about to wait.
        # Judged after the redraw key (first run) and throughout the second run.
        if phase["judge"]:
            drain()
            S.shown.append(1 if grid.shows(["S%d" % S.wstate]) else 0)

    def watch_idle(l=None, d=None):
        # (registered from inside the loop, i.e. after MainLoop.start() registered its own idle callback)
        if phase["h"] is not None:
            loop.remove_enter_idle(phase["h"])
        phase["h"] = loop.enter_idle(after_idle)

    def alarm2(l, d):
        if phase["second"]:
            return                 # left over from the first run
        S.cb([T_ALARM, 2])
        tr.append([T_QUIT])
        raise urwid.ExitMainLoop()

    def pcb(data):
        if phase["second"]:
            return
        S.cb([T_PIPE, 1, data[0] if data else -1])
        os.write(master, key_bytes(PTY_REDRAW))

    def alarm1(l, d):
        if phase["second"]:
            return
        watch_idle()
        S.cb([T_ALARM, 1])
        os.write(master, b"".join(key_bytes(k) for k in keys))
    pipe_fd[0] = ml.watch_pipe(pcb)
    ml.set_alarm_in(0.02, alarm1)
    flags = {"safety": 0}

    def safety(l, d):
        if phase["second"]:
            return
        # the chain broke (a callback's exception was swallowed, input got lost ...): end the session
        flags["safety"] = 1
        tr.append([T_QUIT])
        raise urwid.ExitMainLoop()
    ml.set_alarm_in(PTY_SAFETY, safety)

    def observe():
        try:
            tios_ok_ = 1 if termios.tcgetattr(slave) == tios_ref[0] else 0
        except termios.error:
            tios_ok_ = -1                 # the descriptor is gone
        modes = {v: 0 for v in MODES.values()}
        modes["cursor"] = 1
        for mo in Recorder.PAT.finditer("".join(seen)):
            for num in mo.group(1).split(";"):
                if num and int(num) in MODES:
                    modes[MODES[int(num)]] = 1 if mo.group(2) == "h" else 0
        return ([sig_id(signal.getsignal(s), scr, app_handler) for s in sigs], bool(scr.started), modes, tios_ok_)
    out = ["ok"]
    try:
        ml.run()
    except (UserExc, UserBaseExc) as e:
        out = ["exc", e.ident, 1 if (S.raised and e is S.raised[-1]) else 0]
    except BaseException as e:     # noqa: B036
        out = ["err", type(e).__name__ + ":" + str(e)[:80]]
    drain()
    final, started, modes, tios_ok = observe()
    ntrace, ncb1, shown1 = len(tr), S.n, list(S.shown)
    second = None
    if case.get("second_run") and out[0] in ("ok", "exc") and case["loop"] in RERUNNABLE:
        # run() once more on the same MainLoop and Screen (also after a session that ended with an exception
        # the application caught); nothing but a final alarm raising ExitMainLoop
        S.plan = {}
        phase["second"] = phase["judge"] = True
        # the application changes the tty settings between the sessions (echo and flow control toggled): the second
        # run() must restore THESE, not the ones saved by the first start()
        try:
            t2 = termios.tcgetattr(slave)
            t2[3] ^= termios.ECHO
            t2[0] ^= termios.IXON
            termios.tcsetattr(slave, termios.TCSANOW, t2)
            tios_ref[0] = termios.tcgetattr(slave)
        except termios.error:
            pass

        def alarm3(l, d):
            raise urwid.ExitMainLoop()
        ml.set_alarm_in(0, watch_idle)
        ml.set_alarm_in(0.05, alarm3)
        out2 = ["ok"]
        try:
            ml.run()
        except BaseException as e:     # noqa: B036
            out2 = ["err", type(e).__name__ + ":" + str(e)[:80]]
        drain()
        sig2, started2, modes2, tios2 = observe()
        second = {"out": out2, "shown": S.shown[len(shown1):], "started": started2, "sig": sig2, "term": modes2,
                  "tios_ok": tios2}
    del tr[ntrace:]
    return {"trace": tr, "out": out, "sig": final, "started": started, "ncb": ncb1, "term": modes,
            "tios_ok": tios_ok, "nbytes": sum(len(x) for x in seen), "shown": shown1, "second": second,
            "safety": flags["safety"]}


# =====================================================================================================
#  the check
# =====================================================================================================
def replay_modes(trace):
    """terminal modes after the writes recorded in a trace, starting from the normal modes"""
    modes = {v: 0 for v in MODES.values()}
    modes["cursor"] = 1
    modes["plain"] = 0
    for t in trace:
        if t[0] == T_WRITE and t[1] in MODES:
            modes[MODES[t[1]]] = t[2]
        elif t[0] == T_PSTART:
            modes["plain"] = 1
        elif t[0] == T_PSTOP:
            modes["plain"] = 0
    return modes


CB_TAGS = {T_FILTER, T_KEYPRESS, T_MOUSE, T_UNHANDLED, T_ALARM, T_PIPE, T_FILE, T_RENDER, T_POPKEY}
ORDER_TAGS = {T_FILTER, T_KEYPRESS, T_MOUSE, T_UNHANDLED, T_ALARM, T_PIPE, T_FILE, T_POPKEY}
PYERR = {1: "AttributeError", 2: "RuntimeError"}
CB_NAMES = {T_FILTER: "input filter", T_KEYPRESS: "widget keypress", T_MOUSE: "widget mouse_event",
            T_UNHANDLED: "unhandled_input", T_ALARM: "alarm", T_PIPE: "watch_pipe", T_FILE: "watch_file",
            T_RENDER: "idle redraw / widget render", T_POPKEY: "pop-up widget keypress"}


def expected_for_keys(cfg, wc, keys):
    """what the property demands for one batch of input: list of (item, optional) in order"""
    out = []
    if cfg.get("filter") is not None:
        # (whether an empty batch - an incomplete escape sequence - is shown to the filter is not demanded)
        out.append(([T_FILTER, len(keys)] + [x for k in keys for x in k], not keys))
        keys = [k for k in keys if not (k[0] == 1 and k[1] in cfg["filter"])]
    wkeys = {int(k): v for k, v in wc.get("keys", {}).items()}
    for k in keys:
        if k[0] == 0:
            continue
        handled = False
        passed = k
        if k[0] == 1:
            r = wkeys.get(k[1], k[1])
            if wc.get("selectable", True):
                out.append(([T_KEYPRESS, k[1]], False))
                handled = (r == 0)
                passed = [1, r, 0, 0]
            # a widget that is not selectable is not offered keys: it handles nothing
        else:
            if wc.get("has_mouse", True):
                out.append(([T_MOUSE, k[1], k[2], k[3]], False))
                handled = k[1] in wc.get("mouse", [])
        if not handled and cfg.get("unhandled") is not None:
            # 'ctrl l' is bound to REDRAW_SCREEN in the default command map: MainLoop clears the screen
            # instead of calling the handler; the property text does not mention it: tolerated
            out.append(([T_UNHANDLED] + passed, passed[0] == 1 and passed[1] == CTRL_L))
    return out


def expected_with_popup(cfg, wc, keys, st):
    """a batch of keys when a PopUpLauncher is in the tree: the open pop-up is the topmost widget"""
    out = []
    if cfg.get("filter") is not None:
        out.append(([T_FILTER, len(keys)] + [x for k in keys for x in k], not keys))
        keys = [k for k in keys if not (k[0] == 1 and k[1] in cfg["filter"])]
    for k in keys:
        if k[0] == 0:
            continue
        if k[0] == 2:
            if st["open"]:
                # the pop-up is the topmost widget; it does not handle mouse events
                if cfg.get("unhandled") is not None:
                    out.append(([T_UNHANDLED] + k, False))
            else:
                out += expected_for_keys(dict(cfg, filter=None), wc, [k])
            continue
        if not wc.get("selectable", True):
            # MainLoop offers keys only to a selectable topmost widget: nothing can open the pop-up
            out += expected_for_keys(dict(cfg, filter=None), wc, [k])
            continue
        if st["open"]:
            out.append(([T_POPKEY, k[1]], False))
            if k[1] == KEY_CLOSE:
                st["open"] = False
            elif k[1] not in wc.get("pop_keys", []) and cfg.get("unhandled") is not None:
                out.append(([T_UNHANDLED] + k, k[1] == CTRL_L))
        elif k[1] == KEY_OPEN:
            out.append(([T_KEYPRESS, KEY_OPEN], False))
            st["open"] = True
        else:
            out += [x for x in expected_for_keys(dict(cfg, filter=None), wc, [k])]
    return out


def expected_rounds(case):
    """per scripted round: the callbacks the property demands, in order"""
    cfg, wc = case["cfg"], case["widget"]
    rounds = []
    popup = {"open": False}
    if case["kind"] == "hook":
        rounds.append([([T_ALARM, i], False) for i in cfg.get("pre_alarms", [])])
        for r in case["rounds"]:
            exp = []
            for ev in r:
                if ev[0] == "in" and cfg.get("launcher"):
                    exp += expected_with_popup(cfg, wc, ev[1], popup)
                elif ev[0] == "in":
                    exp += expected_for_keys(cfg, wc, ev[1])
                elif ev[0] == "frag":
                    exp += expected_for_keys(cfg, wc, [] if ev[1] < len(UP_BYTES) - 1 else [[1, UP, 0, 0]])
                elif ev[0] == "resize":
                    exp += expected_for_keys(cfg, wc, [[0, 0, 0, 0]])
                elif ev[0] == "alarm":
                    exp.append(([T_ALARM, ev[1]], False))
                elif ev[0] == "pipe":
                    exp.append(([T_PIPE, ev[1], ev[2]], False))
                elif ev[0] == "file":
                    exp.append(([T_FILE, ev[1]], False))
            rounds.append(exp)
    else:
        pending = list(cfg.get("pre_alarms", []))
        have_alarm = bool(pending)
        for b in case["inputs"]:
            if not b and not have_alarm:
                continue                    # get_input timed out with nothing to do: the loop keeps waiting
            exp = []
            if cfg.get("launcher"):
                exp += expected_with_popup(cfg, wc, b, popup)
            elif b or cfg.get("filter") is None:
                exp += expected_for_keys(cfg, wc, b)
            else:
                # an empty batch is still shown to the input filter by _run_screen_event_loop
                exp.append(([T_FILTER, 0], True))
            exp += [([T_ALARM, i], False) for i in pending]
            pending = []
            have_alarm = False
            rounds.append(exp)
    return rounds


class C12(core.Check):
    pid = "C12"
    gen_modules = []
    model_targets = ["theories/Model/MainLoop.vo"]
    prop_file = "theories/Properties/C12.v"
    extract_v = "Extract/C12X.v"
    allowed_axioms = set()
    level = "proof"
    design_ref = "DESIGN.md section 5, C12"
    correspondence_name = "extracted MainLoop model vs real MainLoop + SelectEventLoop on an instrumented screen"
    search_budget = {"quick": 60, "thorough": 300}
    technique = ("Coq theorems (monadic interpreter with exceptions as values refined to specification lists cut at the "
                 "first fault; symbolic execution of start/stop over explicit screen and terminal records) about a "
                 "hand-written model of MainLoop + raw_display start/stop; exact extracted-model trace correspondence "
                 "against the real MainLoop/SelectEventLoop/raw_display.Screen on pipes; fault-injection oracle on the "
                 "real screen over a pty with every installed event loop")
    level_text = ("Proved in Coq for EVERY configuration (screen with / without hook_event_loop, input filter, unhandled "
                  "handler, widget answers, pop_ups, handle_mouse, bracketed paste, focus reporting, tty or not, screen "
                  "pre-started or not), EVERY script (rounds of key / mouse / resize / alarm / pipe / file events, or get_input "
                  "results) and EVERY fault plan (callback invocation index -> ExitMainLoop | exception e), no bound: "
                  "(1) the callbacks and screen.draw_screen calls are exactly the demanded sequence (filter, then per key the "
                  "topmost widget - the open pop-up of a PopUpLauncher under pop_ups=True, else the body; proved for every "
                  "history of open / close / reopen: popup_gets_the_keys_exactly_while_open, and PopUpTarget's _pop_up / "
                  "_current_widget bookkeeping never gets out of step - and unhandled_input iff not handled, arrival order, "
                  "render+draw after every round) cut "
                  "right after the first faulting invocation; (2) a first fault ExitMainLoop makes run() return normally, a "
                  "first fault `raise e` makes exactly e leave run(), and nothing else can leave run(); (3) the display is "
                  "stopped and every terminal mode, the tty settings and the SIGWINCH/SIGTSTP/SIGCONT handlers (whatever they "
                  "were) are as before run() on every path (always_restored_full); (4) run() again on the same MainLoop and "
                  "Screen: the first session leaves a restartable state on every path - also after an exception at any callback "
                  "index, where the one thing left behind is that run's idle callback (MainLoop.stop() is not called) - and "
                  "from ANY restartable state run() delivers in order (left-over alarms first, one redraw per registered idle "
                  "callback), ends normally on ExitMainLoop, propagates any other exception unchanged, restores the terminal "
                  "and is restartable again (first_run_leaves_a_restartable_state, run_again_from_any_restartable_state: any "
                  "number of runs, any fault point).  These are theorems about the "
                  "MODEL of urwid's control flow (it includes Screen.draw_screen's 'nothing changed' shortcut: screen_buf / "
                  "_screen_buf_canvas, invalidated by clear(), stop() and SIGWINCH).  The model is tied to the code by exact correspondence of the full call trace "
                  "(screen calls, DEC private mode writes in write order, callbacks), outcome, final modes and signal handlers "
                  "with the real MainLoop + SelectEventLoop driving the real raw_display.Screen on pipes (no tty) and a plain "
                  "BaseScreen fake (3k+ sessions per quick run).  Oracle only: that the redraw reaches the terminal (the written bytes, "
                  "decoded into a grid, show the widget state at every wait, also after ctrl-L and in a second run()).  PARTIAL BY NATURE / oracle only: termios save/restore, "
                  "delivery through a real pty, and the five other event loops (asyncio, tornado, trio, twisted, zmq) are "
                  "examined by fault injection at every callback index on a pty (final states only), not by proof; the glib loop "
                  "is not installed.  The event loop inside the model is the C13 contract, not the loops' code.")
    level_note = ("Trusted: Coq kernel; ExtrOcamlBasic extraction + OCaml driver; the hand-written model (validated by the "
                  "correspondence, not proved against Python); the instrumentation in harness/props/c12.py; the Python oracle.  "
                  "Assumes: callbacks do nothing but return or raise (they do not stop the screen, change signal handlers or "
                  "add alarms); a topmost widget wrapped by PopUpTarget is a urwid.Widget; 'window resize' reaches draw_screen "
                  "only after it was delivered; no gpm mouse (linux console).")
    rule = ("cases = (kind, config, widget answers, script, fault plan).  kind hook/plain: every base script x config x widget "
            "x every callback index x {ExitMainLoop, exception} (exhaustive over fault points), plus random sessions with 0-2 "
            "planned faults; the fault kinds are ExitMainLoop, an Exception subclass and a BaseException subclass; a third of "
            "the raw-screen sessions run() a second time on the same loop and screen; at every wait the bytes written so far, "
            "decoded by a small terminal, must show the widget state (Screen.clear() garbles that terminal: forced repaint); "
            "a key typed one byte per read inside complete_wait followed by silence (no phantom 'esc'); pop_ups=True with a "
            "PopUpLauncher whose pop-up widget is cached: open / close / open again x every fault index (model + oracle: the "
            "open pop-up is the topmost widget), also in random sessions (1 in 5) and on the plain screen; second run() also after a first run that ended with a propagated exception; "
            "kind pty: real screen on a pty x each installed event loop x fault at callback indices of a fixed "
            "chained session (keys, mouse, pipe, the redraw key ctrl l, second run()).  non-trivial = at least one user callback was invoked; distinct by hash of (case, outcome)")
    trusted_base = [
        "Coq 8.16.1 kernel (coqc; vm_compute used for closed examples, the refutation witness and the finite case splits of start/stop)",
        "extraction: ExtrOcamlBasic only; Z/positive stay Coq datatypes; OCaml 4.13.1; tools/driver/driver.ml",
        "hand-written model Model/MainLoop.v of main_loop.py and of Screen._start/_stop (validated by the trace correspondence)",
        "harness/props/c12.py: instrumented Screen subclass, escape-sequence decoder, fault injector, worker protocol, oracle",
        "the abstraction of SelectEventLoop to its C13 contract (due alarms in order, then idle, ExitMainLoop swallowed)",
    ]
    assumptions = [
        "user callbacks only return or raise: they do not call screen.stop()/loop.stop(), install signal handlers or schedule alarms",
        "the screen is stopped (or started by the application through screen.start()) when the FIRST run() is entered; terminal in "
        "its initial modes; later runs start from what the earlier run left (modelled, second-run trace compared exactly)",
        "INPUT_DESCRIPTORS_CHANGED handlers: the loop over the connected handlers is modelled by its closed form (k times unhook, hook)",
        "within a round descriptor events are served before due alarms (select loop; the generators order them so)",
        "pop_ups=True wraps a urwid.Widget (which always has mouse_event); a PopUpLauncher is used below a PopUpTarget "
        "(wf_configb, a boolean premise of the theorems); the pop-up widget is cached by create_pop_up(), handles a fixed "
        "set of keys, closes on 'x' and ignores the mouse; the launcher opens it on 'o'",
        "pty / termios / signal delivery / third-party loop runtimes are observed (oracle), not modelled",
    ]

    WORKER_TIMEOUT = 15
    PTY_TIMEOUT = 25

    def __init__(self):
        core.Check.__init__(self)
        self._w = None
        self._prefetched = {}
        self._hangs = {}

    # ---------- worker ----------
    def _env(self):
        e = dict(os.environ)
        e["PYTHONPATH"] = core.REPO + os.pathsep + core.ROOT
        e["PYTHONHASHSEED"] = "0"
        e["PYTHONDONTWRITEBYTECODE"] = "1"
        e["TERM"] = "xterm"
        return e

    def _worker(self):
        if self._w is None or self._w.poll() is not None:
            self._w = subprocess.Popen([core.PY, "-m", "harness.props.c12", "--worker"], stdin=subprocess.PIPE,
                                       stdout=subprocess.PIPE, stderr=subprocess.DEVNULL, cwd=core.ROOT,
                                       env=self._env(), text=True, bufsize=1)
        return self._w

    def _kill_worker(self):
        if self._w is not None:
            try:
                self._w.kill()
                self._w.wait(timeout=5)
            except Exception:      # noqa: BLE001
                pass
            self._w = None

    def _ask_worker(self, case):
        if self._hangs.get("worker", 0) >= 3:
            return {"hang": "not run: 3 earlier in-process sessions did not terminate"}
        res = self._ask_worker1(case)
        if "hang" in res:
            self._hangs["worker"] = self._hangs.get("worker", 0) + 1
        return res

    def _ask_worker1(self, case):
        # a fresh worker every few hundred sessions: descriptors kept alive by reference cycles cannot pile up
        self._served = getattr(self, "_served", 0) + 1
        if self._served % 400 == 0:
            self._kill_worker()
        w = self._worker()
        try:
            w.stdin.write(json.dumps(case) + "\n")
            w.stdin.flush()
        except (BrokenPipeError, OSError):
            self._kill_worker()
            return {"hang": "worker died before the session"}
        r, _, _ = _select.select([w.stdout], [], [], self.WORKER_TIMEOUT)
        if not r:
            self._kill_worker()
            return {"hang": "no result within %ds" % self.WORKER_TIMEOUT}
        line = w.stdout.readline()
        if not line:
            self._kill_worker()
            return {"hang": "worker died during the session"}
        return json.loads(line)

    def _pty_popen(self, case):
        return subprocess.Popen([core.PY, "-m", "harness.props.c12", "--pty", json.dumps(case)], stdin=subprocess.DEVNULL,
                                stdout=subprocess.PIPE, stderr=subprocess.PIPE, cwd=core.ROOT, env=self._env(), text=True,
                                start_new_session=True)

    def _pty_collect(self, proc):
        try:
            out, err = proc.communicate(timeout=self.PTY_TIMEOUT)
        except subprocess.TimeoutExpired:
            try:
                os.killpg(proc.pid, 9)
            except OSError:
                proc.kill()
            proc.communicate()
            return {"hang": "no result within %ds" % self.PTY_TIMEOUT}
        for line in reversed(out.strip().split("\n")):
            if line.startswith("{"):
                return json.loads(line)
        return {"hang": "session process died: rc=%s %s" % (proc.returncode, err.strip()[-200:])}

    # ---------- implementation ----------
    def run_impl(self, case):
        if case["kind"] == "pty":
            key = core.canon(case)
            proc = self._prefetched.pop(key, None)
            if self._hangs.get(case["loop"], 0) >= 2:
                if proc is not None:
                    try:
                        os.killpg(proc.pid, 9)
                    except OSError:
                        pass
                    proc.communicate()
                return {"hang": "not run: 2 earlier pty sessions with this event loop did not terminate"}
            res = self._pty_collect(proc or self._pty_popen(case))
            if "hang" in res:
                self._hangs[case["loop"]] = self._hangs.get(case["loop"], 0) + 1
            return res
        res = self._ask_worker(case)
        if "hang" in res or "harness_error" in res:
            return res
        tr = res["trace"]
        return {"out": res["out"], "started": res["started"], "ncb": res["ncb"],
                "sig": res["sig"] if case["kind"] == "hook" else list(case["cfg"].get("sig", [0, 0, 0])),
                "term": dict(replay_modes(tr[:res.get("ntr1", len(tr))]), cbreak=res.get("cbreak", 0)), "trace": tr,
                "ntr1": res.get("ntr1", len(tr)), "shown": res.get("shown", []), "second": res.get("second")}

    # ---------- model wire format ----------
    def encode(self, case):
        if case["kind"] == "pty":
            return None
        cfg, wc = case["cfg"], case["widget"]
        b = lambda x: 1 if x else 0      # noqa: E731
        l = [b(case["kind"] == "hook")]
        l += [0] if cfg.get("filter") is None else [1, len(cfg["filter"])] + list(cfg["filter"])
        l += [0, 0] if cfg.get("unhandled") is None else [1, b(cfg["unhandled"])]
        l += [b(cfg.get("handle_mouse", True)), b(cfg.get("pop_ups")), b(cfg.get("paste")), b(cfg.get("focus")),
              b(cfg.get("tty")), b(cfg.get("prestarted"))]
        pre = cfg.get("pre_alarms", [])
        l += [len(pre)] + list(pre)
        l += [b(wc.get("selectable", True)), b(wc.get("has_mouse", True))]
        wk = sorted((int(k), v) for k, v in wc.get("keys", {}).items())
        l += [len(wk)] + [x for kv in wk for x in kv]
        l += [len(wc.get("mouse", []))] + list(wc.get("mouse", []))
        l += [b(wc.get("cursor"))]
        l += list(cfg.get("sig", [0, 0, 0]))
        l += [b(cfg.get("launcher")), len(wc.get("pop_keys", []))] + list(wc.get("pop_keys", []))
        l += [b(cfg.get("second_run") and case["kind"] == "hook")]
        plan = sorted((int(k), v) for k, v in case.get("plan", {}).items())
        l += [len(plan)] + [x for kv in plan for x in kv]
        if case["kind"] == "hook":
            l.append(len(case["rounds"]))
            for r in case["rounds"]:
                l.append(len([ev for ev in r if ev[0] != "sleep"]))
                for ev in r:
                    if ev[0] == "frag":
                        # an incomplete sequence reaches MainLoop as an empty batch, the last byte completes 'up'
                        l += [1, 0] if ev[1] < len(UP_BYTES) - 1 else [1, 1, 1, UP, 0, 0]
                    if ev[0] == "in":
                        l += [1, len(ev[1])] + [x for k in ev[1] for x in k]
                    elif ev[0] == "resize":
                        l.append(2)
                    elif ev[0] == "alarm":
                        l += [3, ev[1]]
                    elif ev[0] == "pipe":
                        l += [4, ev[1], ev[2]]
                    elif ev[0] == "file":
                        l += [5, ev[1]]
        else:
            l.append(len(case["inputs"]))
            for bt in case["inputs"]:
                l += [len(bt)] + [x for k in bt for x in k]
        return l

    def decode(self, case, ints):
        names = ["alt", "cursor", "mouse", "mouse2", "mouse6", "paste", "focus", "cbreak", "plain"]

        def summary(it):
            kind, val = next(it), next(it)
            if kind == 0:
                out = ["ok"]
            elif kind == 1:
                out = ["exc", val, 1]
            elif kind == 2:
                out = ["err", PYERR.get(val, "?")]
            else:
                out = ["err", "model-outcome-%d" % kind]
            started = bool(next(it))
            ncb = next(it)
            sig = [next(it), next(it), next(it)]
            term = {k: next(it) for k in names}
            return out, started, ncb, sig, term
        try:
            it = iter(ints)
            out, started, ncb, sig, term = summary(it)
            second = None
            if next(it):
                out2, started2, _ncb2, sig2, term2 = summary(it)
                second = {"out": out2, "started": started2, "sig": sig2, "term": term2}
            ntr1 = next(it)
            ntr = next(it)
            trace = []
            for _ in range(ntr):
                ln = next(it)
                trace.append([next(it) for _ in range(ln)])
        except StopIteration:
            return {"malformed": ints[:60]}
        # what the property demands where the model is silent: at every wait the terminal shows the widget
        shown = [1] * sum(1 for t in trace[:ntr1] if t == [T_WAIT])
        if second is not None:
            second["shown"] = [1] * sum(1 for t in trace[ntr1:] if t == [T_WAIT])
        return {"out": out, "started": started, "ncb": ncb, "sig": sig, "term": term, "trace": trace, "ntr1": ntr1,
                "shown": shown, "second": second}

    # ---------- oracle (written from the property text; does not use the model) ----------
    def oracle(self, case, res):
        if "hang" in res:
            return ["the session did not terminate: " + str(res["hang"])]
        if "harness_error" in res:
            return ["the session could not be set up or torn down: " + res["harness_error"]]
        if "malformed" in res:
            return []
        msgs = []
        cfg, wc = case["cfg"], case["widget"]
        if cfg.get("pop_ups") and not wc.get("has_mouse", True):
            return []          # PopUpTarget around a non-Widget: observation only (see distribution)
        tr = res["trace"][:res.get("ntr1", len(res["trace"]))]     # (the first run; a second run follows it)
        plan = {int(k): v for k, v in case.get("plan", {}).items()}
        ncb = res["ncb"]
        fired = sorted(i for i in plan if i < ncb)
        quit_pos = next((k for k, t in enumerate(tr) if t[0] == T_QUIT), None)
        if fired and quit_pos is not None:
            # a callback invoked while the loop was already winding down after the harness's final ExitMainLoop
            # (a pending idle redraw on some loops): the session was over, nothing is judged for it
            cb_pos = [k for k, t in enumerate(tr) if t[0] in CB_TAGS]
            if fired[0] < len(cb_pos) and cb_pos[fired[0]] > quit_pos:
                fired = []
        off_script = False
        # --- outcome of run() ---
        if fired:
            i = fired[0]
            cbs = [t for t in tr if t[0] in CB_TAGS]
            where = CB_NAMES.get(cbs[i][0], "?") if i < len(cbs) else "?"
            if i != ncb - 1 and case["kind"] != "pty":
                # (on the other event loops a pending idle redraw may still run while the loop winds down:
                #  not judged, counted in the distribution)
                msgs.append(f"callback invocation #{i} ({where}) raised but {ncb - 1 - i} more callback(s) were invoked afterwards")
            ran_on = any(t[0] == T_QUIT for t in tr)
            if plan[i] == 0:
                if res["out"] != ["ok"]:
                    msgs.append(f"ExitMainLoop raised in callback #{i} ({where}): run() did not return normally: {res['out']}")
                elif ran_on:
                    msgs.append(f"ExitMainLoop raised in callback #{i} ({where}) did not end run(): the loop kept running "
                                f"to the end of the scripted session")
                    off_script = True
            elif res["out"][:2] != ["exc", plan[i]]:
                what = "BaseException-derived exception" if plan[i] >= BASE_EXC else "exception"
                msgs.append(f"{what} {plan[i]} raised in callback #{i} ({where}): what left run() is {res['out']}"
                            + (" and the loop kept running to the end of the scripted session" if ran_on else ""))
                off_script = True
            elif res["out"][2] != 1:
                msgs.append(f"exception {plan[i]} raised in callback #{i} ({where}): a different exception object left run()")
        else:
            if res["out"] != ["ok"]:
                msgs.append(f"no callback raised, the session was ended with ExitMainLoop: run() gave {res['out']}")
        # --- the display is stopped and the terminal is back in its initial modes ---
        if res["started"]:
            msgs.append("screen.started is still True after run()")
        bad = [k for k, v in sorted(res["term"].items()) if v != (1 if k == "cursor" else 0)]
        if bad:
            msgs.append("terminal modes not restored after run(): " + ",".join(bad))
        if case["kind"] != "plain" and res["sig"] != list(cfg.get("sig", [0, 0, 0])):
            names = ["SIGWINCH", "SIGTSTP", "SIGCONT"]
            diff = [f"{names[j]}: {cfg.get('sig', [0, 0, 0])[j]}->{res['sig'][j]}" for j in range(3)
                    if res["sig"][j] != cfg.get("sig", [0, 0, 0])[j]]
            msgs.append("signal handlers not restored after run(): " + ", ".join(diff))
        if case["kind"] == "pty":
            if res.get("tios_ok") != 1:
                msgs.append("tty settings (termios) differ after run()" if res.get("tios_ok") == 0
                            else "the terminal descriptor is no longer usable after run()")
            if off_script:
                return msgs          # the exception was lost: what the rest of the session did is not judged
            if res.get("safety"):
                msgs.append(f"the scripted session did not complete within {PTY_SAFETY:.0f}s (input or a wake-up was lost)")
                return msgs
            msgs += self.order_pty(case, res)
            if not all(res.get("shown", [])):
                msgs.append("after the redraw key (ctrl l) the loop waited but the terminal does not show the widget state "
                            "(the requested repaint was not written)")
            sec = res.get("second")
            if sec is not None:
                if sec["out"] != ["ok"]:
                    msgs.append(f"second run() on the same MainLoop and Screen: {sec['out']}")
                elif not all(sec["shown"]):
                    msgs.append("second run() on the same MainLoop and Screen: the loop waited but the terminal does not "
                                "show the widget state (nothing was painted into the fresh alternate buffer)")
                bad2 = [k for k, v in sorted(sec["term"].items()) if v != (1 if k == "cursor" else 0)]
                if sec["started"] or bad2 or sec["sig"] != list(cfg.get("sig", [0, 0, 0])) or sec["tios_ok"] != 1:
                    msgs.append(f"second run() on the same MainLoop and Screen: not restored afterwards (started="
                                f"{sec['started']}, modes={bad2}, handlers={sec['sig']}, termios_ok={sec['tios_ok']})")
            return msgs
        # --- the redraw really reaches the terminal: at every wait it shows the widget state ---
        for k, ok in enumerate(res.get("shown", [])):
            if not ok:
                msgs.append(f"wait #{k}: the loop is about to wait but the terminal does not show the widget state "
                            f"(a requested repaint was not written)")
                break
        sec = res.get("second")
        if sec is not None:
            if sec["out"] != ["ok"]:
                msgs.append(f"second run() on the same MainLoop and Screen: {sec['out']}")
            if not all(sec["shown"]) or not sec["shown"]:
                msgs.append("second run() on the same MainLoop and Screen: the loop waits but the terminal does not show "
                            "the widget state (nothing was painted into the fresh alternate buffer)")
            bad2 = [k for k, v in sorted(sec["term"].items()) if v != (1 if k == "cursor" else 0)]
            if sec["started"] or bad2 or sec["sig"] != list(cfg.get("sig", [0, 0, 0])):
                msgs.append(f"second run() on the same MainLoop and Screen: not restored afterwards "
                            f"(started={sec['started']}, modes={bad2}, handlers={sec['sig']})")
        # --- order of the callbacks, redraw before the loop next waits ---
        msgs += self.order(case, res, bool(fired))
        return msgs

    def order(self, case, res, faulted):
        msgs = []
        tr = res["trace"][:res.get("ntr1", len(res["trace"]))]     # (the first run; a second run follows it)
        rounds = expected_rounds(case)
        pos = 0                     # position in the trace
        last_cb_pos = None          # where the previous round with callbacks ended

        def drawn_between(a, b):
            seen_render = False
            for t in tr[a:b]:
                if t[0] == T_RENDER:
                    seen_render = True
                elif t[0] == T_DRAW and seen_render:
                    return True
            return False
        complete = True
        for ri, exp in enumerate(rounds):
            first = True
            for item, optional in exp:
                # next order-relevant item of the trace
                q = pos
                while q < len(tr) and tr[q][0] not in ORDER_TAGS:
                    q += 1
                if q == len(tr):
                    if optional:
                        continue
                    complete = False
                    break
                if tr[q] != item:
                    if optional:
                        continue
                    msgs.append(f"round {ri}: expected callback {item} next, the trace has {tr[q]}")
                    return msgs
                if first and last_cb_pos is not None and not drawn_between(last_cb_pos, q):
                    msgs.append(f"round {ri}: no redraw (render then screen.draw_screen) between the input of the "
                                f"previous round and this one")
                first = False
                pos = q + 1
                last_cb_pos = pos
            if not complete:
                break
        q = pos
        while q < len(tr) and tr[q][0] not in ORDER_TAGS:
            q += 1
        if q < len(tr):
            msgs.append(f"unexpected extra callback {tr[q]} after the scripted input was consumed")
        quit_pos = next((i for i, t in enumerate(tr) if t[0] == T_QUIT), None)
        if not faulted:
            if not complete:
                msgs.append("the session ended although scripted input was not delivered")
            elif quit_pos is None:
                msgs.append("the session ended without the harness's final ExitMainLoop")
            elif last_cb_pos is not None and not drawn_between(last_cb_pos, quit_pos):
                msgs.append("no redraw between the last input and the loop's next wait")
        elif not complete and quit_pos is not None:
            msgs.append("scripted input was skipped")
        return msgs

    def order_pty(self, case, res):
        """batching over a pty is the kernel's business: check per batch, keys in arrival order"""
        msgs = []
        cfg, wc = case["cfg"], case["widget"]
        keys = case.get("keys", PTY_KEYS) + [PTY_REDRAW] + ([[1, UP, 0, 0]] if case.get("frag") else [])
        tr = [t for t in res["trace"] if t[0] in ORDER_TAGS]
        cfg2 = dict(cfg, filter=[], unhandled=0)
        seen = 0
        i = 0
        while i < len(tr):
            t = tr[i]
            if t[0] == T_FILTER:
                batch = [t[2 + 4 * j: 6 + 4 * j] for j in range(t[1])]
                real = [k for k in batch if k[0] != 0]
                if real != keys[seen: seen + len(real)]:
                    msgs.append(f"input not in arrival order: got {real} after {seen} keys of {keys}")
                    return msgs
                seen += len(real)
                exp = expected_for_keys(cfg2, wc, batch)
                for item, optional in exp:
                    if i < len(tr) and tr[i] == item:
                        i += 1
                    elif i >= len(tr):
                        break           # cut by a fault
                    elif not optional:
                        msgs.append(f"expected callback {item}, the trace has {tr[i]}")
                        return msgs
            else:
                i += 1
        if res["out"] == ["ok"] and any(t[0] == T_QUIT for t in res["trace"]) and seen != len(keys):
            msgs.append(f"only {seen} of {len(keys)} typed keys were delivered before the session ended")
        return msgs

    def nontrivial(self, case, res):
        return isinstance(res, dict) and res.get("ncb", 0) > 0

    def signature(self, case, msg):
        return case["kind"] + ":" + case.get("loop", "") + ":" + re.sub(r"\d+", "N", msg)[:90]

    def distribution(self, case, res, dist):
        def inc(k, by=1):
            dist[k] = dist.get(k, 0) + by
        inc("kind:" + case["kind"])
        if case["kind"] == "pty":
            inc("loop:" + case["loop"])
        if "out" in res:
            inc("outcome:" + res["out"][0])
        else:
            inc("outcome:hang")
        plan = case.get("plan", {})
        if not plan:
            inc("fault:none")
        for k, v in plan.items():
            if int(k) < res.get("ncb", 0):
                inc("fault_fired:" + ("exit" if v == 0 else ("raise_base_exception" if v >= BASE_EXC else "raise")))
                tr = [t for t in res.get("trace", [])[:res.get("ntr1", 10 ** 9)] if t[0] in CB_TAGS]
                if int(k) < len(tr):
                    inc("fault_at:" + {T_FILTER: "filter", T_KEYPRESS: "keypress", T_MOUSE: "mouse", T_UNHANDLED: "unhandled",
                                       T_ALARM: "alarm", T_PIPE: "pipe", T_FILE: "file", T_RENDER: "render",
                                       T_POPKEY: "popup_keypress"}[tr[int(k)][0]])
        cfg = case["cfg"]
        for f in ("pop_ups", "prestarted", "paste", "focus", "tty"):
            if cfg.get(f):
                inc("cfg:" + f)
        if res.get("second") is not None:
            inc("second_run_done")
        if res.get("shown"):
            inc("waits_judged_by_terminal_content", len(res["shown"]))
        if any(t[0] == T_CLEAR for t in res.get("trace", [])[:-8]) or case["kind"] == "pty":
            inc("sessions_with_forced_repaint")
        fired = [int(k) for k in plan if int(k) < res.get("ncb", 0)]
        if case["kind"] == "pty" and fired and min(fired) != res.get("ncb", 0) - 1:
            inc("obs:callbacks_after_the_fault:" + case["loop"])
        if cfg.get("launcher"):
            inc("pop_up_open_close_sessions")
        if case.get("frag") or any(ev[0] == "frag" for r in case.get("rounds", []) for ev in r):
            inc("sessions_with_key_typed_in_fragments")
        if cfg.get("pop_ups") and not case["widget"].get("has_mouse", True):
            inc("obs:pop_ups_around_widget_without_mouse_event")
        # observation, not demanded by the property text: after an exception other than ExitMainLoop
        # MainLoop.stop() is not called: the idle handle and the input watches stay registered
        if res.get("out", ["ok"])[0] == "exc" and case["kind"] == "hook":
            inc("obs:error_path_leaves_event_loop_hooks_registered")

    # ---------- generators ----------
    WIDGETS = [
        {"selectable": True, "has_mouse": True, "keys": {"97": 0, "98": 12, "100": 101}, "mouse": [1], "cursor": True},
        {"selectable": True, "has_mouse": True, "keys": {"97": 0}, "mouse": [], "cursor": False},
        {"selectable": False, "has_mouse": True, "keys": {}, "mouse": [1, 2], "cursor": False},
    ]
    DUCK = {"selectable": True, "has_mouse": False, "keys": {"97": 0}, "mouse": [], "cursor": False}

    def ncb_estimate(self, case):
        """upper bound of the number of callback invocations of the fault-free session"""
        n = sum(len(r) for r in expected_rounds(case))
        pu = 2 if case["cfg"].get("pop_ups") else 1
        if case["kind"] == "hook":
            n = n * pu + (2 + len(case["rounds"])) * pu
        else:
            n = n * pu + (1 + len(case["inputs"])) * pu
        return n + 1

    def with_faults(self, base, kinds=(0, 7, BASE_EXC + 7), step=1):
        yield dict(base, plan={})
        if base["cfg"].get("launcher"):
            for i in range(0, 70):
                for f in (0, 7):
                    yield dict(base, plan={str(i): f})
            return
        for i in range(0, self.ncb_estimate(base), step):
            for f in kinds:
                yield dict(base, plan={str(i): f})

    def base_hook_cases(self):
        K = lambda c: [1, c, 0, 0]      # noqa: E731,N806
        M = lambda b: [2, b, 3, 2]      # noqa: E731,N806
        scripts = [
            [[["in", [K(97), K(98), K(99)]]], [["alarm", 5]], [["pipe", 1, 65]], [["file", 2]]],
            [[["in", [K(99), M(1), M(2), K(100)]], ["alarm", 5]], [["resize"]], [["in", [K(12)]]]],
            [[["pipe", 1, 66], ["alarm", 6], ["alarm", 7]], [["in", [K(97)]]]],
        ]
        cfgs = [
            {"filter": [], "unhandled": 0, "handle_mouse": True, "pop_ups": False, "paste": False, "focus": False,
             "second_run": True},
            {"filter": None, "unhandled": None, "handle_mouse": False, "pop_ups": False, "paste": True, "focus": True,
             "tty": True, "second_run": True},
            {"filter": [99], "unhandled": 1, "handle_mouse": True, "pop_ups": True, "paste": True, "focus": False,
             "pre_alarms": [3]},
            {"filter": [97, 98, 99, 100, 12], "unhandled": 1, "handle_mouse": True, "pop_ups": False, "prestarted": True,
             "sig": [2, 1, 0]},
        ]
        for s in scripts:
            for ci, cfg in enumerate(cfgs):
                for wi, w in enumerate(self.WIDGETS):
                    yield {"kind": "hook", "cfg": dict(cfg), "widget": w, "rounds": s}

    def base_popup_cases(self):
        """pop_ups=True with a PopUpLauncher whose pop-up widget is cached: open, close, open again"""
        K = lambda c: [1, c, 0, 0]      # noqa: E731,N806
        o, x, k, j = K(KEY_OPEN), K(KEY_CLOSE), K(107), K(106)
        m1, m2 = [2, 1, 3, 2], [2, 2, 40, 10]        # inside / outside the pop-up's rectangle
        scripts = [
            [[["in", [o, k]]], [["in", [x, k]]], [["in", [o]]], [["in", [k, j, x]]], [["in", [k]]]],
            [[["in", [o, k, x, k, o, j, x, j]]]],
            [[["in", [k]]], [["in", [o]], ["alarm", 3]], [["resize"]], [["in", [x]]], [["in", [o]]], [["in", [k]]], [["in", [x, o, k]]]],
            [[["in", [m1, o, m1, m2, K(CTRL_L)]]], [["in", [x, m1, m2]]]],
        ]
        cfgs = [
            {"filter": [], "unhandled": 0, "handle_mouse": False, "pop_ups": True, "launcher": True},
            {"filter": None, "unhandled": None, "handle_mouse": True, "pop_ups": True, "launcher": True, "second_run": True},
        ]
        w = {"selectable": True, "has_mouse": True, "keys": {"106": 0}, "mouse": [1], "cursor": False, "pop_keys": [107]}
        for sc in scripts:
            for cfg in cfgs:
                yield {"kind": "hook", "cfg": dict(cfg), "widget": w, "rounds": sc}
        # the same under _run_screen_event_loop (screen without hook_event_loop)
        yield {"kind": "plain", "cfg": {"filter": [], "unhandled": 1, "handle_mouse": True, "pop_ups": True, "launcher": True,
                                        "pre_alarms": [2]},
               "widget": w, "inputs": [[o, k], [], [x, k, m1], [o, m1], [j, x, j]]}

    def base_frag_cases(self):
        """'up' typed one byte per read (three reads inside complete_wait), then nothing for longer than complete_wait"""
        K = lambda c: [1, c, 0, 0]      # noqa: E731,N806
        fr = [[["frag", 0]], [["frag", 1]], [["frag", 2]], [["sleep"]]]
        yield {"kind": "hook", "cfg": {"filter": [], "unhandled": 0, "handle_mouse": False, "pop_ups": False},
               "widget": self.WIDGETS[0], "rounds": [[["in", [K(97)]]]] + fr + [[["in", [K(98)]]]]}
        yield {"kind": "hook", "cfg": {"filter": None, "unhandled": 1, "handle_mouse": True, "pop_ups": True, "tty": True},
               "widget": self.WIDGETS[1], "rounds": fr + fr}
        yield {"kind": "hook", "cfg": {"filter": [], "unhandled": None, "handle_mouse": True, "pop_ups": False},
               "widget": self.WIDGETS[2], "rounds": [[["frag", 0]], [["frag", 1]], [["alarm", 4]], [["frag", 2]], [["sleep"]]]}

    def base_plain_cases(self):
        K = lambda c: [1, c, 0, 0]      # noqa: E731,N806
        M = lambda b: [2, b, 3, 2]      # noqa: E731,N806
        scripts = [
            [[K(97), K(98)], [], [K(99), M(1)], [[0, 0, 0, 0], M(2)]],
            [[], [], [K(100), [0, 0, 0, 0]], [K(12)]],
        ]
        cfgs = [
            {"filter": [], "unhandled": 0, "handle_mouse": True, "pop_ups": False, "pre_alarms": [4, 5]},
            {"filter": None, "unhandled": None, "handle_mouse": False, "pop_ups": True},
            {"filter": [100, 99], "unhandled": 1, "handle_mouse": True, "pop_ups": False, "pre_alarms": [9], "prestarted": True},
        ]
        for s in scripts:
            for cfg in cfgs:
                for w in self.WIDGETS[:2]:
                    yield {"kind": "plain", "cfg": dict(cfg), "widget": w, "inputs": s}

    def random_case(self, rng, kind=None):
        kind = kind or rng.choice(["hook", "hook", "plain"])
        codes = [97, 98, 99, 100, 101, 12]

        def rkey():
            x = rng.random()
            if x < 0.7:
                return [1, rng.choice(codes), 0, 0]
            return [2, rng.choice([1, 2, 3]), rng.randrange(0, 20), rng.randrange(0, 5)]
        cfg = {"filter": rng.choice([None, [], [rng.choice(codes)], rng.sample(codes, 3)]),
               "unhandled": rng.choice([None, 0, 1]), "handle_mouse": rng.random() < 0.7, "pop_ups": rng.random() < 0.3,
               "paste": rng.random() < 0.4, "focus": rng.random() < 0.4, "prestarted": rng.random() < 0.2,
               "tty": rng.random() < 0.3, "second_run": rng.random() < 0.3,
               "pre_alarms": [rng.randrange(1, 9) for _ in range(rng.choice([0, 0, 1, 2]))],
               "sig": [rng.choice([0, 0, 1, 2]), rng.choice([0, 0, 1, 2]), rng.choice([0, 0, 1, 2])]}
        wc = {"selectable": rng.random() < 0.8, "has_mouse": True,
              "keys": {str(cd): rng.choice([0, 0, cd, rng.choice(codes)]) for cd in rng.sample(codes, rng.randrange(0, 4))},
              "mouse": rng.sample([1, 2, 3], rng.randrange(0, 3)), "cursor": rng.random() < 0.5}
        if not cfg["pop_ups"] and rng.random() < 0.1:
            wc["has_mouse"] = False
        if rng.random() < 0.2:
            # a PopUpLauncher below the PopUpTarget; 'o' / 'x' open and close its (cached) pop-up widget
            cfg["pop_ups"], cfg["launcher"], wc["has_mouse"] = True, True, True
            wc["pop_keys"] = rng.sample([97, 98, 99, 100, 12], rng.randrange(0, 3))
            codes += [KEY_OPEN, KEY_OPEN, KEY_CLOSE, KEY_CLOSE]
        if kind == "hook":
            rounds = []
            for _ in range(rng.randrange(1, 5)):
                r = []
                x = rng.random()
                if x < 0.5:
                    r.append(["in", [rkey() for _ in range(rng.randrange(1, 5))]])
                elif x < 0.6:
                    r.append(["resize"])
                elif x < 0.75:
                    r.append(["pipe", rng.choice([1, 2]), rng.randrange(65, 70)])
                elif x < 0.85:
                    r.append(["file", rng.choice([1, 2])])
                for _ in range(rng.choice([0, 0, 1, 2]) if r else rng.choice([1, 2])):
                    r.append(["alarm", rng.randrange(1, 9)])
                rounds.append(r)
            case = {"kind": "hook", "cfg": cfg, "widget": wc, "rounds": rounds}
        else:
            cfg.pop("sig")
            cfg.pop("paste")
            cfg.pop("focus")
            cfg.pop("tty")
            cfg.pop("second_run")
            inputs = []
            for _ in range(rng.randrange(1, 6)):
                if rng.random() < 0.25:
                    inputs.append([])
                else:
                    b = [rkey() for _ in range(rng.randrange(1, 4))]
                    if rng.random() < 0.2:
                        b.insert(rng.randrange(0, len(b) + 1), [0, 0, 0, 0])
                    inputs.append(b)
            case = {"kind": "plain", "cfg": cfg, "widget": wc, "inputs": inputs}
        n = self.ncb_estimate(case)
        x = rng.random()
        if x < 0.15:
            case["plan"] = {}
        elif x < 0.85:
            case["plan"] = {str(rng.randrange(0, n)): rng.choice([0, rng.randrange(1, 50), BASE_EXC + rng.randrange(1, 50)])}
        else:
            i, j = rng.randrange(0, n), rng.randrange(0, n)
            case["plan"] = {str(i): rng.choice([0, 5]), str(j): rng.choice([0, 6])}
        return case

    def pty_cases(self, tier):
        loops = []
        for name in LOOPS:
            try:
                if name == "tornado":
                    __import__("tornado")
                elif name == "trio":
                    __import__("trio")
                elif name == "twisted":
                    __import__("twisted")
                elif name == "zmq":
                    __import__("zmq")
                loops.append(name)
            except ImportError:
                pass
        w = {"selectable": True, "has_mouse": True, "keys": {"97": 0}, "mouse": [], "cursor": True}
        cfgs = [{"handle_mouse": True, "pop_ups": False, "paste": True, "focus": True, "sig": [0, 0, 0]}]
        if tier == "thorough":
            cfgs.append({"handle_mouse": False, "pop_ups": True, "paste": False, "focus": False, "sig": [2, 2, 0]})
        for cfg in cfgs:
            for name in loops:
                base = {"kind": "pty", "loop": name, "cfg": cfg, "widget": w, "second_run": True}
                yield dict(base, plan={}, frag=True)
                nmax = 32 if cfg.get("pop_ups") else 24
                step = 1 if (tier == "thorough" or name in ("select", "asyncio")) else 2
                for i in range(0, nmax, step):
                    if tier == "thorough":
                        faults = (0, 7, BASE_EXC + 7)
                    else:
                        faults = (0, BASE_EXC + 7) if (i // step) % 2 == 0 else (7, BASE_EXC + 7)
                    for f in faults:
                        yield dict(base, plan={str(i): f})

    def prefetching(self, gen, width=8):
        """run pty sessions `width` at a time; run_impl collects them in order"""
        window = []
        for case in gen:
            self._prefetched[core.canon(case)] = self._pty_popen(case)
            window.append(case)
            if len(window) >= width:
                yield window.pop(0)
        while window:
            yield window.pop(0)

    def cases(self, rng, tier):
        for base in self.base_hook_cases():
            yield from self.with_faults(base, step=1 if tier == "thorough" else 1)
        for base in self.base_plain_cases():
            yield from self.with_faults(base)
        for base in self.base_popup_cases():
            yield from self.with_faults(base)
        for base in self.base_frag_cases():
            yield dict(base, plan={})
        for base in ({"kind": "hook", "cfg": {"filter": [], "unhandled": 0, "pop_ups": False}, "widget": self.DUCK,
                      "rounds": [[["in", [[1, 98, 0, 0], [2, 1, 1, 1]]]]]},):
            yield from self.with_faults(base)
        for _ in range(1500 if tier == "quick" else 20000):
            yield self.random_case(rng)
        yield from self.prefetching(self.pty_cases(tier))

    def search_cases(self, rng, tier):
        while True:
            yield self.random_case(rng)

    def shrink_candidates(self, case):
        has_frag = any(ev[0] == "frag" for r in case.get("rounds", []) for ev in r)
        if case["kind"] == "hook" and not has_frag:      # (the bytes of a fragmented key belong together)
            rs = case["rounds"]
            for i in range(len(rs)):
                if len(rs) > 1:
                    yield dict(case, rounds=rs[:i] + rs[i + 1:])
                for j in range(len(rs[i])):
                    if len(rs[i]) > 1:
                        yield dict(case, rounds=rs[:i] + [rs[i][:j] + rs[i][j + 1:]] + rs[i + 1:])
                    ev = rs[i][j]
                    if ev[0] == "in" and len(ev[1]) > 1:
                        for k in range(len(ev[1])):
                            yield dict(case, rounds=rs[:i] + [rs[i][:j] + [["in", ev[1][:k] + ev[1][k + 1:]]] + rs[i][j + 1:]] + rs[i + 1:])
        elif case["kind"] == "plain":
            ins = case["inputs"]
            for i in range(len(ins)):
                if len(ins) > 1:
                    yield dict(case, inputs=ins[:i] + ins[i + 1:])
        plan = case.get("plan", {})
        for k in plan:
            yield dict(case, plan={a: b for a, b in plan.items() if a != k})
            if int(k) > 0:
                yield dict(case, plan={(str(int(a) - 1) if a == k else a): b for a, b in plan.items()})
        cfg = case["cfg"]
        for f in ("pop_ups", "prestarted", "paste", "focus", "tty", "second_run"):
            if cfg.get(f) and not (f == "pop_ups" and cfg.get("launcher")):
                yield dict(case, cfg=dict(cfg, **{f: False}))
        if cfg.get("pre_alarms"):
            yield dict(case, cfg=dict(cfg, pre_alarms=[]))
        if cfg.get("sig") and cfg["sig"] != [0, 0, 0]:
            for j in range(3):
                if cfg["sig"][j]:
                    s2 = list(cfg["sig"])
                    s2[j] = 0
                    yield dict(case, cfg=dict(cfg, sig=s2))


CHECK = C12


if __name__ == "__main__":
    if len(sys.argv) > 1 and sys.argv[1] == "--worker":
        worker_main()
    elif len(sys.argv) > 2 and sys.argv[1] == "--pty":
        print(json.dumps(run_pty(json.loads(sys.argv[2]))))
        sys.stdout.flush()
        os._exit(0)
