"""C12 - MainLoop delivers input in order and always restores the terminal.

Three kinds of cases:

* kind "hook"  (exact correspondence + oracle): the REAL MainLoop and the REAL SelectEventLoop drive an
  instrumented subclass of the REAL raw_display.Screen whose input is a pipe and whose output is a
  recorder (no tty anywhere): every public screen call, every DEC private mode escape sequence the
  screen writes (in write order), every callback invocation is one trace item.  Scripted rounds of
  events are injected from an idle callback ("the loop is about to wait -> the next events arrive");
  a fault plan maps the global callback invocation index to ExitMainLoop / a custom exception.
* kind "plain" (exact correspondence + oracle): a plain BaseScreen fake WITHOUT hook_event_loop, which
  sends MainLoop.run() through _run_screen_event_loop().
* kind "pty"   (oracle only; partial by nature): the real raw_display.Screen on a pty with each
  installed event loop, one session per subprocess with a hard timeout; final states only.

All in-process sessions run inside a persistent worker subprocess (signal handlers, descriptors) that is
killed and restarted when a session does not finish in time ("hang" is then the observable result).
"""
import json
import os
import re
import select as _select
import subprocess
import sys
import warnings

from harness import core

warnings.simplefilter("ignore")

# ---- trace item tags (shared with Model/MainLoop.v, enc_tev) ----
T_START, T_STOP, T_SETMOUSE, T_HOOK, T_UNHOOK, T_DRAW, T_CLEAR, T_COLSROWS, T_WRITE = 1, 2, 3, 4, 5, 6, 7, 8, 9
T_FILTER, T_KEYPRESS, T_MOUSE, T_UNHANDLED, T_ALARM, T_PIPE, T_FILE, T_RENDER, T_QUIT = 10, 11, 12, 13, 14, 15, 16, 17, 18
T_GETINPUT, T_TIMEOUTS, T_PSTART, T_PSTOP = 19, 20, 21, 22

CTRL_L = 12
MODES = {1049: "alt", 25: "cursor", 1000: "mouse", 1002: "mouse2", 1006: "mouse6", 2004: "paste", 1004: "focus"}
SIG_IDS = {"dfl": 0, "ign": 1, "app": 2, "urwid": 3, "other": 4}


def key_to_py(k):
    """wire key [kind,a,b,c] -> urwid input value"""
    if k[0] == 0:
        return "window resize"
    if k[0] == 1:
        return "ctrl l" if k[1] == CTRL_L else chr(k[1])
    return ("mouse press", k[1], k[2], k[3])


def key_from_py(v):
    if v == "window resize":
        return [0, 0, 0, 0]
    if isinstance(v, str):
        return [1, CTRL_L if v == "ctrl l" else (ord(v) if len(v) == 1 else -1), 0, 0]
    if isinstance(v, tuple) and len(v) == 4:
        return [2, v[1], v[2], v[3]]
    return [9, -1, -1, -1]


def key_bytes(k):
    if k[0] == 1:
        return bytes([k[1]])
    if k[0] == 2:
        return b"\x1b[M" + bytes([32 + k[1] - 1, 33 + k[2], 33 + k[3]])
    raise ValueError(k)


class UserExc(Exception):
    def __init__(self, ident):
        Exception.__init__(self, ident)
        self.ident = ident


# =====================================================================================================
#  in-process sessions (run inside the worker)
# =====================================================================================================
class Session:
    """State shared by the callbacks of one scripted session."""

    def __init__(self, case):
        self.case = case
        self.trace = []
        self.n = 0                       # global callback invocation index
        self.plan = {int(k): v for k, v in case.get("plan", {}).items()}
        self.raised = []                 # exception objects we raised (identity check)

    def cb(self, item):
        """one callback invocation: trace it, then fault if the plan says so"""
        self.trace.append(item)
        i = self.n
        self.n += 1
        if i in self.plan:
            import urwid
            f = self.plan[i]
            e = urwid.ExitMainLoop() if f == 0 else UserExc(f)
            self.raised.append(e)
            raise e


def make_widget(S, wc, urwid):
    keys = {int(k): v for k, v in wc.get("keys", {}).items()}
    mouse = set(wc.get("mouse", []))

    def keypress(self, size, key):
        k = key_from_py(key)
        S.cb([T_KEYPRESS, k[1]])
        r = keys.get(k[1], k[1])
        return None if r == 0 else key_to_py([1, r, 0, 0])

    def mouse_event(self, size, event, button, col, row, focus):
        S.cb([T_MOUSE, button, col, row])
        return button in mouse

    def render(self, size, focus=False):
        S.cb([T_RENDER])
        c = urwid.CompositeCanvas(urwid.SolidCanvas(" ", size[0], size[1]))
        if wc.get("cursor"):
            c.cursor = (0, 0)
        return c

    def selectable(self):
        return bool(wc.get("selectable", True))

    d = {"_sizing": frozenset([urwid.BOX]), "no_cache": ["render"], "keypress": keypress, "render": render,
         "selectable": selectable}
    if wc.get("has_mouse", True):
        d["mouse_event"] = mouse_event
        return type("W", (urwid.Widget,), d)()
    # duck-typed widget without mouse_event (urwid.Widget always has one)
    del d["_sizing"], d["no_cache"]
    return type("DuckW", (object,), d)()


class Recorder:
    """stands for the terminal: decodes DEC private mode sequences out of what the screen writes"""
    PAT = re.compile(r"\x1b\[\?([0-9;]+)([hl])")

    def __init__(self, S):
        self.S = S
        self.pending = ""

    def write(self, data):
        data = self.pending + data
        self.pending = ""
        # keep an unterminated tail (a sequence split over two writes)
        m = re.search(r"\x1b(\[(\?[0-9;]*)?)?$", data)
        if m:
            self.pending = data[m.start():]
            data = data[:m.start()]
        for mo in self.PAT.finditer(data):
            for num in mo.group(1).split(";"):
                if num:
                    self.S.trace.append([T_WRITE, int(num), 1 if mo.group(2) == "h" else 0])

    def flush(self):
        pass


def sig_id(h, scr, app):
    import signal
    if h == signal.SIG_DFL:
        return 0
    if h == signal.SIG_IGN:
        return 1
    if h is app:
        return 2
    if getattr(h, "__self__", None) is scr:
        return 3
    return 4


def run_hook(case):
    """real MainLoop + real SelectEventLoop + instrumented real raw_display.Screen on pipes"""
    import signal
    import urwid
    from urwid.display.raw import Screen
    S = Session(case)
    tr = S.trace
    cfg = case["cfg"]
    in_r, in_w = os.pipe()
    os.set_blocking(in_r, False)
    in_file = os.fdopen(in_r, "rb", buffering=0)

    class RecScreen(Screen):
        def start(self, *a, **kw):
            tr.append([T_START])
            return Screen.start(self, *a, **kw)

        def stop(self):
            tr.append([T_STOP])
            return Screen.stop(self)

        def set_mouse_tracking(self, enable=True):
            tr.append([T_SETMOUSE])
            return Screen.set_mouse_tracking(self, enable)

        def hook_event_loop(self, event_loop, callback):
            tr.append([T_HOOK])
            return Screen.hook_event_loop(self, event_loop, callback)

        def unhook_event_loop(self, event_loop):
            tr.append([T_UNHOOK])
            return Screen.unhook_event_loop(self, event_loop)

        def draw_screen(self, size, canvas):
            tr.append([T_DRAW])
            return Screen.draw_screen(self, size, canvas)

        def clear(self):
            tr.append([T_CLEAR])
            return Screen.clear(self)

        def get_cols_rows(self):
            tr.append([T_COLSROWS])
            return Screen.get_cols_rows(self)

    def app_handler(signum, frame):
        pass

    sigs = (signal.SIGWINCH, signal.SIGTSTP, signal.SIGCONT)
    initial = [{0: signal.SIG_DFL, 1: signal.SIG_IGN, 2: app_handler}[x] for x in cfg.get("sig", [0, 0, 0])]
    for s, hd in zip(sigs, initial):
        signal.signal(s, hd)
    scr = RecScreen(input=in_file, output=Recorder(S), bracketed_paste_mode=bool(cfg.get("paste")),
                    focus_reporting=bool(cfg.get("focus")))
    loop = urwid.SelectEventLoop()
    w = make_widget(S, case["widget"], urwid)

    filt = None
    if cfg.get("filter") is not None:
        drop = set(cfg["filter"])

        def filt(keys, raw):
            ks = [key_from_py(k) for k in keys]
            S.cb([T_FILTER, len(ks)] + [x for k in ks for x in k])
            return [k for k, kk in zip(keys, ks) if not (kk[0] == 1 and kk[1] in drop)]
    unh = None
    if cfg.get("unhandled") is not None:
        def unh(key):
            S.cb([T_UNHANDLED] + key_from_py(key))
            return bool(cfg["unhandled"])

    ml = urwid.MainLoop(w, screen=scr, event_loop=loop, handle_mouse=bool(cfg.get("handle_mouse", True)),
                        input_filter=filt, unhandled_input=unh, pop_ups=bool(cfg.get("pop_ups")))
    pipes = {}
    files = {}
    to_close = [in_w]

    def alarm_cb(l, ident):
        S.cb([T_ALARM, ident])

    def quit_cb():
        tr.append([T_QUIT])
        raise urwid.ExitMainLoop()

    def inject(ev):
        k = ev[0]
        if k == "in":
            os.write(in_w, b"".join(key_bytes(x) for x in ev[1]))
        elif k == "resize":
            scr._sigwinch_handler(28, None)
        elif k == "alarm":
            ml.set_alarm_in(0, alarm_cb, ev[1])
        elif k == "pipe":
            os.write(pipes[ev[1]], bytes([ev[2]]))
        elif k == "file":
            os.write(files[ev[1]][1], b"x")

    rounds = [list(r) for r in case["rounds"]]
    state = {"i": 0}

    def injector():
        i = state["i"]
        state["i"] += 1
        if i < len(rounds):
            for ev in rounds[i]:
                inject(ev)
        elif i == len(rounds):
            loop.alarm(0, quit_cb)

    for ev in [e for r in rounds for e in r]:
        if ev[0] == "pipe" and ev[1] not in pipes:
            def pcb(data, ident=ev[1]):
                S.cb([T_PIPE, ident, data[0] if data else -1])
            pipes[ev[1]] = ml.watch_pipe(pcb)
            to_close.append(pipes[ev[1]])
        if ev[0] == "file" and ev[1] not in files:
            r_, w_ = os.pipe()
            to_close += [r_, w_]

            def fcb(ident=ev[1], r_=r_):
                os.read(r_, 1)
                S.cb([T_FILE, ident])
            files[ev[1]] = (r_, w_)
            ml.watch_file(r_, fcb)
    # the injector must run AFTER MainLoop.entering_idle in every idle round: register it from an alarm that
    # fires inside the loop (MainLoop.start() has registered its own idle callback by then)
    loop.alarm(0, lambda: loop.enter_idle(injector))
    for ident in cfg.get("pre_alarms", []):
        ml.set_alarm_in(0, alarm_cb, ident)
    if cfg.get("prestarted"):
        scr.start()

    out = ["ok"]
    try:
        ml.run()
    except UserExc as e:
        out = ["exc", e.ident, 1 if (S.raised and e is S.raised[-1]) else 0]
    except BaseException as e:     # noqa: B036
        out = ["err", type(e).__name__]
    final = [sig_id(signal.getsignal(s), scr, app_handler) for s in sigs]
    for s in sigs:
        signal.signal(s, signal.SIG_DFL)
    started = bool(scr.started)
    for fd in to_close:
        try:
            os.close(fd)
        except OSError:
            pass
    for wfd, (_h, rfd) in list(ml._watch_pipes.items()):
        try:
            os.close(rfd)
        except OSError:
            pass
    in_file.close()
    return {"trace": tr, "out": out, "sig": final, "started": started, "ncb": S.n}


def run_plain(case):
    """real MainLoop with a plain BaseScreen that has no hook_event_loop -> _run_screen_event_loop"""
    import urwid
    from urwid.display.common import BaseScreen
    S = Session(case)
    tr = S.trace
    cfg = case["cfg"]
    script = [list(b) for b in case["inputs"]]

    class PlainScreen(BaseScreen):
        def start(self, *a, **kw):
            tr.append([T_START])
            return BaseScreen.start(self, *a, **kw)

        def stop(self):
            tr.append([T_STOP])
            return BaseScreen.stop(self)

        def _start(self):
            tr.append([T_PSTART])

        def _stop(self):
            tr.append([T_PSTOP])

        def set_mouse_tracking(self, enable=True):
            tr.append([T_SETMOUSE])

        def set_input_timeouts(self, *a, **kw):
            tr.append([T_TIMEOUTS, 0 if (a and a[0] is None) else 1])

        def get_input(self, raw_keys=False):
            tr.append([T_GETINPUT])
            if not script:
                tr.append([T_QUIT])
                raise urwid.ExitMainLoop()
            keys = [key_to_py(k) for k in script.pop(0)]
            return (keys, []) if raw_keys else keys

        def draw_screen(self, size, canvas):
            tr.append([T_DRAW])

        def clear(self):
            tr.append([T_CLEAR])

        def get_cols_rows(self):
            tr.append([T_COLSROWS])
            return 80, 24

    scr = PlainScreen()
    w = make_widget(S, case["widget"], urwid)
    filt = None
    if cfg.get("filter") is not None:
        drop = set(cfg["filter"])

        def filt(keys, raw):
            ks = [key_from_py(k) for k in keys]
            S.cb([T_FILTER, len(ks)] + [x for k in ks for x in k])
            return [k for k, kk in zip(keys, ks) if not (kk[0] == 1 and kk[1] in drop)]
    unh = None
    if cfg.get("unhandled") is not None:
        def unh(key):
            S.cb([T_UNHANDLED] + key_from_py(key))
            return bool(cfg["unhandled"])
    ml = urwid.MainLoop(w, screen=scr, handle_mouse=bool(cfg.get("handle_mouse", True)),
                        input_filter=filt, unhandled_input=unh, pop_ups=bool(cfg.get("pop_ups")))

    def alarm_cb(l, ident):
        S.cb([T_ALARM, ident])
    for ident in cfg.get("pre_alarms", []):
        ml.set_alarm_in(0, alarm_cb, ident)
    if cfg.get("prestarted"):
        scr.start()
    out = ["ok"]
    try:
        ml.run()
    except UserExc as e:
        out = ["exc", e.ident, 1 if (S.raised and e is S.raised[-1]) else 0]
    except BaseException as e:     # noqa: B036
        out = ["err", type(e).__name__]
    return {"trace": tr, "out": out, "sig": [0, 0, 0], "started": bool(scr.started), "ncb": S.n}


def worker_main():
    """persistent worker: one JSON case per line in, one JSON result per line out"""
    out = os.fdopen(os.dup(1), "w")
    os.dup2(2, 1)                      # anything urwid prints goes to stderr, never into the protocol
    for line in sys.stdin:
        line = line.strip()
        if not line:
            continue
        case = json.loads(line)
        try:
            res = run_hook(case) if case["kind"] == "hook" else run_plain(case)
        except BaseException as e:     # noqa: B036
            import traceback
            res = {"harness_error": type(e).__name__ + ": " + str(e)[:300], "tb": traceback.format_exc()[-1500:]}
        out.write(json.dumps(res) + "\n")
        out.flush()


if __name__ == "__main__":
    if len(sys.argv) > 1 and sys.argv[1] == "--worker":
        worker_main()
