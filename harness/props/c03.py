"""C03 - text layout shows every character once, in order, within the width."""
import itertools
import re
import warnings

from harness import core

warnings.simplefilter("ignore")

WRAPS = ["any", "space", "clip", "ellipsis"]
ALIGNS = ["left", "center", "right"]
ERRC = {1: "IndexError", 2: "ValueError", 3: "TypeError", 4: "WidgetError", 5: "CanvasError", 6: "ListBoxError",
        7: "AttrSpecError", 8: "KeyError", 9: "RuntimeError", 10: "OtherError", 99: "CanNotDisplayText"}
ALPHA = ["a", "b", " ", "\n", "世", "́"]      # letter, letter, space, newline, double-width, zero-width


# the encodings urwid.util.set_encoding maps to the 'wide' byte encoding; every other non-utf-8 one is 'narrow'
WIDE_ENCODINGS = {"euc-jp", "euc-kr", "euc-cn", "euc-tw", "gb2312", "gbk", "big5", "cn-gb", "uhc", "eucjp", "euckr", "euccn", "euctw", "cncb"}


def _wc(ch):
    """Independent character width (the wcwidth package, not urwid)."""
    import wcwidth
    w = wcwidth.wcwidth(ch)
    return w if w >= 0 else 0


def ellipsis_for(enc):
    try:
        return "…".encode(enc).decode(enc)
    except UnicodeEncodeError:
        return "..."


def units(case):
    """The text as the layout sees it: (raw, units) where raw is the str/bytes object given to urwid and
    units is a list of (start, end, width, kind) in raw-index units; kind in 'nl','sp','ch'.
    Computed from the codec and wcwidth only (never from urwid)."""
    text, enc, mode = case["text"], case["enc"], case["mode"]
    if mode == "str":
        us = []
        for i, ch in enumerate(text):
            us.append((i, i + 1, _wc(ch), "nl" if ch == "\n" else "sp" if ch == " " else "ch"))
        return text, us
    raw = text.encode(enc)
    us = []
    pos = 0
    for ch in text:
        b = ch.encode(enc)
        if enc == "utf-8":
            w = _wc(ch)
        else:
            w = len(b)          # narrow / double-byte encodings: one column per byte
        us.append((pos, pos + len(b), w, "nl" if ch == "\n" else "sp" if ch == " " else "ch"))
        pos += len(b)
    return raw, us


class C03(core.Check):
    pid = "C03"
    gen_modules = ["str_util", "wcwidth_table", "str_loops"]   # only for the PROOF cone (C11's Model/Width.v under Proofs/TextLayoutBytes*.v); the extracted models use no generated file
    model_targets = ["theories/Model/TextLayout.vo", "theories/Model/TextLayoutBytes.vo", "theories/Model/TextLayoutModes.vo"]
    prop_file = "theories/Properties/C03.v"
    extract_v = "Extract/C03X.v"
    allowed_axioms = set()
    design_ref = "DESIGN.md section 5, C03"
    technique = ("Coq theorems (loop invariant over the line list, termination measure for the 'unwrap previous space' "
                 "branch, lia arithmetic) about a hand-written executable model of StandardTextLayout / trim_line / "
                 "apply_text_layout for str text with an arbitrary character-width function; exact extracted-model "
                 "correspondence on layout, rows, pack and rendered rows; independent oracle written from the property text")
    level_text = ""      # filled in below (after the class) so the text can be long
    level_note = ""
    rule = ("cases = (text, encoding, str|bytes, width, wrap, align); exhaustive strings up to N over the alphabet "
            "{a, b, space, newline, double-width U+4E16, zero-width U+0301} x widths 1..7 x 4 wraps x 3 aligns in utf-8 str "
            "mode (N=4 quick with all combinations up to 3 and a seeded third of length 4; thorough N=5 complete plus a seeded "
            "part of length 6), plus random longer texts (incl. 4-byte characters), plus a systematic stream of texts with the characters "
            "str.splitlines() treats as line boundaries (U+2028, U+2029, FF, VT, CR, U+0085, FS/GS/RS) for the natural-size consistency "
            "of pack(()) / render(()) / rows, plus utf-8 texts ENDING in a 4-byte character at every overflowing width (bytes and str), "
            "plus bytes/str texts in the wide encodings gbk, big5, uhc, euc-kr built from double-byte characters at the edges of the "
            "lead/trail byte ranges (lowest/highest lead byte, ASCII-range and high trail bytes) at every width that puts a wrap/clip "
            "point on each of their bytes, plus euc-jp / ascii / latin-1 texts; bytes cases in every mode are compared exactly with the "
            "models (utf-8: Model/TextLayoutBytes.v, wide/narrow: Model/TextLayoutModes.v) and judged by the oracle, str text under "
            "non-utf-8 encodings by the oracle only; "
            "non-trivial = the layout has more than one line, or a shift, or an omitted character; distinct by hash of (case, outcome)")
    trusted_base = [
        "Coq 8.16.1 kernel (coqc; vm_compute used only for closed examples)",
        "extraction: ExtrOcamlBasic only; Z/positive stay Coq datatypes; OCaml 4.13.1",
        "tools/driver/driver.ml (int <-> Z conversion, line I/O)",
        "hand-written Model/TextLayout.v and Model/TextLayoutBytes.v (validated by the exact correspondence on every run, not proved against Python)",
        "C11's Model/Width.v, Base/Utf8.v and their proofs (imported read-only by Proofs/TextLayoutBytes*.v); tools/py2v for Gen/str_util_gen.v",
        "the character width function is a parameter of the model (theorems hold for every cw with 0 <= cw c <= 2 and cw ' ' = 1); "
        "the harness passes the widths urwid.str_util.get_char_width reports (C11 checks that function)",
        "Python oracle in harness/props/c03.py (uses the wcwidth package and the Python codecs directly)",
    ]
    assumptions = [
        "width >= 1; wrap in {any, space, clip, ellipsis}; align in {left, center, right}",
        "theorems are about str text, valid utf-8 bytes text (scalar values), well-formed double-byte text (wide mode) and any "
        "bytes in narrow mode; str text under a non-utf-8 encoding is checked by the oracle only",
        "for bytes text in wide/narrow encodings the natural width used by Text.pack(()) comes from the Python codec and is an "
        "input of the model (computed by the harness from the codec and get_char_width)",
        "text without display attributes (attribute/charset run bookkeeping of apply_text_layout is not modelled)",
        "in 'space' mode a double-width character is a break opportunity on both sides (as the code treats it): "
        "'word' in the breaks-at-spaces clause means a maximal run of single-width/zero-width non-space characters",
    ]

    # ---------- implementation ----------
    def run_impl(self, case):
        import signal
        import urwid
        from urwid import text_layout
        enc = case["enc"]
        res = {}

        class Hang(BaseException):
            pass

        def on_alarm(signum, frame):
            raise Hang()
        old_handler = signal.signal(signal.SIGALRM, on_alarm)
        # a layout loop that does not terminate must not block the check (after several hangs: a shorter leash)
        hangs = getattr(self, "_hangs", 0)
        signal.setitimer(signal.ITIMER_REAL, 2.0 if hangs < 10 else 0.3)
        try:
            return self._run_impl(case, urwid, text_layout, enc, res)
        except Hang:
            self._hangs = hangs + 1
            for k in ("layout", "rows", "pack", "pack0", "rows0", "render0", "render"):
                res.setdefault(k, "Err:DoesNotTerminate")
            return res
        finally:
            signal.setitimer(signal.ITIMER_REAL, 0)
            signal.signal(signal.SIGALRM, old_handler)
            urwid.set_encoding("utf-8")

    def _run_impl(self, case, urwid, text_layout, enc, res):
        try:
            urwid.set_encoding(enc)
            raw = case["text"] if case["mode"] == "str" else case["text"].encode(enc)
            w, wrap, align = case["width"], case["wrap"], case["align"]

            def canon_layout(lay):
                out = []
                for ln in lay:
                    o = []
                    for s in ln:
                        if len(s) == 3 and isinstance(s[2], bytes):
                            o.append(["I", s[0], s[1], [ord(c) for c in s[2].decode(enc, "surrogateescape")]])
                        elif len(s) == 3:
                            o.append(["T", s[0], s[1], s[2]])
                        elif s[1] is None:
                            o.append(["S", s[0]])
                        else:
                            o.append(["P", s[0], s[1]])
                    out.append(o)
                return out
            try:
                res["layout"] = canon_layout(text_layout.StandardTextLayout().layout(raw, w, align, wrap))
            except Exception as e:       # noqa: BLE001
                res["layout"] = "Err:" + type(e).__name__
            t = urwid.Text(raw, align=align, wrap=wrap)
            try:
                t.rows((w + 1,))           # fill the layout cache for another width first
            except Exception:            # noqa: BLE001
                pass
            try:
                res["rows"] = t.rows((w,))
            except Exception as e:       # noqa: BLE001
                res["rows"] = "Err:" + type(e).__name__
            try:
                res["pack"] = list(t.pack((w,)))
            except Exception as e:       # noqa: BLE001
                res["pack"] = "Err:" + type(e).__name__
            try:
                res["pack0"] = list(urwid.Text(raw, align=align, wrap=wrap).pack(()))
            except Exception as e:       # noqa: BLE001
                res["pack0"] = "Err:" + type(e).__name__
            # natural (FIXED) size: pack(()) reports (cols, rows); render(()) lays the text out at cols
            try:
                if isinstance(res["pack0"], list):
                    res["rows0"] = urwid.Text(raw, align=align, wrap=wrap).rows((res["pack0"][0],))
                else:
                    res["rows0"] = res["pack0"]
            except Exception as e:       # noqa: BLE001
                res["rows0"] = "Err:" + type(e).__name__
            try:
                canv0 = urwid.Text(raw, align=align, wrap=wrap).render(())
                if canv0.cols() == 0:
                    # a zero-column canvas has rows but no content to read (content() rejects maxcol 0: canvas matter)
                    res["render0"] = [[] for _ in range(canv0.rows())]
                else:
                    res["render0"] = [[ord(c) for c in row.decode(enc, "surrogateescape")] for row in canv0.text]
            except Exception as e:       # noqa: BLE001
                res["render0"] = "Err:" + type(e).__name__
            try:
                canv = t.render((w,))      # the same widget: rows(), pack() and render() share the cached layout
                res["render"] = [[ord(c) for c in row.decode(enc, "surrogateescape")] for row in canv.text]
            except Exception as e:       # noqa: BLE001
                res["render"] = "Err:" + type(e).__name__
        finally:
            urwid.set_encoding("utf-8")
        return res

    # ---------- model wire format ----------
    def encode(self, case):
        if case["mode"] == "bytes" and case["enc"] == "utf-8":
            # bytes text under the utf8 byte encoding: Model/TextLayoutBytes.v (wire mode 1)
            from urwid import str_util
            ell = ellipsis_for("utf-8")
            chars = sorted(set(case["text"]) | set(ell) | {" ", "\n", "?"})
            tbl = []
            for ch in chars:
                tbl += [ord(ch), str_util.get_char_width(ch)]
            raw = list(case["text"].encode("utf-8"))
            return ([1, WRAPS.index(case["wrap"]), ALIGNS.index(case["align"]), case["width"], len(chars)] + tbl
                    + [len(raw)] + raw + [len(ell)] + [ord(c) for c in ell])
        if case["mode"] == "bytes":
            # bytes text under a 'wide' (double-byte) or 'narrow' (single-byte) encoding: Model/TextLayoutModes.v
            # (wire mode 2 / 3).  The codec is not modelled: the natural width of the decoded text is an input.
            from urwid import str_util
            enc = case["enc"]
            wide = enc.lower() in WIDE_ENCODINGS
            raw = list(case["text"].encode(enc))
            natw = max(sum(str_util.get_char_width(c) for c in ln) for ln in case["text"].split("\n"))
            ell = ellipsis_for(enc)
            out = [2 if wide else 3, WRAPS.index(case["wrap"]), ALIGNS.index(case["align"]), case["width"], natw, len(raw)] + raw
            out.append(len(ell))
            for ch in ell:
                b = list(ch.encode(enc))
                out += [len(b)] + b
            return out
        if case["mode"] != "str":
            return None
        if case["enc"] == "utf-8":
            pass
        elif case["enc"] == "ascii" and all(ord(c) < 128 for c in case["text"]):
            pass
        else:
            return None
        from urwid import str_util
        ell = ellipsis_for(case["enc"])
        chars = sorted(set(case["text"]) | set(ell) | {" ", "\n"})
        tbl = []
        for ch in chars:
            tbl += [ord(ch), str_util.get_char_width(ch)]
        text = [ord(c) for c in case["text"]]
        return ([0, WRAPS.index(case["wrap"]), ALIGNS.index(case["align"]), case["width"], len(chars)] + tbl
                + [len(text)] + text + [len(ell)] + [ord(c) for c in ell])

    def decode(self, case, ints):
        it = iter(ints)

        def lst():
            n = next(it)
            return [next(it) for _ in range(n)]

        def part(f):
            ok = next(it)
            if ok == 1:
                return f()
            return "Err:" + ERRC.get(next(it), "?")

        def seg():
            k = next(it)
            if k == 1:
                return ["T", next(it), next(it), next(it)]
            if k == 2:
                sc, o = next(it), next(it)
                return ["I", sc, o, lst()]
            if k == 3:
                return ["P", next(it), next(it)]
            return ["S", next(it)]

        def lay():
            n = next(it)
            out = []
            for _ in range(n):
                m = next(it)
                out.append([seg() for _ in range(m)])
            return out
        isb = case["mode"] == "bytes"

        def cps(bs):
            # the bytes model answers in bytes; the canonical result shows rows / inserted text as code points
            return [ord(c) for c in bytes(bs).decode(case["enc"], "surrogateescape")] if isb else bs
        try:
            res = {}
            res["layout"] = part(lay)
            if isb and isinstance(res["layout"], list):
                res["layout"] = [[[sg[0], sg[1], sg[2], cps(sg[3])] if sg[0] == "I" else sg for sg in ln] for ln in res["layout"]]
            res["rows"] = part(lambda: next(it))
            res["pack"] = part(lambda: [next(it), next(it)])
            res["pack0"] = part(lambda: [next(it), next(it)])
            res["render"] = part(lambda: [cps(lst()) for _ in range(next(it))])
            res["rows0"] = part(lambda: next(it))
            res["render0"] = part(lambda: [cps(lst()) for _ in range(next(it))])
            return res
        except StopIteration:
            return {"malformed": ints[:60]}

    # ---------- oracle: written from the property text ----------
    def oracle(self, case, res):
        msgs = []
        w, wrap, align = case["width"], case["wrap"], case["align"]
        for k in ("layout", "rows", "pack", "render"):
            if isinstance(res.get(k), str):
                msgs.append(f"{k} raised {res[k][4:]}")
        if msgs:
            return msgs
        raw, us = units(case)
        n = len(raw)
        lay = res["layout"]
        starts = {u[0]: i for i, u in enumerate(us)}
        ends = {u[1]: i for i, u in enumerate(us)}
        has_wide = any(u[2] == 2 and u[3] == "ch" for u in us)

        # row count reported == lines rendered
        if res["rows"] != len(res["render"]):
            msgs.append(f"rows() reports {res['rows']} but render produced {len(res['render'])} rows")
        if res["pack"][1] != len(res["render"]):
            msgs.append(f"pack() reports {res['pack'][1]} rows but render produced {len(res['render'])} rows")
        if len(lay) != len(res["render"]):
            msgs.append(f"layout has {len(lay)} lines but render produced {len(res['render'])} rows")

        # natural size: the row count pack(()) reports for its column count = the lines rendered at that width
        p0, r0, n0 = res.get("pack0"), res.get("render0"), res.get("rows0")
        if isinstance(p0, list):
            if isinstance(r0, list) and len(r0) != p0[1]:
                msgs.append(f"pack(()) reports {p0[1]} rows at its natural width {p0[0]} but render(()) produced {len(r0)} rows")
            if isinstance(n0, int) and n0 != p0[1]:
                msgs.append(f"pack(()) reports {p0[1]} rows at its natural width {p0[0]} but rows(({p0[0]},)) is {n0}")
            if isinstance(r0, list) and p0[0] >= 1:
                for r, row in enumerate(r0):
                    if self.str_width(row, case) > p0[0]:
                        msgs.append(f"render(()) row {r} is wider than the natural width {p0[0]}")
            if p0[0] >= 1 and (isinstance(r0, str) or isinstance(n0, str)):
                msgs.append(f"render(()) / rows at the natural width {p0[0]} raised {r0 if isinstance(r0, str) else n0}")
        elif isinstance(p0, str):
            msgs.append(f"pack(()) raised {p0[4:]}")

        # every rendered row fits (TextCanvas pads it to exactly the width)
        ell = ellipsis_for(case["enc"])
        for r, row in enumerate(res["render"]):
            rw = self.str_width(row, case)
            if rw > w:
                msgs.append(f"rendered row {r} is {rw} columns wide, width is {w}")

        # text that cannot be displayed at all: an empty line, not an error
        if lay == [[]]:
            if w == 1 and has_wide and wrap in ("any", "space"):
                return msgs
            if n == 0:
                return msgs
            msgs.append("layout is the empty line [[]] although the text can be displayed")
            return msgs

        # shown ranges: in order, nothing twice, on character boundaries
        line_of = {}          # unit index -> layout line that shows it
        last_end = 0
        shown_ranges = []
        for k, ln in enumerate(lay):
            for s in ln:
                if s[0] == "T":
                    sc, o, e = s[1], s[2], s[3]
                    if not (0 <= o < e <= n) or o not in starts or e not in ends:
                        msgs.append(f"line {k}: text segment [{o},{e}) is not a range of whole characters of the text")
                        return msgs
                    if o < last_end:
                        msgs.append(f"line {k}: segment [{o},{e}) starts before the end {last_end} of the previous one "
                                    "(character shown twice or out of order)")
                        return msgs
                    last_end = e
                    shown_ranges.append((k, o, e))
                    real = sum(us[i][2] for i in range(starts[o], ends[e] + 1))
                    if real != sc:
                        msgs.append(f"line {k}: segment [{o},{e}) claims {sc} columns, its characters take {real}")
                    for i in range(starts[o], ends[e] + 1):
                        line_of[i] = k
        if msgs:
            return msgs

        # ellipsis mode: the part beyond the width is REPLACED BY AN ELLIPSIS MARK - whenever the whole mark and at
        # least one more column fit, an over-long line carries the mark; a line that fits carries none
        if wrap == "ellipsis":
            paras, cur = [], 0
            for u in us:
                if u[3] == "nl":
                    paras.append(cur)
                    cur = 0
                else:
                    cur += u[2]
            paras.append(cur)
            ew_full = len(ell.encode(case["enc"])) if case["enc"] != "utf-8" else sum(_wc(c) for c in ell)
            if len(paras) == len(lay):
                for k, ln in enumerate(lay):
                    marks = [sg[3] for sg in ln if sg[0] == "I"]
                    if paras[k] <= w and marks:
                        msgs.append(f"line {k} fits in {w} columns but carries an ellipsis mark")
                    if paras[k] > w and w - 1 >= ew_full and marks != [[ord(c) for c in ell]]:
                        msgs.append(f"line {k} is {paras[k]} columns wide, width {w}: the cut part is not replaced by the "
                                    f"ellipsis mark (inserted: {marks})")

        # every displayed line fits in the width (clip: after trimming, judged on the rendered row above)
        lws = []
        for k, ln in enumerate(lay):
            body = ln[1:] if ln and ln[0][0] == "S" else ln
            lw = sum(s[1] for s in body)
            lws.append(lw)
            if wrap in ("any", "space") and lw > w:       # clip / ellipsis (width 1): judged on the rendered row
                msgs.append(f"line {k} is {lw} columns wide, width is {w}")
            for s in body:
                if s[1] < 0 or s[0] == "S":
                    msgs.append(f"line {k}: negative or misplaced segment {s}")

        # alignment: 0 / half rounded up / all of the spare columns
        for k, ln in enumerate(lay):
            shift = ln[0][1] if ln and ln[0][0] == "S" else 0
            spare = w - lws[k]
            if spare >= 0:
                exp = 0 if align == "left" else spare if align == "right" else (spare + 1) // 2
                if shift != exp:
                    msgs.append(f"line {k}: {align} alignment pads by {shift}, spare columns {spare}")

        # omitted characters are only of the allowed kinds
        unshown = [i for i in range(len(us)) if i not in line_of]
        # words: maximal runs of units that are neither space nor newline
        word_of = {}
        words = []
        cur = None
        for i, u in enumerate(us):
            if u[3] == "ch":
                if cur is None:
                    cur = len(words)
                    words.append([])
                words[cur].append(i)
                word_of[i] = cur
            else:
                cur = None
        nlines = len(lay)
        for i in unshown:
            u = us[i]
            if u[3] == "nl":
                continue
            if u[3] == "sp":
                if wrap in ("clip", "ellipsis"):
                    if not self.beyond_width(i, us, w, wrap, ell, case, line_of):
                        msgs.append(f"space at {u[0]} is not shown in {wrap} mode although it lies within the width")
                continue      # counted below
            if u[2] == 0:
                wd = words[word_of[i]]
                if all(us[j][2] == 0 for j in wd) and all(j not in line_of for j in wd):
                    continue          # a line made solely of zero-width characters
                if wrap in ("clip", "ellipsis") and self.beyond_width(i, us, w, wrap, ell, case, line_of):
                    continue
                msgs.append(f"zero-width character at {u[0]} is not shown but belongs to a displayed word")
                continue
            if wrap in ("clip", "ellipsis") and self.beyond_width(i, us, w, wrap, ell, case, line_of):
                continue
            msgs.append(f"character at {u[0]} (width {u[2]}) is not shown")
        # a single space per wrap point: between two consecutive shown characters on lines k1 <= k2 the
        # unshown spaces number at most (k2 - k1) - newlines between
        if wrap in ("any", "space"):
            shown_idx = sorted(line_of)
            bounds = [(-1, 0)] + [(i, line_of[i]) for i in shown_idx] + [(len(us), nlines - 1)]
            for (i1, k1), (i2, k2) in zip(bounds, bounds[1:]):
                gap = range(i1 + 1, i2)
                nsp = sum(1 for j in gap if us[j][3] == "sp")
                nnl = sum(1 for j in gap if us[j][3] == "nl")
                if nsp > max(0, (k2 - k1) - nnl):
                    msgs.append(f"{nsp} spaces between offsets {us[i1][1] if i1 >= 0 else 0} and "
                                f"{us[i2][0] if i2 < len(us) else n} are not shown but only {(k2 - k1) - nnl} wrap points lie there")
                if nnl > k2 - k1:
                    msgs.append(f"{nnl} newlines between lines {k1} and {k2}")

        # line breaks inside a paragraph
        for (k1, o1, e1), (k2, o2, e2) in zip(shown_ranges, shown_ranges[1:]):
            if k2 == k1:
                if o2 != e1:
                    msgs.append(f"line {k1}: characters between {e1} and {o2} are skipped inside a line")
                continue
            if o2 != e1:
                continue                  # something was consumed there (judged above)
            nxt = us[starts[o2]]
            prv = us[ends[e1]]
            if wrap == "any":
                # fills each line as far as the next character allows
                if lws[k1] + nxt[2] <= w:
                    msgs.append(f"'any' wrap: line {k1} is {lws[k1]} wide and the next character (width {nxt[2]}) "
                                f"would still fit in {w}")
            elif wrap == "space":
                if nxt[3] == "sp" or prv[3] == "sp" or nxt[2] == 2 or prv[2] == 2:
                    continue          # a break next to a space or a double-width character splits no word
                if self.every_word_fits(us, w):
                    msgs.append(f"'space' wrap: a word is split at offset {o2} although every word fits in {w} columns")
            else:
                msgs.append(f"{wrap} mode continues a line on the next row at offset {o2}")

        # rendered rows show what the layout says (left part / alignment), for lines that fit
        if not msgs:
            msgs += self.check_rows(case, res, raw, us, starts, ends, lws, ell)
        return msgs

    @staticmethod
    def str_width(cps, case):
        if case["enc"] == "utf-8":
            return sum(_wc(chr(c)) for c in cps if c < 0x110000 and not 0xDC80 <= c <= 0xDCFF)
        s = "".join(chr(c) for c in cps)
        return len(s.encode(case["enc"], "surrogateescape"))

    @staticmethod
    def every_word_fits(us, w):
        """every maximal run of non-space, non-newline, non-double-width characters fits in w columns"""
        cur = 0
        for u in us:
            if u[3] == "ch" and u[2] != 2:
                cur += u[2]
                if cur > w:
                    return False
            else:
                cur = 0
        return True

    @staticmethod
    def beyond_width(i, us, w, wrap, ell, case, line_of):
        """clip/ellipsis: character i lies beyond the width of its paragraph line (from the left edge)"""
        j = i
        while j > 0 and us[j - 1][3] != "nl":
            j -= 1
        total = 0
        k = j
        while k < len(us) and us[k][3] != "nl":
            total += us[k][2]
            k += 1
        if total <= w:
            return False
        avail = w
        if wrap == "ellipsis":
            ew = len(ell.encode(case["enc"])) if case["enc"] != "utf-8" else sum(_wc(c) for c in ell)
            e = ell
            while w - 1 < ew and e:
                e = e[:-1]
                ew = len(e.encode(case["enc"])) if case["enc"] != "utf-8" else sum(_wc(c) for c in e)
            avail = w - ew
        col = sum(us[m][2] for m in range(j, i + 1))
        if us[i][2] > 0:
            return col > avail
        # a zero-width character: beyond the cut when a visible character before it is already cut off, or when
        # nothing visible of its line is shown at all (the shown part would be a line of zero-width characters only)
        return (any(m not in line_of and us[m][2] > 0 for m in range(j, i))
                or not any(m in line_of and us[m][2] > 0 for m in range(j, k)))

    def check_rows(self, case, res, raw, us, starts, ends, lws, ell):
        """each rendered row = shift spaces + the characters the layout line shows (+ inserted text) + padding"""
        msgs = []
        w, wrap, enc = case["width"], case["wrap"], case["enc"]

        def piece(o, e):
            s = raw[o:e]
            return [ord(c) for c in (s if isinstance(s, str) else s.decode(enc, "surrogateescape"))]
        for k, ln in enumerate(res["layout"]):
            if k >= len(res["render"]):
                break
            row = res["render"][k]
            if lws[k] > w:
                # clipped line: what is visible must be a contiguous part of the line, at least w-2 columns of it
                full = []
                for s in ln:
                    if s[0] == "T":
                        full += piece(s[2], s[3])
                vis = list(row)
                while vis and vis[-1] == 32:
                    vis.pop()
                while vis and vis[0] == 32:
                    vis.pop(0)
                if not self.contiguous_in(vis, full):
                    msgs.append(f"row {k}: the clipped row {row} is not a contiguous part of the line")
                elif case["align"] in ("left", "right"):
                    # only the part beyond the width is cut: the row is the longest prefix (left) / suffix (right)
                    # of the line that fits; zero-width characters sitting exactly on the cut may go either way
                    lu = []
                    for s in ln:
                        if s[0] == "T":
                            lu += [(piece(us[i][0], us[i][1]), us[i][2]) for i in range(starts[s[2]], ends[s[3]] + 1)]
                    if case["align"] == "right":
                        lu = lu[::-1]
                    variants = []
                    for gobble in (True, False):
                        cum, taken = 0, []
                        for cps, wd in lu:
                            if cum + wd > w or (wd == 0 and cum == w and not gobble):
                                break
                            taken.append(cps)
                            cum += wd
                        if not gobble:
                            while taken and self.str_width(taken[-1], case) == 0:
                                taken.pop()
                        if case["align"] == "right":
                            body = [c for cps in taken[::-1] for c in cps]
                            variants.append([32] * (w - cum) + body)
                        else:
                            body = [c for cps in taken for c in cps]
                            variants.append(body + [32] * (w - cum))
                        if cum == 0:
                            variants.append([32] * w)      # nothing visible fits: a blank row
                    if row not in variants:
                        msgs.append(f"row {k}: {case['align']}-aligned clipped row {row} is not the longest part of the line "
                                    f"that fits (expected {variants[0]})")
                continue
            exp = []
            for s in ln:
                if s[0] == "T":
                    exp += piece(s[2], s[3])
                elif s[0] == "I":
                    exp += s[3]
                else:
                    exp += [32] * max(0, s[1])
            exp += [32] * (w - self.str_width(exp, case))
            if exp != row:
                msgs.append(f"row {k}: rendered {row}, the layout line shows {exp}")
        return msgs

    @staticmethod
    def contiguous_in(vis, full):
        if not vis:
            return True
        m = len(vis)
        return any(full[i:i + m] == vis for i in range(len(full) - m + 1))

    # ---------- bookkeeping ----------
    def nontrivial(self, case, res):
        lay = res.get("layout")
        if not isinstance(lay, list):
            return True
        if len(lay) > 1:
            return True
        shown = sum(s[3] - s[2] for ln in lay for s in ln if s[0] == "T")
        n = len(case["text"]) if case["mode"] == "str" else len(case["text"].encode(case["enc"]))
        return shown != n or any(s[0] == "S" for ln in lay for s in ln)

    def signature(self, case, msg):
        return case["wrap"] + ":" + re.sub(r"\[[^\]]*\]", "[..]", re.sub(r"\d+", "N", msg))

    def distribution(self, case, res, dist):
        def inc(k):
            dist[k] = dist.get(k, 0) + 1
        inc("wrap:" + case["wrap"])
        inc("align:" + case["align"])
        inc("enc:" + case["enc"] + "/" + case["mode"])
        inc("len:%d" % min(len(case["text"]), 9))
        lay = res.get("layout")
        if isinstance(lay, list):
            if lay == [[]]:
                inc("cannot-display")
            inc("lines:%d" % min(len(lay), 9))
            if any(s[0] == "I" for ln in lay for s in ln):
                inc("ellipsis-inserted")
            if any(s[0] == "S" and s[1] < 0 for ln in lay for s in ln):
                inc("negative-shift(clip)")
            if case["wrap"] == "space" and case["mode"] == "str":
                # observation only: a zero-width-only word dropped although the space after it is displayed
                shown = set()
                for ln in lay:
                    for s in ln:
                        if s[0] == "T":
                            shown.update(range(s[2], s[3]))
                t = case["text"]
                for i, ch in enumerate(t):
                    if i not in shown and _wc(ch) == 0 and ch != "\n" and i + 1 < len(t) and t[i + 1] == " " and (i + 1) in shown:
                        inc("obs:zero-width-word-dropped-before-shown-space")
                        break

    def shrink_candidates(self, case):
        t = case["text"]
        for i in range(len(t)):
            c = dict(case)
            c["text"] = t[:i] + t[i + 1:]
            yield c
        if case["width"] > 1:
            c = dict(case)
            c["width"] = case["width"] - 1
            yield c
        if case["align"] != "left":
            c = dict(case)
            c["align"] = "left"
            yield c
        for i, ch in enumerate(t):
            if ch not in "a \n":
                c = dict(case)
                c["text"] = t[:i] + "a" + t[i + 1:]
                yield c

    # ---------- generators ----------
    @staticmethod
    def mk(text, w, wrap, align, enc="utf-8", mode="str"):
        return {"text": text, "enc": enc, "mode": mode, "width": w, "wrap": wrap, "align": align}

    def exhaustive(self, n, widths=range(1, 8), wraps=WRAPS, aligns=ALIGNS, keep=None):
        for tup in itertools.product(ALPHA, repeat=n):
            text = "".join(tup)
            if keep is not None and not keep(text):
                continue
            for w in widths:
                for wrap in wraps:
                    for al in aligns:
                        yield self.mk(text, w, wrap, al)

    def random_text(self, rng, pool, n):
        out = []
        while len(out) < n:
            r = rng.random()
            if r < 0.55:
                out.append(rng.choice(pool["letters"]))
            elif r < 0.75:
                out.append(" ")
            elif r < 0.82:
                out.append("\n")
            elif r < 0.92:
                out.append(rng.choice(pool["wide"]))
            else:
                out.append(rng.choice(pool["zero"]))
        return "".join(out[:n])

    def random_cases(self, rng, count):
        pool = {"letters": "abcdefgxyz", "wide": "世界あＡ\U0001F600\U00020000", "zero": "́̈​\u2028\x0c\r"}
        for _ in range(count):
            n = rng.choice([5, 7, 8, 10, 12, 16, 24, 40])
            text = self.random_text(rng, pool, n)
            w = rng.choice([1, 2, 2, 3, 3, 4, 5, 6, 7, 8, 10, 13, 20, 41])
            yield self.mk(text, w, rng.choice(WRAPS), rng.choice(ALIGNS))

    WIDE_ENCS = ["gbk", "big5", "uhc", "euc-kr"]     # 'wide' byte encodings; in gbk / big5 / uhc a trail byte may be ASCII

    @staticmethod
    def dbcs_chars(enc):
        """double-byte characters of a wide encoding at the edges of its lead / trail byte ranges: lowest and
        highest lead byte, trail bytes at both ends of the ASCII-range block (0x40..0x7E) and of the high block"""
        out = []
        leads = [0x81, 0x82, 0xA1, 0xA4, 0xB0, 0xC8, 0xF9, 0xFD, 0xFE]
        trails = [0x40, 0x41, 0x5A, 0x5B, 0x5C, 0x61, 0x7A, 0x7E, 0x80, 0x81, 0xA1, 0xFE]
        for ld in leads:
            for tr in trails:
                b = bytes([ld, tr])
                try:
                    ch = b.decode(enc)
                except UnicodeDecodeError:
                    continue
                if len(ch) == 1 and ch.encode(enc) == b and _wc(ch) == 2:
                    out.append(ch)
        return out

    def wide_encoding_cases(self, rng, full):
        """bytes (and str) text in wide encodings: every double-byte character class next to ASCII letters, spaces
        and other double-byte characters, at every width that puts a wrap / clip / cut point at each byte of it"""
        for enc in self.WIDE_ENCS:
            chars = self.dbcs_chars(enc)
            if not chars:
                continue
            lo_ascii = [c for c in chars if c.encode(enc)[1] < 0x80]
            hi = [c for c in chars if c.encode(enc)[1] >= 0x80]
            picks = (lo_ascii if full else lo_ascii[:: max(1, len(lo_ascii) // 6)]) + (hi if full else hi[:: max(1, len(hi) // 3)])
            other = (hi or chars)[0]
            for ch in picks:
                texts = ["ab" + ch + "cd", ch + ch + "x" + ch, "a" + ch + other + ch + " b" + ch, other + ch + "\n" + ch + "A" + ch]
                for text in texts:
                    total = max(len(ln.encode(enc)) for ln in text.split("\n"))
                    for w in range(1, min(total, 8) + 1):
                        for wrap in WRAPS:
                            yield self.mk(text, w, wrap, "left", enc, "bytes")
                            if full or (w + len(text)) % 3 == 0:
                                yield self.mk(text, w, wrap, rng.choice(["center", "right"]), enc, "bytes")
                                yield self.mk(text, w, wrap, "left", enc, "str")
            for _ in range(400 if full else 60):
                n = rng.choice([2, 3, 5, 8, 12])
                text = "".join(rng.choice(chars) if rng.random() < 0.45 else rng.choice("ab @A~ \n") for _ in range(n))
                yield self.mk(text, rng.choice([1, 2, 3, 4, 5, 7]), rng.choice(WRAPS), rng.choice(ALIGNS), enc, "bytes")

    def encoding_cases(self, rng, count):
        """bytes / other encodings: oracle only (and the str+ascii ellipsis '...' against the model too)"""
        for _ in range(count):
            n = rng.choice([0, 1, 2, 3, 4, 5, 6, 8, 12, 20])
            kind = rng.choice(["utf8b", "eucjp", "eucjp_str", "ascii", "ascii_str", "latin1"])
            if kind == "utf8b":
                pool = "ab \n世́x\U0001F600\U00020000\u2028\r"
                enc, mode = "utf-8", "bytes"
            elif kind in ("eucjp", "eucjp_str"):
                pool = "ab \n世あx"
                enc, mode = "euc-jp", ("bytes" if kind == "eucjp" else "str")
            elif kind == "latin1":
                pool = "ab \nx\xe9\xff\xa0~@"
                enc, mode = "latin-1", "bytes"
            else:
                pool = "ab \nxyz "
                enc, mode = "ascii", ("bytes" if kind == "ascii" else "str")
            text = "".join(rng.choice(pool) for _ in range(n))
            if kind == "utf8b" and n and rng.random() < 0.4:
                text = text[:-1] + rng.choice(self.FOURBYTE)       # end in a 4-byte sequence
            if enc == "euc-jp" and mode == "str":
                # the str width function is wcwidth whatever the encoding; keep to characters whose width equals their byte count
                pass
            yield self.mk(text, rng.choice([1, 2, 3, 4, 5, 7, 9]), rng.choice(WRAPS), rng.choice(ALIGNS), enc, mode)

    SEPS = ["\u2028", "\u2029", "\x0c", "\x0b", "\r", "\x85", "\x1c", "\x1d", "\x1e"]   # str.splitlines() boundaries other than \n

    def separator_cases(self, rng, full):
        """characters that str.splitlines() treats as line boundaries but the layout does not (only \n starts a
        line): they are ordinary characters of a line; natural size, rows and rendered rows must stay consistent"""
        templates = ["ab{s}cdef", "ab\ncd{s}efgh\nxyz", "{s}", "a{s}", "{s}a\nb", "abc def{s}ghi jk\nl", "x\n{s}\ny{s}{s}z", "世{s}世 a"]
        for sep in self.SEPS:
            for tpl in templates:
                text = tpl.replace("{s}", sep)
                nat = max(sum(_wc(c) for c in ln) for ln in text.split("\n"))
                widths = sorted({max(1, nat), max(1, nat - 1), 2} | ({1, 3, nat + 2} if full else set()))
                for w in widths:
                    for wrap in WRAPS:
                        for al in (ALIGNS if full else ["left", rng.choice(["center", "right"])]):
                            yield self.mk(text, w, wrap, al)
                        yield self.mk(text, w, wrap, "left", "utf-8", "bytes")

    FOURBYTE = ["\U0001F600", "\U00020000"]       # 4-byte UTF-8 sequences (emoji, CJK extension B), 2 columns

    def fourbyte_tail_cases(self, rng, full):
        """utf-8 text (bytes and str) whose LAST character is a 4-byte sequence, at every width that makes the last
        line overflow (the final character has to be measured by the position scan)"""
        heads = [""]
        for n in range(1, 4 if full else 3):
            heads += ["".join(tp) for tp in itertools.product(["a", " ", "世", "́", "\n"], repeat=n)]
        for head in heads:
            for tail in (self.FOURBYTE[0], self.FOURBYTE[1], "a" + self.FOURBYTE[0], self.FOURBYTE[0] * 2,
                         self.FOURBYTE[1] + "́" if full else self.FOURBYTE[0]):
                text = head + tail
                total = max(sum(_wc(c) for c in ln) for ln in text.split("\n"))
                for w in range(1, min(total, 7) + 1):
                    for wrap in WRAPS:
                        yield self.mk(text, w, wrap, "left", "utf-8", "bytes")
                        if full or w % 2:
                            yield self.mk(text, w, wrap, rng.choice(["center", "right"]), "utf-8", "bytes")
                            yield self.mk(text, w, wrap, "left")

    def cases(self, rng, tier):
        yield from self.separator_cases(rng, tier != "quick")
        yield from self.fourbyte_tail_cases(rng, tier != "quick")
        yield from self.wide_encoding_cases(rng, tier != "quick")
        if tier == "quick":
            for n in range(0, 4):
                yield from self.exhaustive(n)
            # length 4: a seeded third of the strings, all widths/wraps, left + one other alignment
            pick = rng.randrange(3)
            cnt = itertools.count()
            yield from self.exhaustive(4, widths=range(1, 6), aligns=["left", rng.choice(["center", "right"])],
                                       keep=lambda t: next(cnt) % 3 == pick)
            yield from self.random_cases(rng, 3000)
            yield from self.encoding_cases(rng, 3000)
        else:
            for n in range(0, 6):
                yield from self.exhaustive(n)
            pick = rng.randrange(8)
            cnt = itertools.count()
            yield from self.exhaustive(6, widths=range(1, 6), aligns=["left", rng.choice(["center", "right"])],
                                       keep=lambda t: next(cnt) % 8 == pick)
            yield from self.random_cases(rng, 60000)
            yield from self.encoding_cases(rng, 60000)

    def search_cases(self, rng, tier):
        for n in range(0, 7):
            yield from self.exhaustive(n)
        while True:
            yield from self.random_cases(rng, 1000)
            yield from self.encoding_cases(rng, 1000)


C03.level_text = (
    "Proved in Coq (Properties/C03.v, 34 theorems, closed under the global context) about the executable model of "
    "StandardTextLayout / trim_line / apply_text_layout, for EVERY str text, every width >= 1, every wrap mode, alignment and "
    "ellipsis string, and every character-width function with widths in 0..2 and a 1-column space, with no size bound: "
    "layout never raises and the loops terminate within the model's fuel (layout_total; the 'space' mode 'unwrap previous "
    "space' branch, which moves the index backwards, by a lexicographic measure); shown ranges are increasing and disjoint, "
    "nothing twice, original order, all four modes (layout_order, layout_shows_nothing_twice); every offset not shown is a "
    "newline, the space named by a line's removed-character hint, part of a zero-width-only run starting where the previous "
    "line stopped, or - ellipsis - at/after the maximal cut in front of the ellipsis (layout_omits_only_wrap/_trim); every "
    "any/space/ellipsis line fits and each segment claims exactly its characters' columns (layout_fits_wrap/_ellipsis); "
    "'any' lines are maximal (any_maximal); 'space' breaks only at spaces or next to a double-width character when every "
    "word fits (space_breaks_at_spaces); alignment shift = 0 / (spare+1)//2 / spare (align_pad); rows() = number of rendered "
    "rows = pack rows (rows_eq_len, pack_rows_eq_rows), and at the natural width reported by pack(()) (when >= 1 column) rows() "
    "is the row count pack(()) reports, every mode (natural_size_rows); a double-width character at width 1 gives [[]] and [[]] arises in no "
    "other case (wide_in_one_column_empty, empty_line_only_if_cannot_display); rendering (trim_line, subseg, calc_trim_text, "
    "apply_text_layout, TextCanvas width check) never raises, yields as many rows as rows() reports and every row is exactly "
    "width columns, for ALL four wrap modes and all three alignments incl. over-long clip lines cut on both sides by a negative "
    "center/right shift (render_total); a left-aligned clipped row is the longest fitting prefix "
    "(clip_left_row_is_longest_prefix).  Nothing is left _partial.  BYTES text under the utf8 byte encoding has "
    "its own executable model (Model/TextLayoutBytes.v: decode_one walk, move_prev/next_char, byte offsets) and the theorem "
    "bytes_layout_is_image: for every str of scalar values the layout of its utf-8 encoding is the image of the str layout under "
    "the boundary map boff; from it bytes_layout_order / _fits / _omits_only_wrap / _omits_only_trim / bytes_rows_eq.  The byte "
    "primitives are proved equal to C11's model of str_util (decode_one arithmetic re-translated every run).  BYTES text in the WIDE (gbk, big5, uhc, euc-kr, "
    "euc-jp) and NARROW (ascii, latin-1) byte-encoding modes: Model/TextLayoutModes.v is the layout parametric in the mode (record "
    "of the str_util position queries; within_double_byte written out and proved equal to C11's model and to the py2v translation); "
    "a generic simulation (Proofs/TextLayoutModesSim.v) shows that any mode whose queries agree with the str queries through a "
    "boundary map computes the image of the str layout AND of the str rendering; instantiated for wide mode on well-formed "
    "double-byte text (forallb wfb, using C11's exactness theorem for within_double_byte) and for narrow mode on any bytes: "
    "wide_/narrow_layout_is_image, _layout_order, _layout_fits, _layout_omits_only*, and wide_/narrow_render_total (never raises, "
    "rows() = rows, every row exactly width bytes, rows = encodings of the str rows: no character torn).  Not in the theorems: "
    "rendering of utf-8 bytes text, invalid UTF-8 / ill-formed double-byte text, str text rendered in a non-utf-8 encoding, "
    "Text.pack(()) of bytes (the Python codec is an input of the model).  "
    "The models are hand-written and tied to the code by an exact extracted-model comparison of layout(), "
    "rows(), pack((w,)), pack(()), the rendered rows and rows/render at the natural width (about 56k cases per quick run: all strings up to length 3 over "
    "{a, b, space, newline, U+4E16, U+0301} x widths 1..7 x 4 wraps x 3 alignments, a third of length 4, random longer "
    "texts, and every bytes case in the utf8 / wide / narrow modes); str text under non-utf-8 encodings is judged by the oracle only.")
C03.level_note = (
    "Trusted: Coq kernel; ExtrOcamlBasic extraction + OCaml driver; the hand-written model Model/TextLayout.v (validated by "
    "the correspondence, not proved against Python); the character width function is a parameter (the harness passes "
    "urwid.str_util.get_char_width, which C11 checks); the Python oracle.  Assumes width >= 1, the three documented "
    "alignments and four wrap modes, text without display attributes (attribute/charset run bookkeeping in "
    "apply_text_layout is not modelled), 'word' = run of non-space non-double-width characters.")

CHECK = C03
