"""Shared machinery for every property check (see DESIGN.md section 2).

One run = gate -> regenerate Gen/*.v from /repo -> build model + proof cone (coqc, full .vo)
-> build the extracted model driver -> correspondence (implementation vs extracted model)
-> independent property oracle on the implementation -> verdict + evidence.
"""
from __future__ import annotations

import fcntl
import glob
import hashlib
import json
import os
import random
import re
import subprocess
import sys
import time

ROOT = os.path.dirname(os.path.dirname(os.path.abspath(__file__)))
REPO = os.environ.get("VERIF_REPO", "/repo")
COQ = os.path.join(ROOT, "coq")
TH = os.path.join(COQ, "theories")
BUILD = os.path.join(ROOT, "build")
EVID = os.path.join(ROOT, "evidence")
REPLAYS = os.path.join(EVID, "replays")
PY = "/venv/bin/python"

FORBIDDEN = re.compile(
    r"\b(Admitted|admit|Axiom|Axioms|Parameter|Parameters|Conjecture|Conjectures|"
    r"Admit\s+Obligations|bypass_check|Unset\s+Guard\s+Checking|Unset\s+Positivity\s+Checking|"
    r"Unset\s+Universe\s+Checking|type-in-type|impredicative-set)\b"
)
VAR_OUTSIDE = re.compile(r"^\s*(Variable|Variables|Hypothesis|Hypotheses|Context)\b")


class MachineryError(Exception):
    """The check itself could not run (exit 2; never reported as a violation)."""


class ModelTimeout(Exception):
    """The extracted model did not answer: counted as a broken correspondence."""


def sh(cmd, timeout, cwd=None, env=None, input=None):
    e = dict(os.environ)
    if env:
        e.update(env)
    try:
        p = subprocess.run(cmd, cwd=cwd, env=e, input=input, capture_output=True, text=True,
                           timeout=timeout, shell=isinstance(cmd, str))
        return p.returncode, p.stdout + p.stderr
    except subprocess.TimeoutExpired as ex:
        out = (ex.stdout or b"")
        if isinstance(out, bytes):
            out = out.decode("utf8", "replace")
        return 124, out + "\n[timeout after %ss]" % timeout


def strip_comments(text):
    out, depth, i = [], 0, 0
    while i < len(text):
        if text.startswith("(*", i):
            depth += 1
            i += 2
        elif text.startswith("*)", i) and depth:
            depth -= 1
            i += 2
        else:
            if not depth:
                out.append(text[i])
            i += 1
    return "".join(out)


def gate():
    """Forbidden constructs anywhere in the development."""
    problems = []
    for path in sorted(glob.glob(os.path.join(TH, "**", "*.v"), recursive=True)):
        text = strip_comments(open(path).read())
        depth = 0
        for ln, line in enumerate(text.split("\n"), 1):
            if FORBIDDEN.search(line):
                problems.append(f"{os.path.relpath(path, ROOT)}:{ln}: {line.strip()[:80]}")
            if re.match(r"^\s*Section\b", line):
                depth += 1
            if re.match(r"^\s*End\b", line) and depth:
                depth -= 1
            if depth == 0 and VAR_OUTSIDE.match(line):
                problems.append(f"{os.path.relpath(path, ROOT)}:{ln}: declaration outside a Section: {line.strip()[:60]}")
    proj = os.path.join(COQ, "_CoqProject")
    if os.path.exists(proj) and re.search(r"type-in-type|impredicative", open(proj).read()):
        problems.append("_CoqProject passes a forbidden flag")
    return problems


class CoqLock:
    """Exclusive lock on the shared Coq build tree (Gen/, .vo files, drivers).  Re-entrant within a process."""
    depth = 0
    fh = None

    def __enter__(self):
        if CoqLock.depth == 0:
            os.makedirs(BUILD, exist_ok=True)
            CoqLock.fh = open(os.path.join(BUILD, ".coq.lock"), "w")
            fcntl.flock(CoqLock.fh, fcntl.LOCK_EX)
        CoqLock.depth += 1
        return self

    def __exit__(self, *a):
        CoqLock.depth -= 1
        if CoqLock.depth == 0:
            fcntl.flock(CoqLock.fh, fcntl.LOCK_UN)
            CoqLock.fh.close()


def regen(modules):
    """Re-translate the listed Gen modules from REPO's working tree."""
    if not modules:
        return 0, ""
    rc, out = sh(["python3", os.path.join(ROOT, "tools/py2v/gen.py"), REPO, os.path.join(TH, "Gen")] + list(modules), 120)
    return rc, out


def ensure_makefile():
    files = sorted(os.path.relpath(p, COQ) for p in glob.glob(os.path.join(TH, "**", "*.v"), recursive=True)
                   if "/Extract/" not in p)
    text = "-Q theories Urwid\n" + "\n".join(files) + "\n"
    proj = os.path.join(COQ, "_CoqProject")
    old = open(proj).read() if os.path.exists(proj) else None
    if old != text or not os.path.exists(os.path.join(COQ, "Makefile.coq")):
        open(proj, "w").write(text)
        rc, out = sh("coq_makefile -f _CoqProject -o Makefile.coq", 120, cwd=COQ)
        if rc:
            raise MachineryError("coq_makefile failed: " + out[-500:])


def coq_make(targets, timeout=1500, jobs=16):
    """Build .vo targets (paths relative to coq/).  Returns (ok, log)."""
    ensure_makefile()
    rc, out = sh(["timeout", str(timeout), "make", "-f", "Makefile.coq", "-j", str(jobs), "-k"] + list(targets), timeout + 30, cwd=COQ)
    return rc == 0, out


def cone(prop_v):
    """Transitive dependencies (within theories/) of a .v file, via coqdep."""
    rc, out = sh("coqdep -Q theories Urwid $(find theories -name '*.v' -not -path '*/Extract/*')", 120, cwd=COQ)
    deps = {}
    for line in out.split("\n"):
        m = re.match(r"^(\S+)\.vo\b[^:]*:\s*(.*)$", line)
        if m:
            deps[m.group(1) + ".v"] = [d[:-3] + ".v" for d in m.group(2).split() if d.endswith(".vo") and d.startswith("theories/")]
    seen, todo = [], [prop_v]
    while todo:
        f = todo.pop()
        if f in seen:
            continue
        seen.append(f)
        todo.extend(deps.get(f, []))
    return sorted(seen)


def count_obligations(files):
    n = 0
    per = {}
    for f in files:
        text = strip_comments(open(os.path.join(COQ, f)).read())
        k = len(re.findall(r"\bQed\s*\.", text)) + len(re.findall(r"\bDefined\s*\.", text))
        per[f] = k
        n += k
    return n, per


def parse_assumptions(log, prop_text):
    """Returns (n_print_commands, n_closed, axioms{name: type})."""
    n_cmds = len(re.findall(r"^\s*Print Assumptions\b", strip_comments(prop_text), re.M))
    n_closed = log.count("Closed under the global context")
    axioms = {}
    for blk in re.findall(r"Axioms:\n((?:.+\n)+?)(?=\S|\Z)", log):
        for m in re.finditer(r"^(\S+)\s*:", blk, re.M):
            axioms[m.group(1)] = True
    for m in re.finditer(r"^([A-Za-z_][\w.']*)\s+:\s", log.split("Axioms:", 1)[1] if "Axioms:" in log else "", re.M):
        axioms[m.group(1)] = True
    return n_cmds, n_closed, sorted(axioms)


class ModelProc:
    """Persistent extracted-model process: one case (ints) per line in, one reply per line out."""

    def __init__(self, exe):
        self.exe = exe
        self.p = subprocess.Popen([exe], stdin=subprocess.PIPE, stdout=subprocess.PIPE, text=True, bufsize=1)

    def query(self, ints):
        self.p.stdin.write(" ".join(str(int(i)) for i in ints) + "\n")
        self.p.stdin.flush()
        import select
        ready, _, _ = select.select([self.p.stdout], [], [], 60)
        if not ready:
            self.p.kill()
            raise ModelTimeout(f"model driver {self.exe} did not answer within 60 s on input {ints[:60]}")
        line = self.p.stdout.readline()
        if not line:
            raise ModelTimeout(f"model driver {self.exe} died on input {ints[:60]}")
        line = line.strip()
        return [int(x) for x in line.split()] if line else []

    def close(self):
        try:
            self.p.stdin.close()
            self.p.wait(timeout=5)
        except Exception:
            self.p.kill()


def build_driver(pid, extract_v, extra_ml=None):
    """coqc the Extract file (cwd = build/<pid>) and compile model.ml + generic driver."""
    d = os.path.join(BUILD, pid.lower())
    os.makedirs(d, exist_ok=True)
    src = os.path.join(TH, extract_v)
    sh(["cp", src, os.path.join(d, "ExtractModel.v")], 10)
    rc, out = sh(["timeout", "600", "coqc", "-Q", TH, "Urwid", "ExtractModel.v"], 630, cwd=d)
    if rc:
        return None, "extraction failed:\n" + out[-3000:]
    drv = os.path.join(ROOT, "tools/driver", extra_ml or "driver.ml")
    sh(["cp", drv, os.path.join(d, "driver.ml")], 10)
    for f in glob.glob(os.path.join(d, "*.mli")):
        os.remove(f)
    rc, out = sh("ocamlfind ocamlopt -O3 -w -a -package str model.ml driver.ml -o driver 2>&1 || ocamlfind ocamlopt -w -a model.ml driver.ml -o driver", 300, cwd=d)
    if rc:
        return None, "ocaml build failed:\n" + out[-3000:]
    return os.path.join(d, "driver"), ""


def canon(x):
    return json.dumps(x, sort_keys=True, separators=(",", ":"))


def h(x):
    return hashlib.sha1(canon(x).encode()).hexdigest()[:12]


def load_known():
    out = []
    p = os.path.join(ROOT, "known_findings.json")
    if os.path.exists(p):
        out += json.load(open(p)).get("findings", [])
    for q in sorted(glob.glob(os.path.join(ROOT, "known_findings.proposed", "*.json"))):
        j = json.load(open(q))
        out += j.get("findings", []) if isinstance(j, dict) else j
    return out


class Check:
    """Base class; a property module subclasses it and fills in the hooks."""
    pid = "C00"
    gen_modules: list = []
    model_targets: list = []          # .vo needed by the extracted model (relative to coq/)
    prop_file = ""                    # theories/Properties/Cxx.v
    extract_v = ""                    # Extract/CxxX.v
    driver_ml = None
    allowed_axioms: set = set()
    trusted_base: list = []
    assumptions: list = []
    level = "proof"
    # MANIFEST metadata (tools/mkmanifest.py reads these)
    level_text = ""
    level_note = ""
    technique = "Coq proof over an executable model + extracted-model correspondence + oracle search"
    design_ref = ""
    correspondence_name = "model-vs-implementation"
    search_budget = {"quick": 60, "thorough": 600}

    # ---- hooks ----
    def corpus_cases(self):
        d = os.path.join(ROOT, "corpus", self.pid)
        out = []
        for p in sorted(glob.glob(os.path.join(d, "*.json"))):
            j = json.load(open(p))
            out.extend(j if isinstance(j, list) else [j])
        return out

    def cases(self, rng, tier):
        return []

    def search_cases(self, rng, tier):
        """Extra cases tried when a proof or the correspondence broke (time-bounded)."""
        return []

    def run_impl(self, case):
        raise NotImplementedError

    def encode(self, case):
        raise NotImplementedError

    def decode(self, case, ints):
        raise NotImplementedError

    def oracle(self, case, res):
        return []

    def nontrivial(self, case, res):
        return True

    def shrink_candidates(self, case):
        return []

    def signature(self, case, msg):
        return msg

    def known_match(self, finding, case, msg):
        m = finding.get("match", {})
        if "msg_regex" in m and not re.search(m["msg_regex"], msg):
            return False
        if "case" in m and canon(m["case"]) != canon(case):
            return False
        if "case_subset" in m:
            for k, v in m["case_subset"].items():
                if canon(case.get(k)) != canon(v):
                    return False
        return bool(m)

    def extra_checks(self, tier, rng, ev):
        """Property-specific additional work (AST scans, exhaustive table comparisons).
        Returns list of (case, msg) violations."""
        return []

    def distribution(self, case, res, dist):
        pass

    # ---- pipeline ----
    def __init__(self):
        self.log = []

    def say(self, *a):
        msg = " ".join(str(x) for x in a)
        self.log.append(msg)
        print(msg, flush=True)

    def proofs(self, tier):
        """Build model + proof cone.  Returns dict."""
        info = {"model_ok": False, "proof_ok": False, "broken": [], "log_tail": ""}
        with CoqLock():
            # every generated file the proof cone depends on is re-translated from the current source, not only the
            # ones this property declares (a cone may import another property's theorems: C15 <- Colours tables)
            mods = list(self.gen_modules)
            for f in cone(self.prop_file):
                mm = re.match(r"theories/Gen/(\w+)_gen\.v$", f)
                if mm and mm.group(1) not in mods:
                    mods.append(mm.group(1))
            info["gen_modules"] = mods
            rc, out = regen(mods)
            info["translator_rc"] = rc
            if rc not in (0, 3):
                raise MachineryError("py2v crashed: " + out[-800:])
            if rc == 3:
                info["broken"].append("py2v translation failed: " + out.strip()[-300:])
            ok, out = coq_make(self.model_targets)
            info["model_ok"] = ok
            if not ok:
                info["broken"].append("model does not compile (Gen or Model file): " + _first_error(out))
                info["log_tail"] = out[-2000:]
                return info
            vo = os.path.join(COQ, self.prop_file[:-2] + ".vo")
            if os.path.exists(vo):
                os.remove(vo)
            ok, out = coq_make([self.prop_file[:-2] + ".vo"])
            info["log_tail"] = out[-2000:]
            files = cone(self.prop_file)
            info["cone"] = files
            n, per = count_obligations(files)
            info["obligations"] = n
            prop_text = open(os.path.join(COQ, self.prop_file)).read()
            ncmd, nclosed, axioms = parse_assumptions(out, prop_text)
            info["print_assumptions"] = ncmd
            info["closed"] = nclosed
            info["axioms"] = axioms
            if not ok:
                info["broken"].append("proof cone does not compile: " + _first_error(out))
                failed = _failed_file(out)
                # obligations discharged = those in files that did compile
                good = [f for f in files if os.path.exists(os.path.join(COQ, f[:-2] + ".vo"))]
                info["discharged"] = sum(per[f] for f in good)
                info["failed_file"] = failed
            else:
                info["discharged"] = n
                bad = [a for a in axioms if a not in self.allowed_axioms]
                if bad:
                    info["broken"].append("unexpected axioms under a property theorem: " + ", ".join(bad))
                if ncmd == 0 or (nclosed + (1 if axioms else 0)) == 0:
                    info["broken"].append("no Print Assumptions output captured")
                info["proof_ok"] = not info["broken"]
            if tier == "thorough" and ok:
                lib = "Urwid." + ".".join(self.prop_file[len("theories/"):-2].split("/"))
                rc, cout = sh(["timeout", "1500", "coqchk", "-silent", "-o", "-Q", "theories", "Urwid", lib], 1530, cwd=COQ)
                info["coqchk_rc"] = rc
                info["coqchk_tail"] = cout[-1500:]
                if rc != 0:
                    info["broken"].append("coqchk rejected the cone: " + cout[-300:])
                    info["proof_ok"] = False
        return info

    def run(self, tier="quick", seed=0):
        t0 = time.time()
        rng = random.Random(seed)
        problems = gate()
        if problems:
            try:
                ensure_makefile()
                mine = set(cone(self.prop_file)) | {"theories/" + self.extract_v}
            except Exception:
                mine = None
            own = [p for p in problems if mine is None or any(p.startswith("coq/" + f + ":") for f in mine) or "_CoqProject" in p]
            if own:
                raise MachineryError("gate: " + "; ".join(own[:5]))
            self.say(f"[{self.pid}] gate warning (files outside this property's cone): " + "; ".join(problems[:3]))
        model = None
        corr_broken = []
        # one lock over regeneration, proof build and extraction: another check (possibly against a different
        # VERIF_REPO) must not regenerate a shared Gen file in between
        with CoqLock():
            pinfo = self.proofs(tier)
            self.say(f"[{self.pid}] proofs: obligations={pinfo.get('obligations')} discharged={pinfo.get('discharged')} "
                     f"axioms={pinfo.get('axioms')} broken={pinfo['broken']}")
            if pinfo["model_ok"] and self.extract_v:
                exe, err = build_driver(self.pid, self.extract_v, self.driver_ml)
                if exe is None:
                    corr_broken.append(err[-600:])
                else:
                    # private copy: a later build of the same property (other seed / other tree) cannot swap it under us
                    priv = exe + ".%d" % os.getpid()
                    sh(["cp", exe, priv], 30)
                    model = ModelProc(priv)
                    self._priv_driver = priv
            elif self.extract_v:
                corr_broken.append("model not available (does not compile)")

        state = {"model": model}
        ev = {"evaluations": 0, "distinct": set(), "samples": [], "dist": {}, "corr_compared": 0}
        diffs, viols = [], []
        sig_count = {}

        def one(case, source):
            ev["evaluations"] += 1
            try:
                res = self.run_impl(case)
            except MachineryError:
                raise
            key = h([case, res])
            if self.nontrivial(case, res):
                ev["distinct"].add(key)
            if len(ev["samples"]) < 4 and (ev["evaluations"] % 97 == 1):
                ev["samples"].append({"case": case, "impl": res})
            self.distribution(case, res, ev["dist"])
            enc = self.encode(case) if state["model"] is not None else None
            if enc is not None:
                try:
                    t_q = time.time()
                    mres = self.decode(case, state["model"].query(enc))
                    state["t_model"] = state.get("t_model", 0.0) + time.time() - t_q
                    if state["t_model"] > (900 if tier == "quick" else 3600):
                        raise ModelTimeout(f"the extracted model used more than {int(state['t_model'])} s in all (last input {enc[:60]})")
                except ModelTimeout as ex:
                    corr_broken.append(str(ex)[:400])
                    diffs.append({"case": case, "impl": res, "model": "no answer (diverges or dead)", "source": source})
                    state["model"] = None
                    mres = None
                if mres is not None:
                    ev["corr_compared"] += 1
                    if canon(mres) != canon(res) and len(diffs) < 50:
                        diffs.append({"case": case, "impl": res, "model": mres, "source": source})
            try:
                msgs = list(self.oracle(case, res))
            except MachineryError:
                raise
            except Exception as ex:   # the implementation produced something the oracle cannot even read
                msgs = [f"the oracle could not judge the implementation's result ({type(ex).__name__}: {str(ex)[:160]})"]
            for msg in msgs:
                sig = self.signature(case, msg)
                sig_count[sig] = sig_count.get(sig, 0) + 1
                if sig_count[sig] <= 3 and len(viols) < 600:   # per-signature cap: a frequent class cannot crowd out a new one
                    viols.append((case, msg))

        for c in self.corpus_cases():
            one(c, "corpus")
        for c in self.cases(rng, tier):
            one(c, "generated")
        for c, msg in self.extra_checks(tier, rng, ev):
            viols.append((c, msg))
        ev["oracle_reports"] = sum(sig_count.values())
        need_search = bool(pinfo["broken"] or diffs or corr_broken) and not viols
        if need_search:
            self.say(f"[{self.pid}] something broke and no failing input yet: searching (budget {self.search_budget[tier]}s)")
            t1 = time.time()
            for c in self.search_cases(rng, tier):
                one(c, "search")
                if viols or time.time() - t1 > self.search_budget[tier]:
                    break
        if model is not None:
            model.close()
        if getattr(self, "_priv_driver", None):
            try:
                os.remove(self._priv_driver)
            except OSError:
                pass

        # ---- verdict ----
        os.makedirs(REPLAYS, exist_ok=True)
        for old in glob.glob(os.path.join(REPLAYS, f"{self.pid}-*.json")):
            os.remove(old)
        known = [f for f in load_known() if f.get("property") == self.pid and f.get("status") == "known"]
        out_lines, new_viol, known_hit = [], [], {}
        seen_sig = set()
        t_shrink = time.time()
        for case, msg in viols:
            sig = self.signature(case, msg)
            if sig in seen_sig:
                continue
            seen_sig.add(sig)
            hit = next((f for f in known if self.known_match(f, case, msg)), None)
            if hit is None and time.time() - t_shrink < 150:
                # minimise (bounded: a few reports, two minutes in all), then look at the known findings again
                case, msg = self.shrink(case, msg)
                hit = next((f for f in known if self.known_match(f, case, msg)), None)
            if hit:
                known_hit[hit["id"]] = hit
            else:
                new_viol.append((case, msg))
        for f in known_hit.values():
            out_lines.append(f"KNOWN-FINDING: property={self.pid} {f.get('what', f['id'])}")
        exit_code = 0
        replay_path = None
        if new_viol:
            case, msg = new_viol[0]
            replay_path = os.path.join(REPLAYS, f"{self.pid}-{h(case)}.json")
            json.dump({"property": self.pid, "kind": "impl-counterexample", "case": case, "what": msg,
                       "seed": seed, "tier": tier, "others": [m for _, m in new_viol[1:6]]},
                      open(replay_path, "w"), indent=1)
            out_lines.append(f"VIOLATION property={self.pid} replay={replay_path}")
            exit_code = 1
        elif pinfo["broken"] or diffs or corr_broken:
            what = {"property": self.pid, "seed": seed, "tier": tier}
            if diffs:
                what.update(kind="correspondence-diff", correspondence=self.correspondence_name,
                            first_difference=diffs[0], n_differences=len(diffs))
            elif corr_broken:
                what.update(kind="correspondence-broken", correspondence=self.correspondence_name, detail=corr_broken)
            if pinfo["broken"]:
                what.setdefault("kind", "proof-broken")
                what.update(theorem_file=self.prop_file, broken=pinfo["broken"], failed_file=pinfo.get("failed_file"),
                            log_tail=pinfo.get("log_tail", "")[-1500:])
            replay_path = os.path.join(REPLAYS, f"{self.pid}-broken-{h(what)}.json")
            json.dump(what, open(replay_path, "w"), indent=1)
            out_lines.append(f"VIOLATION property={self.pid} replay={replay_path} no-failing-input-found")
            exit_code = 1

        # ---- evidence ----
        wall = time.time() - t0
        samples = ev["samples"] or [{"note": "no case sampled"}]
        coverage = {
            "obligations": int(pinfo.get("obligations") or 0),
            "discharged": int(pinfo.get("discharged") or 0),
            "checker_cmd": f"make -f Makefile.coq {self.prop_file[:-2]}.vo (coqc 8.16.1, full .vo)" + ("; coqchk -o" if tier == "thorough" else ""),
            "trusted_base": list(self.trusted_base),
            "axioms_reported": pinfo.get("axioms", []),
            "print_assumptions_commands": pinfo.get("print_assumptions", 0),
            "closed_under_global_context": pinfo.get("closed", 0),
            "proof_cone_files": pinfo.get("cone", []),
            "evaluations": ev["evaluations"],
            "distinct_nontrivial": len(ev["distinct"]),
            "traces_validated_against_impl": ev["corr_compared"],
            "correspondence_differences": len(diffs),
            "rule": getattr(self, "rule", ""),
            "samples": samples,
            "input_distribution": ev["dist"],
            "known_findings_hit": sorted(known_hit),
            "broken": pinfo["broken"] + corr_broken,
        }
        if "coqchk_rc" in pinfo:
            coverage["coqchk_rc"] = pinfo["coqchk_rc"]
        evidence = {"property_id": self.pid, "tier": tier, "seed": seed, "level": self.level, "coverage": coverage,
                    "assumptions": list(self.assumptions), "wall_s": round(wall, 2), "violations": len(new_viol) + (1 if exit_code and not new_viol else 0)}
        os.makedirs(EVID, exist_ok=True)
        json.dump(evidence, open(os.path.join(EVID, f"{self.pid}.json"), "w"), indent=1)
        for l in out_lines:
            print(l, flush=True)
        self.say(f"[{self.pid}] tier={tier} seed={seed} evaluations={ev['evaluations']} distinct_nontrivial={len(ev['distinct'])} "
                 f"corr={ev['corr_compared']} diffs={len(diffs)} oracle_violations={max(len(viols), ev.get('oracle_reports', 0))} wall={wall:.1f}s exit={exit_code}")
        return exit_code

    def shrink(self, case, msg):
        """Greedy delta debugging with the property oracle as the test."""
        sig = self.signature(case, msg)
        t0 = time.time()
        improved = True
        while improved and time.time() - t0 < 20:
            improved = False
            for cand in self.shrink_candidates(case):
                try:
                    res = self.run_impl(cand)
                    msgs = self.oracle(cand, res)
                except Exception:
                    continue
                hit = [m for m in msgs if self.signature(cand, m) == sig]
                if hit:
                    case, msg, improved = cand, hit[0], True
                    break
        return case, msg

    def replay(self, path):
        j = json.load(open(path))
        if "case" not in j:
            print(json.dumps(j, indent=1)[:3000])
            print("this replay names a broken theorem/correspondence; re-run the check to see whether it still breaks")
            return 0
        res = self.run_impl(j["case"])
        msgs = self.oracle(j["case"], res)
        print("case:", canon(j["case"]))
        print("implementation:", canon(res))
        print("oracle:", msgs or "property holds on this input")
        return 1 if msgs else 0


def _first_error(out):
    m = re.search(r'File "([^"]+)", line (\d+)[^\n]*\n(Error:[^\n]*(?:\n[^\n]+){0,3})', out)
    if m:
        return f"{m.group(1)}:{m.group(2)} {m.group(3)[:300]}"
    return out.strip()[-300:]


def _failed_file(out):
    m = re.search(r'File "([^"]+)", line (\d+)', out)
    return m.group(1) if m else None
