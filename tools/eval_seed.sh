#!/bin/bash
# usage: tools/eval_seed.sh <seed-out-dir>/mNN <Cxx> [tier]
# 1. confirms the seeded change (demo passes on /repo, patch applies to a scratch copy, baseline suite unchanged with it,
#    demo fails with it); 2. runs ./check against the scratch copy; 3. stores it under seeded/<Cxx>-mNN with meta.json.
set -u
src=$(readlink -f "$1"); pid=$2; tier=${3:-quick}; tag=${4:-}; m=$tag$(basename "$src")
cd "$(dirname "$0")/.."
scratch=/var/tmp/seedeval-$pid-$m-$$
rm -rf $scratch; mkdir -p $scratch; (cd /repo && git archive HEAD | tar -x -C $scratch)
URWID_PATH=/repo PYTHONPATH=/repo timeout 120 /venv/bin/python "$src/demo.py" >/dev/null 2>&1; d0=$?
(cd $scratch && patch -p1 -s < "$src/patch.diff") || { echo "$pid $m PATCH-FAILED"; rm -rf $scratch; exit 3; }
suite=$(cd $scratch && timeout 900 /venv/bin/python -m pytest -q -p no:cacheprovider --timeout=900 --continue-on-collection-errors 2>&1 | tail -1 | sed 's/ in [0-9.]*s.*//; s/=//g; s/, [0-9]* warnings//')
(cd /tmp && URWID_PATH=$scratch PYTHONPATH=$scratch timeout 120 /venv/bin/python "$src/demo.py" >/dev/null 2>&1); d1=$?
VERIF_REPO=$scratch timeout 3400 ./check $pid --tier $tier > $scratch/check.log 2>&1; rc=$?
viol=$(grep -E "^VIOLATION" $scratch/check.log | head -1)
summary=$(grep -E "tier=" $scratch/check.log | tail -1 | cut -c1-300)
broken=$(grep -E "proofs:" $scratch/check.log | sed 's/.*broken=//' | cut -c1-300)
dest=seeded/$pid-$m; mkdir -p $dest; cp "$src/patch.diff" "$src/demo.py" $dest/
python3 - "$src/meta.json" "$dest/meta.json" "$pid" "$m" "$d0" "$d1" "$suite" "$rc" "$viol" "$summary" "$broken" "$tier" <<'PY'
import json,sys
src,dst,pid,m,d0,d1,suite,rc,viol,summary,broken,tier=sys.argv[1:]
try: j=json.load(open(src))
except Exception: j={}
j.update({"id":f"{pid}-{m}","property":pid,
 "confirmed":{"demo_exit_on_repo":int(d0),"demo_exit_with_patch":int(d1),"suite_with_patch":suite.strip(),
              "ok": int(d0)==0 and int(d1)!=0 and "106 passed" in suite and "1 failed" in suite},
 "ran":f"tools/eval_seed.sh <seed>/{m} {pid} {tier}  (scratch copy of /repo HEAD with the patch applied; VERIF_REPO)",
 "check_exit":int(rc),"violation_line":viol,"check_summary":summary,"proofs_broken":broken,
 "caught": int(rc)==1 and viol.startswith("VIOLATION")})
json.dump(j,open(dst,"w"),indent=1)
print(pid,m,"confirmed" if j["confirmed"]["ok"] else "NOT-CONFIRMED",j["confirmed"],"caught" if j["caught"] else f"MISSED(rc={rc})",viol[:120])
PY
rm -rf $scratch
