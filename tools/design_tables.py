#!/usr/bin/env python3
"""Print the generated tables of DESIGN.md section 12 (markdown) from the committed evidence, the Coq sources,
known_findings.json and seeded/*/meta.json.  Usage: python3 tools/design_tables.py [props|fixes|seeds]"""
import glob, json, os, re, subprocess, sys

ROOT = os.path.join(os.path.dirname(os.path.abspath(__file__)), "..")


def props():
    print("| Prop | theorems (`Print Assumptions`, closed) | obligations in the cone (all discharged) | cone files | cases / quick run | compared with the extracted model | distinct non-trivial | translated every run (py2v modules) |")
    print("|---|---|---|---|---|---|---|---|")
    tot_o = 0
    for i in range(1, 21):
        pid = "C%02d" % i
        p = os.path.join(ROOT, "evidence", pid + ".json")
        if not os.path.exists(p):
            continue
        c = json.load(open(p))["coverage"]
        src = open(os.path.join(ROOT, "harness", "props", pid.lower() + ".py")).read()
        m = re.search(r"gen_modules\s*=\s*(\[[^\]]*\])", src)
        gens = ", ".join(eval(m.group(1))) if m else ""
        tot_o += c.get("obligations", 0)
        print("| %s | %s (%s) | %s (%s) | %s | %s | %s | %s | %s |" % (
            pid, c.get("print_assumptions_commands"), c.get("closed_under_global_context"), c.get("obligations"),
            c.get("discharged"), len(c.get("proof_cone_files", [])), c.get("evaluations"),
            c.get("traces_validated_against_impl"), c.get("distinct_nontrivial"), gens or "–"))
    files = glob.glob(os.path.join(ROOT, "coq", "theories", "*", "*.v"))
    hand = [f for f in files if "/Gen/" not in f]
    lines = sum(len(open(f).read().splitlines()) for f in hand)
    qed = sum(len(re.findall(r"\b(Qed|Defined)\.", open(f).read())) for f in hand)
    print("\nHand-written Coq: %d files, %d lines, %d `Qed`/`Defined` (cones overlap, so the per-property obligation "
          "counts above add up to more: %d)." % (len(hand), lines, qed, tot_o))


def fixes():
    k = json.load(open(os.path.join(ROOT, "known_findings.json")))
    print("%d `fix:` commits recorded; %d known findings." % (len(k["fixed"]), len(k["findings"])))
    byp = {}
    for l in k["fixed"]:
        m = re.match(r"fixed: property=(C\d\d) (\w+) (.*)", l)
        if m:
            byp.setdefault(m.group(1), []).append((m.group(2), m.group(3)))
    print("\n| Prop | fix commits | what failed (first 140 characters each) |")
    print("|---|---|---|")
    for pid in sorted(byp):
        print("| %s | %d | %s |" % (pid, len(byp[pid]), "<br>".join("`%s` %s" % (h, w[:140].replace("|", "/")) for h, w in byp[pid])))
    print("\nKnown findings (genuine, not repaired):\n")
    for f in k["findings"]:
        print("* `%s` (%s): %s" % (f["id"], f["property"], f["what"][:300].replace("\n", " ")))


if __name__ == "__main__":
    what = sys.argv[1] if len(sys.argv) > 1 else "props"
    if what == "props":
        props()
    elif what == "fixes":
        fixes()
    else:
        subprocess.run([sys.executable, os.path.join(ROOT, "tools", "seed_table.py")])
