#!/usr/bin/env python3
"""Regenerate the generated blocks of DESIGN.md section 12 (between <!-- GEN:x --> and <!-- /GEN:x -->)."""
import os, re, subprocess, sys
ROOT = os.path.join(os.path.dirname(os.path.abspath(__file__)), "..")
p = os.path.join(ROOT, "DESIGN.md")
s = open(p).read()
for key in ("props", "seeds", "fixes"):
    out = subprocess.run([sys.executable, os.path.join(ROOT, "tools", "design_tables.py"), key], capture_output=True, text=True).stdout
    s = re.sub(r"<!-- GEN:%s -->.*?<!-- /GEN:%s -->" % (key, key), lambda m: "<!-- GEN:%s -->\n%s<!-- /GEN:%s -->" % (key, out, key), s, flags=re.S)
open(p, "w").write(s)
