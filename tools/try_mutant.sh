#!/bin/bash
# usage: tools/try_mutant.sh <patch.diff> <Cxx> [tier]  -- runs the check against a scratch copy of /repo with the patch applied
set -u
patch=$(readlink -f "$1"); pid=$2; tier=${3:-quick}
scratch=/var/tmp/mut-$pid-$$
rm -rf $scratch && mkdir -p $scratch && cp -r /repo/urwid $scratch/ && (cd $scratch && git init -q . 2>/dev/null; patch -p1 -s < "$patch") || { echo "PATCH-FAILED"; rm -rf $scratch; exit 3; }
VERIF_REPO=$scratch timeout 3000 ./check $pid --tier $tier > /tmp/mut-$pid-$$.log 2>&1; rc=$?
grep -E "VIOLATION|KNOWN-FINDING|MACHINERY|proofs:|tier=" /tmp/mut-$pid-$$.log | cut -c1-400
echo "exit=$rc"
rm -rf $scratch /tmp/mut-$pid-$$.log
exit $rc
