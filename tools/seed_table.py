#!/usr/bin/env python3
"""Print the seeded-change table (markdown) from seeded/*/meta.json."""
import glob, json, os, re
rows = []
FIRST = json.load(open(os.path.join(os.path.dirname(__file__), "..", "seeded", "first_evaluation.json")))
for d in sorted(glob.glob(os.path.join(os.path.dirname(__file__), "..", "seeded", "*"))):
    m = os.path.join(d, "meta.json")
    if not os.path.exists(m):
        continue
    j = json.load(open(m))
    sid = j.get("id", os.path.basename(d))
    summary = (j.get("summary") or "")[:150].replace("|", "/").replace("\n", " ")
    conf = j.get("confirmed")
    ok = conf.get("ok") if isinstance(conf, dict) else bool(conf)
    if j.get("note", "").startswith("no longer a valid mutant"):
        verdict = "obsolete (a later fix removed its precondition)"
    elif j.get("caught") is True or "VIOLATION reported" in str(j.get("result", "")):
        v = j.get("violation_line", "")
        how = j.get("caught_by") or ("proof/correspondence broke, no failing input found" if "no-failing-input-found" in v else "failing input reported")
        if j.get("proofs_broken") not in (None, "", "[]") and "proof" not in how:
            how = "proof broke + " + how
        verdict = "caught: " + how
    else:
        verdict = "MISSED"
    first = FIRST.get(sid, j.get("first_evaluation", ""))
    if first.startswith("MISSED") or first.startswith("missed at first"):
        verdict += " (missed at first; check strengthened)"
    elif first.startswith("not reported") or first.startswith("first run"):
        verdict += " (" + first.split(";")[0] + "; core.py fixed)"
    rows.append((sid, summary, "yes" if ok or "patch applies" in str(conf) else "no", verdict))
print("| seeded change | what it does | confirmed | result |")
print("|---|---|---|---|")
for r in rows:
    print("| %s | %s | %s | %s |" % r)
n = len(rows)
c = sum(1 for r in rows if r[3].startswith("caught"))
o = sum(1 for r in rows if r[3].startswith("obsolete"))
print(f"\n{n} seeded changes kept; {c} caught, {o} obsolete, {n - c - o} missed.")
