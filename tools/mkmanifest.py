#!/usr/bin/env python3
"""Regenerate MANIFEST.json from the property modules (harness/props/cXX.py) and
harness/not_applicable.json.  Run with /venv/bin/python from /verif."""
import importlib, json, os, sys
ROOT = os.path.dirname(os.path.dirname(os.path.abspath(__file__)))
sys.path.insert(0, ROOT)
ALL = ["C%02d" % i for i in range(1, 21)]
na = json.load(open(os.path.join(ROOT, "harness/not_applicable.json")))
checks, served = [], []
for pid in ALL:
    if pid in na:
        continue
    mod = importlib.import_module("harness.props." + pid.lower())
    c = mod.CHECK
    served.append(pid)
    checks.append({
        "property_id": pid,
        "quick_cmd": f"./check {pid} --tier quick",
        "thorough_cmd": f"./check {pid} --tier thorough",
        "evidence_file": f"evidence/{pid}.json",
        "replay_cmd_template": f"./check {pid} --replay {{path}}",
        "engine": "coq-proof+extracted-model-correspondence",
        "level_claimed": {"category": c.level, "text": c.level_text, "design_ref": c.design_ref},
        "level_note": c.level_note,
        "technique": c.technique,
    })
manifest = {
    "version": 1,
    "setup_cmd": "./check --setup",
    "hooks": {
        "guard": "URWID_VERIF",
        "enable": "none needed: the harness instruments urwid from outside (monkey-patching inside the harness process); ./check exports URWID_VERIF=1 but no source line of /repo reads it",
        "baseline_off_cmd": "cd /repo && /venv/bin/python -m pytest -ra -q -p no:cacheprovider --timeout=900 --continue-on-collection-errors",
        "source_commits": [],
        "add_only": True,
    },
    "engines": [{
        "name": "coq-proof+extracted-model-correspondence", "path": "check", "serves_properties": served,
        "kind_free_text": "Coq 8.16.1 theorems over executable Gallina models; tools/py2v regenerates the translated definitions from /repo on every run; hand-written models are extracted (ExtrOcamlBasic) and compared with the implementation on generated inputs; an independent Python oracle searches for the failing input when a proof or the correspondence breaks",
    }],
    "checks": checks,
    "notes": "See DESIGN.md.  known_findings.json lists recorded findings and the fix: commits made in /repo.",
    "not_applicable": [{"property_id": p, "reason": r} for p, r in sorted(na.items()) if p not in served],
}
json.dump(manifest, open(os.path.join(ROOT, "MANIFEST.json"), "w"), indent=1)
print("claimed:", served, "not_applicable:", [x["property_id"] for x in manifest["not_applicable"]])
