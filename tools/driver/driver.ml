(* Generic driver for every extracted model: the model exposes
   run_case : z list -> z list ; one case per input line, one reply per output line. *)
open Model
let rec pos_of_int n = if n = 1 then XH else if n land 1 = 0 then XO (pos_of_int (n lsr 1)) else XI (pos_of_int (n lsr 1))
let z_of_int n = if n = 0 then Z0 else if n > 0 then Zpos (pos_of_int n) else Zneg (pos_of_int (-n))
let rec int_of_pos = function XH -> 1 | XO p -> 2 * int_of_pos p | XI p -> 2 * int_of_pos p + 1
let int_of_z = function Z0 -> 0 | Zpos p -> int_of_pos p | Zneg p -> - (int_of_pos p)
let () =
  let buf = Buffer.create 65536 in
  try while true do
    let line = input_line stdin in
    let toks = List.filter (fun s -> s <> "") (String.split_on_char ' ' (String.trim line)) in
    let zs = List.map (fun s -> z_of_int (int_of_string s)) toks in
    let out = run_case zs in
    Buffer.clear buf;
    List.iter (fun z -> Buffer.add_string buf (string_of_int (int_of_z z)); Buffer.add_char buf ' ') out;
    Buffer.add_char buf '\n';
    print_string (Buffer.contents buf); flush stdout
  done with End_of_file -> ()
