"""Gen/attrspec_escape_gen.v : Screen._attrspec_to_escape (C04) as the list of SGR parameters it formats.

The function builds the string ESC [ p1 ; p2 ; ... m out of f-strings; this module translates the string
expressions into lists of integer SGR parameters (fail-closed: every string piece must be either a
decimal literal or a whole `{expr:d}` placeholder between the ';' separators).  The `self.term == "fbterm"`
branch is outside the property (fbterm is not a VT100/xterm terminal) and is skipped explicitly.
"""
import ast
import re

from py2v_core import Tr, Unsupported, find
from mods.common import parse

NAME = "attrspec_escape"

BOOLS = {
    'a.foreground_true': 'fg_true', 'a.foreground_high': 'fg_high', 'a.foreground_basic': 'fg_basic',
    'a.background_true': 'bg_true', 'a.background_high': 'bg_high', 'a.background_basic': 'bg_basic',
    'a.bold': 'bold', 'a.italics': 'italics', 'a.underline': 'underline', 'a.blink': 'blink',
    'a.standout': 'standout', 'a.strikethrough': 'strikethrough',
    'self.fg_bright_is_bold': 'bright_is_bold', 'self.bg_bright_is_blink': 'bright_is_blink',
}
INTS = {'a.foreground_number': 'fg_num', 'a.background_number': 'bg_num'}
RGB = {
    "';'.join((str(part) for part in a.get_rgb_values()[0:3]))": '[fg_r; fg_g; fg_b]',
    "';'.join((str(part) for part in a.get_rgb_values()[3:6]))": '[bg_r; bg_g; bg_b]',
}
FINAL = "f'{escape.ESC}[0;{fg};{st}{bg}m'"


class SgrTr(Tr):
    """string-valued expressions become Gallina lists of SGR parameters"""

    def literal(self, text):
        parts = text.split(';')
        if parts and parts[-1] == '':
            parts = parts[:-1]          # "1;" : the separator belongs to the piece
        out = []
        for p in parts:
            if not re.fullmatch(r'\d+', p):
                raise Unsupported(f'string piece {p!r} is not a decimal SGR parameter')
            out.append(str(int(p)))
        return '[' + '; '.join(out) + ']'

    def is_str(self, e):
        if isinstance(e, ast.Constant) and isinstance(e.value, str):
            return True
        if isinstance(e, ast.JoinedStr):
            return True
        if isinstance(e, ast.BinOp) and isinstance(e.op, (ast.Add, ast.Mult)):
            return self.is_str(e.left)
        return False

    def expr(self, e, env):
        src = ast.unparse(e)
        if src == FINAL:
            for v in ('fg', 'st', 'bg'):
                if v not in env:
                    raise Unsupported(f'{v} unbound at the final return')
            return f"(0 :: {env['fg']} ++ {env['st']} ++ {env['bg']})"
        if isinstance(e, ast.Constant) and isinstance(e.value, str):
            return self.literal(e.value)
        if isinstance(e, ast.JoinedStr):
            marks, template = [], ''
            for v in e.values:
                if isinstance(v, ast.Constant) and isinstance(v.value, str):
                    template += v.value
                elif isinstance(v, ast.FormattedValue):
                    template += '\x00%d\x00' % len(marks)
                    marks.append(v)
                else:
                    raise Unsupported('f-string piece ' + ast.unparse(v))
            pieces = []
            for seg in template.split(';'):
                m = re.fullmatch(r'\x00(\d+)\x00', seg)
                if re.fullmatch(r'\d+', seg):
                    pieces.append('[' + str(int(seg)) + ']')
                elif m:
                    fv = marks[int(m.group(1))]
                    inner = ast.unparse(fv.value)
                    spec = ast.unparse(fv.format_spec) if fv.format_spec is not None else None
                    if inner in RGB and spec is None:
                        pieces.append(RGB[inner])
                    elif spec == "f'd'" and fv.conversion == -1:
                        pieces.append('[' + Tr.expr(self, fv.value, env) + ']')
                    else:
                        raise Unsupported(f'placeholder {{{inner}}} with format {spec}')
                else:
                    raise Unsupported(f'f-string segment {seg!r} mixes text and placeholders')
            return '(' + ' ++ '.join(pieces) + ')'
        if isinstance(e, ast.BinOp) and isinstance(e.op, ast.Add) and self.is_str(e.left):
            return f'({self.expr(e.left, env)} ++ {self.expr(e.right, env)})'
        if isinstance(e, ast.BinOp) and isinstance(e.op, ast.Mult) and self.is_str(e.left):
            flag = ast.unparse(e.right)
            if flag not in BOOLS:
                raise Unsupported('string repeated by ' + flag)
            return f'(if {BOOLS[flag]} then {self.expr(e.left, env)} else [])'
        return Tr.expr(self, e, env)

    def assigned(self, stmts):
        # variables bound by a generator expression are not variables of the function
        local = set()
        out = set()
        for st in stmts:
            for n in ast.walk(st):
                if isinstance(n, ast.comprehension):
                    for m in ast.walk(n.target):
                        if isinstance(m, ast.Name):
                            local.add(m.id)
            for n in ast.walk(st):
                if isinstance(n, ast.Name) and isinstance(n.ctx, ast.Store) and n.id not in local:
                    out.add(n.id)
        return out

    def bexpr(self, e, env):
        src = ast.unparse(e)
        if src in BOOLS:
            return BOOLS[src]
        return Tr.bexpr(self, e, env)


def generate(repo):
    rel = 'urwid/display/_raw_display_base.py'
    tree = parse(repo, rel)
    fn = find(tree, '_attrspec_to_escape')
    body = list(fn.body)
    if body and isinstance(body[0], ast.Expr) and isinstance(body[0].value, ast.Constant):
        body = body[1:]
    if not (body and isinstance(body[0], ast.If) and ast.unparse(body[0].test) == "self.term == 'fbterm'"
            and not body[0].orelse):
        raise Unsupported('expected the fbterm branch first')
    fn2 = ast.FunctionDef(name=fn.name, args=fn.args, body=body[1:], decorator_list=[], returns=None)
    t = SgrTr({}, dict(BOOLS, **INTS), {})
    params = ([(v, 'bool') for v in ('fg_true', 'fg_high', 'fg_basic')] + [(v, 'Z') for v in ('fg_num', 'fg_r', 'fg_g', 'fg_b')]
              + [(v, 'bool') for v in ('bold', 'italics', 'underline', 'blink', 'standout', 'strikethrough')]
              + [(v, 'bool') for v in ('bg_true', 'bg_high', 'bg_basic')] + [(v, 'Z') for v in ('bg_num', 'bg_r', 'bg_g', 'bg_b')]
              + [('bright_is_bold', 'bool'), ('bright_is_blink', 'bool')])
    text = t.func(fn2, params, 'attrspec_to_sgr_gen', 'list Z')
    return rel, text
