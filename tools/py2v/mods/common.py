"""Shared helpers for py2v translation modules."""
import ast, os
WH = {'WHSettings.RELATIVE': 'WRelative', 'WHSettings.CLIP': 'WClip', 'WHSettings.GIVEN': 'WGiven',
      'WHSettings.PACK': 'WPack', 'WHSettings.WEIGHT': 'WWeight',
      'Align.LEFT': 'ALeft', 'Align.CENTER': 'ACenter', 'Align.RIGHT': 'ARight',
      'VAlign.TOP': 'VTop', 'VAlign.MIDDLE': 'VMiddle', 'VAlign.BOTTOM': 'VBottom'}

def parse(repo, rel):
    return ast.parse(open(os.path.join(repo, rel)).read())
