"""Gen/vterm_csi_gen.v (C15): what urwid/vterm.py says NOW about

* CSI_COMMANDS: for every final byte the (minimum number of arguments, default, final byte after
  alias resolution) triple -> `csi_table`;  the text of every callback lambda is compared with the
  dispatch the hand model implements (EXPECTED below) - a changed callback fails the translation
  (fail-closed) instead of silently leaving the model behind;
* TermCanvas.constrain_coords -> `constrain_coords_gen` (translated statement by statement);
* TermCharset.apply_mapping's table: for each byte the position of bytes([b]).decode('cp437') in
  DEC_SPECIAL_CHARS and the replacement byte -> `dec_special_map`; it is also checked here that no
  multi-byte UTF-8 character decodes (cp437) to a substring of DEC_SPECIAL_CHARS, which is what the
  hand model of apply_mapping assumes for multi-byte characters;
* the constants the model uses by name (CHARSET_DEFAULT/UTF8, scrollback maxlen, TermCharset.MAPPING).
"""
import ast
import os
import subprocess

from py2v_core import Tr, Unsupported, find
from mods.common import parse

NAME = "vterm_csi"

# final byte -> source text of the callback the hand model (Model/VTerm.v: csi_dispatch) implements
EXPECTED = {
    "@": "lambda s, number, q: s.insert_chars(chars=number[0])",
    "A": "lambda s, rows, q: s.move_cursor(0, -rows[0], relative=True)",
    "B": "lambda s, rows, q: s.move_cursor(0, rows[0], relative=True)",
    "C": "lambda s, cols, q: s.move_cursor(cols[0], 0, relative=True)",
    "D": "lambda s, cols, q: s.move_cursor(-cols[0], 0, relative=True)",
    "E": "lambda s, rows, q: s.move_cursor(0, rows[0], relative_y=True)",
    "F": "lambda s, rows, q: s.move_cursor(0, -rows[0], relative_y=True)",
    "G": "lambda s, col, q: s.move_cursor(col[0] - 1, 0, relative_y=True)",
    "H": "lambda s, x_y, q: s.move_cursor(x_y[1] - 1, x_y[0] - 1)",
    "J": "lambda s, mode, q: s.csi_erase_display(mode[0])",
    "K": "lambda s, mode, q: s.csi_erase_line(mode[0])",
    "L": "lambda s, number, q: s.insert_lines(lines=number[0])",
    "M": "lambda s, number, q: s.remove_lines(lines=number[0])",
    "P": "lambda s, number, q: s.remove_chars(chars=number[0])",
    "X": "lambda s, number, q: s.erase(s.term_cursor, (s.term_cursor[0] + number[0] - 1, s.term_cursor[1]))",
    "c": "lambda s, none, q: s.csi_get_device_attributes(q)",
    "d": "lambda s, row, q: s.move_cursor(0, row[0] - 1, relative_x=True)",
    "g": "lambda s, mode, q: s.csi_clear_tabstop(mode[0])",
    "h": "lambda s, modes, q: s.csi_set_modes(modes, q)",
    "l": "lambda s, modes, q: s.csi_set_modes(modes, q, reset=True)",
    "m": "lambda s, attrs, q: s.csi_set_attr(attrs)",
    "n": "lambda s, mode, q: s.csi_status_report(mode[0])",
    "q": "lambda s, mode, q: s.csi_set_keyboard_leds(mode[0])",
    "r": "lambda s, t_b, q: s.csi_set_scroll(t_b[0], t_b[1])",
    "s": "lambda s, none, q: s.save_cursor()",
    "u": "lambda s, none, q: s.restore_cursor()",
}


class TrB(Tr):
    """Tr + boolean attribute parameters (self.modes.constrain_scrolling) in boolean position."""

    def __init__(self, enums, attr_params, builtins, bool_params):
        super().__init__(enums, attr_params, builtins)
        self.bool_params = bool_params

    def bexpr(self, e, env):
        src = ast.unparse(e)
        if src in self.bool_params:
            return self.bool_params[src]
        return super().bexpr(e, env)


def const_assign(tree, name):
    for n in tree.body:
        if isinstance(n, ast.Assign) and len(n.targets) == 1 and isinstance(n.targets[0], ast.Name) and n.targets[0].id == name:
            return n.value
        if isinstance(n, ast.AnnAssign) and isinstance(n.target, ast.Name) and n.target.id == name:
            return n.value
    raise KeyError(name)


def csi_table(tree):
    d = const_assign(tree, "CSI_COMMANDS")
    if not isinstance(d, ast.Dict):
        raise Unsupported("CSI_COMMANDS is not a dict literal")
    entries = {}
    aliases = {}
    for k, v in zip(d.keys, d.values):
        if not (isinstance(k, ast.Constant) and isinstance(k.value, bytes) and len(k.value) == 1):
            raise Unsupported("CSI_COMMANDS key " + ast.unparse(k))
        key = k.value.decode("latin-1")
        if not (isinstance(v, ast.Call) and isinstance(v.func, ast.Name)):
            raise Unsupported("CSI_COMMANDS value " + ast.unparse(v))
        if v.func.id == "CSIAlias":
            a0, a1 = v.args
            if not (isinstance(a0, ast.Constant) and a0.value == "alias" and isinstance(a1, ast.Constant)
                    and isinstance(a1.value, bytes) and len(a1.value) == 1):
                raise Unsupported("alias " + ast.unparse(v))
            aliases[key] = a1.value.decode("latin-1")
        elif v.func.id == "CSICommand":
            n, dflt, cb = v.args
            if not (isinstance(n, ast.Constant) and isinstance(n.value, int) and isinstance(dflt, ast.Constant)
                    and isinstance(dflt.value, int) and isinstance(cb, ast.Lambda)):
                raise Unsupported("command " + ast.unparse(v)[:60])
            text = ast.unparse(cb)
            if key not in EXPECTED:
                raise Unsupported(f"CSI final byte {key!r} is not handled by the hand model")
            if text != EXPECTED[key]:
                raise Unsupported(f"callback of CSI {key!r} changed: {text!r} (model implements {EXPECTED[key]!r})")
            entries[key] = (n.value, dflt.value)
        else:
            raise Unsupported("CSI_COMMANDS value " + ast.unparse(v)[:60])
    missing = sorted(set(EXPECTED) - set(entries))
    if missing:
        raise Unsupported(f"CSI commands {missing} disappeared from CSI_COMMANDS")
    rows = []
    for key, (n, dflt) in entries.items():
        rows.append((ord(key), n, dflt, ord(key)))
    for key, tgt in aliases.items():
        if tgt not in entries:
            raise Unsupported(f"alias {key!r} -> {tgt!r} does not name a command")
        n, dflt = entries[tgt]
        rows.append((ord(key), n, dflt, ord(tgt)))
    rows.sort()
    arms = "\n".join(f"  | {c} => Some ({n}, {d}, {t})" for c, n, d, t in rows)
    return ("(* final byte -> (minimum number of arguments, default value, final byte after alias resolution) *)\n"
            f"Definition csi_table (c : Z) : option (Z * Z * Z) :=\n  match c with\n{arms}\n  | _ => None\n  end.\n")


def dec_map(repo):
    esc = parse(repo, "urwid/display/escape.py")
    dec = ast.literal_eval(const_assign(esc, "DEC_SPECIAL_CHARS"))
    alt = ast.literal_eval(const_assign(esc, "ALT_DEC_SPECIAL_CHARS"))
    if not (isinstance(dec, str) and isinstance(alt, str) and len(dec) == len(alt)):
        raise Unsupported("DEC_SPECIAL_CHARS / ALT_DEC_SPECIAL_CHARS")
    rows = []
    for b in range(256):
        pos = dec.find(bytes([b]).decode("cp437"))
        if pos >= 0:
            rep = alt[pos].encode("cp437")
            if len(rep) != 1:
                raise Unsupported("replacement is not one byte")
            rows.append((b, rep[0]))
    # multi-byte characters: a valid UTF-8 sequence of 2..4 bytes whose cp437 reading is a substring of
    # DEC_SPECIAL_CHARS is remapped too (str.find is a substring search): first match position wins
    multi = []
    seen = set()
    for n in (2, 3, 4):
        for i in range(len(dec) - n + 1):
            try:
                raw = dec[i:i + n].encode("cp437")
            except UnicodeEncodeError:
                continue
            try:
                raw.decode("utf-8")
            except UnicodeDecodeError:
                continue
            if raw in seen:
                continue
            seen.add(raw)
            pos = dec.find(raw.decode("cp437"))
            multi.append((list(raw), alt[pos].encode("cp437")[0]))
    marms = "; ".join("([%s], %d)" % ("; ".join(str(b) for b in raw), r) for raw, r in multi)
    arms = "\n".join(f"  | {b} => Some {r}" for b, r in rows)
    return ("(* TermCharset.apply_mapping: byte -> replacement byte when bytes([b]).decode('cp437') is in DEC_SPECIAL_CHARS *)\n"
            f"Definition dec_special_map (b : Z) : option Z :=\n  match b with\n{arms}\n  | _ => None\n  end.\n"
            "(* the same for multi-byte (valid UTF-8) characters whose cp437 reading is a substring of DEC_SPECIAL_CHARS *)\n"
            f"Definition dec_special_multi : list (list Z * Z) := [{marms}].\n")


def constants(tree):
    out = []
    for name in ("CHARSET_DEFAULT", "CHARSET_UTF8"):
        v = const_assign(tree, name)
        if not (isinstance(v, ast.Constant) and isinstance(v.value, int)):
            raise Unsupported(name)
        out.append(f"Definition {name.lower()}_gen : Z := {v.value}.")
    # deque(maxlen=...) of the scrollback buffer
    init = None
    for n in ast.walk(tree):
        if isinstance(n, ast.ClassDef) and n.name == "TermCanvas":
            init = find(n, "__init__")
    maxlen = None
    for n in ast.walk(init):
        if isinstance(n, ast.Call) and ast.unparse(n.func) == "deque":
            for kw in n.keywords:
                if kw.arg == "maxlen" and isinstance(kw.value, ast.Constant):
                    maxlen = kw.value.value
    if not isinstance(maxlen, int):
        raise Unsupported("scrollback deque(maxlen=...) not found")
    out.append(f"Definition scrollback_maxlen_gen : Z := {maxlen}.")
    # TermCharset.MAPPING  (charset name -> current):  default/vt100/ibmpc/user = 0/1/2/3 ; None/'0'/'U' = 0/1/2
    mp = None
    for n in ast.walk(tree):
        if isinstance(n, ast.ClassDef) and n.name == "TermCharset":
            for st in n.body:
                if isinstance(st, ast.AnnAssign) and ast.unparse(st.target) == "MAPPING":
                    mp = ast.literal_eval(st.value)
    if not isinstance(mp, dict):
        raise Unsupported("TermCharset.MAPPING")
    names = ["default", "vt100", "ibmpc", "user"]
    cur = {None: 0, "0": 1, "U": 2}
    if sorted(mp) != sorted(names) or any(v not in cur for v in mp.values()):
        raise Unsupported(f"TermCharset.MAPPING changed: {mp!r}")
    arms = " ".join(f"| {i} => {cur[mp[nm]]}" for i, nm in enumerate(names))
    out.append(f"Definition charset_mapping_gen (g : Z) : Z := match g with {arms} | _ => 0 end.")
    return "\n".join(out) + "\n"


PY = "/venv/bin/python"
PALETTE_SCRIPT = r"""
import warnings
warnings.simplefilter("ignore")
from urwid.display.common import _COLOR_VALUES_256
print(",".join(str((r << 16) + (g << 8) + b) for r, g, b in _COLOR_VALUES_256))
"""


def palette(repo, tree):
    """_COLOR_VALUES_256 as packed rgb numbers, dumped by the interpreter that runs the code under test;
    sgi_to_attrspec's conversion expression is checked to be the packing used here."""
    fn = find(tree, "sgi_to_attrspec")
    src = ast.unparse(fn)
    for side in ("fg", "bg"):
        want = f"red, green, blue = _COLOR_VALUES_256[{side}]"
        if want not in src or f"{side} = (red << 16) + (green << 8) + blue" not in src:
            raise Unsupported(f"sgi_to_attrspec: palette conversion of {side} changed")
    env = dict(os.environ)
    env["PYTHONPATH"] = repo
    env["PYTHONDONTWRITEBYTECODE"] = "1"
    p = subprocess.run([PY, "-c", PALETTE_SCRIPT], env=env, capture_output=True, text=True, timeout=100)
    if p.returncode != 0:
        raise ValueError("palette dump failed: " + p.stderr.strip()[-300:])
    vals = [int(x) for x in p.stdout.strip().split(",")]
    if len(vals) != 256:
        raise Unsupported("_COLOR_VALUES_256 does not have 256 entries")
    return ("(* display.common._COLOR_VALUES_256[n] packed as (r << 16) + (g << 8) + b *)\n"
            "Definition color_values_256_gen : list Z :=\n  [" + "; ".join(str(v) for v in vals) + "].\n")


def generate(repo):
    rel = "urwid/vterm.py"
    tree = parse(repo, rel)
    out = [csi_table(tree), dec_map(repo), constants(tree), palette(repo, tree)]
    t = TrB({}, {"self.width": "width", "self.height": "height", "self.scrollregion_end": "sr_end",
                 "self.scrollregion_start": "sr_start"}, {},
            {"self.modes.constrain_scrolling": "constrain_scrolling"})
    out.append(t.func(find(tree, "constrain_coords"),
                      [("width", "Z"), ("height", "Z"), ("constrain_scrolling", "bool"), ("sr_start", "Z"),
                       ("sr_end", "Z"), ("x", "Z"), ("y", "Z"), ("ignore_scrolling", "Z")],
                      "constrain_coords_gen", "Z * Z"))
    return rel + " urwid/display/escape.py urwid/display/common.py", "\n".join(out)
