"""Gen/str_loops_gen.v (C11): the loop-carrying functions of urwid/str_util.py and urwid/util.py,
translated from the source on every run

  str_util.py  within_double_byte, calc_string_text_pos, calc_text_pos, move_next_char, move_prev_char,
               is_wide_char, the fallback loop of calc_width
  util.py      rle_get_at, rle_len, rle_subseg

Model/Width.v keeps hand-written versions of the same functions as specifications;
Proofs/GenEq.v proves generated = hand-written for all inputs, so every theorem about the hand versions
is a theorem about the text regenerated here.

`TrL` (below) extends the result-monadic translator of mods/str_util.py (py2v_core.py is not modified):

  * impure sub-expressions (indexing a list parameter `text[i]`, calls listed in `mcalls`) are hoisted,
    left to right, into result-binds;  `A and B` in a test evaluates B (and its binds) only when A holds
  * `if` without else whose body does not always exit: the rest of the block becomes a local join
    function taking the variables assigned in the branch (no tuples, so `return`/`break`/`continue`
    inside a branch need no special typing)
  * `while TEST: BODY` -> an auxiliary top-level Fixpoint on explicit fuel (the fuel expression is given
    per loop by this module; out of fuel = Err RuntimeErrorK).  Shape: the leading pure conjuncts of TEST
    are tested first, then the fuel is consumed, then the impure conjuncts are evaluated
  * `for i in range(a, b)` -> structural recursion on the count;  `for pat in lst` -> on the list
  * `return e` inside a loop -> `inl e`, falling out / `break` -> `inr (carried variables)`; `continue`
  * a self-recursive function -> Fixpoint on an explicit recursion fuel
Fail-closed: anything else raises Unsupported.
"""
import ast
import copy
import textwrap

from py2v_core import Unsupported, find
from mods.common import parse
from mods.str_util import TrX, loads, stores

NAME = "str_loops"


def mod(stmts):
    return ast.Module(body=list(stmts), type_ignores=[])


COQ_RESERVED = {"end", "in", "at", "as", "fix", "fun", "if", "then", "else", "let", "match", "with", "return", "for", "using"}


def safe(n):
    return n + "_" if n in COQ_RESERVED else n


class TrL(TrX):
    ERRS = {"ValueError": "ValueError", "IndexError": "IndexError", "TypeError": "TypeError"}

    def __init__(s, name, params, rettype, enums=None, attr_params=None, builtins=None, mcalls=None, lists=(),
                 fuels=(), rec_fuel=False):
        super().__init__(enums or {}, attr_params or {}, builtins or {})
        s.fname = name
        s.params = params                  # [(name, coq type)]
        s.rettype = rettype
        s.mcalls = dict(mcalls or {})
        s.lists = set(lists)               # parameters indexed with [] -> get_index
        s.fuels = list(fuels)              # python expressions, one per while loop in source order
        s.rec_fuel = rec_fuel
        s.aux = []
        s.nloop = 0
        s.inloop = None                    # None | dict(brk=fn(env), cont=fn(env))
        s.has_ret = False

    # ---------- expressions with hoisted impure parts ----------
    def bexpr(s, e, env):
        src = ast.unparse(e)
        if src in s.attr_params:
            return s.attr_params[src]
        return super().bexpr(e, env)

    def expr(s, e, env):
        if isinstance(e, ast.List) and not e.elts:
            return "[]"
        if isinstance(e, ast.List):
            return "[" + "; ".join(s.expr(x, env) for x in e.elts) + "]"
        if isinstance(e, ast.Call) and ast.unparse(e.func) == "abs" and len(e.args) == 1:
            return f"(Z.abs {s.expr(e.args[0], env)})"
        return super().expr(e, env)

    def impure(s, n):
        if isinstance(n, ast.Subscript) and isinstance(n.value, ast.Name) and n.value.id in s.lists:
            return True
        if isinstance(n, ast.Call) and ast.unparse(n.func) in s.mcalls:
            return True
        return False

    def hoist(s, e, env):
        """-> (binds [(coq pattern, coq result expr)], rewritten ast, env2)"""
        binds = []
        env2 = dict(env)
        tr = s

        class H(ast.NodeTransformer):
            def generic_visit(self, node):
                if isinstance(node, (ast.BoolOp, ast.IfExp, ast.Lambda, ast.ListComp, ast.GeneratorExp)) and \
                        any(tr.impure(x) for x in ast.walk(node)):
                    raise Unsupported("impure expression under and/or/if-expression: " + ast.unparse(node)[:60])
                return super().generic_visit(node)

            def visit_Subscript(self, node):
                if not tr.impure(node):
                    return self.generic_visit(node)
                if isinstance(node.slice, ast.Slice):
                    raise Unsupported("slice")
                idx = self.visit(node.slice)
                nm = tr.newname("t")
                binds.append((nm, f"(get_index {tr.expr(node.value, env2)} {tr.expr(idx, env2)})"))
                env2["__" + nm] = nm
                return ast.Name(id="__" + nm, ctx=ast.Load())

            def visit_Call(self, node):
                if not tr.impure(node):
                    return self.generic_visit(node)
                if node.keywords:
                    raise Unsupported("keyword arguments")
                args = [self.visit(a) for a in node.args]
                nm = tr.newname("r")
                call = "(" + tr.mcalls[ast.unparse(node.func)] + " " + " ".join(tr.expr(a, env2) for a in args) + ")"
                binds.append((nm, call))
                env2["__" + nm] = nm
                return ast.Name(id="__" + nm, ctx=ast.Load())

        e2 = H().visit(copy.deepcopy(e))
        return binds, e2, env2

    @staticmethod
    def wrap(binds, body):
        for pat, rhs in reversed(binds):
            body = f"match {rhs} with Err e_ => Err e_ | Ok {pat} =>\n{body} end"
        return body

    def conjuncts(s, test):
        return list(test.values) if isinstance(test, ast.BoolOp) and isinstance(test.op, ast.And) else [test]

    def cond(s, test, env, then_code, else_code):
        """if TEST then .. else ..  with short-circuit evaluation of impure conjuncts"""
        conjs = s.conjuncts(test)
        code = then_code
        for c in reversed(conjs):
            binds, c2, env2 = s.hoist(c, env)
            code = s.wrap(binds, f"if {s.bexpr(c2, env2)} then {code}\nelse {else_code}")
        return code

    # ---------- statements ----------
    def ret(s, e):
        return f"Ok (inl {e})" if s.inloop is not None else f"Ok {e}"

    def exits(s, stmts):
        if not stmts:
            return False
        last = stmts[-1]
        if isinstance(last, (ast.Return, ast.Raise, ast.Break, ast.Continue)):
            return True
        if isinstance(last, ast.If) and last.orelse:
            return s.exits(last.body) and s.exits(last.orelse)
        return False

    def pattern(s, tgt, env2):
        if isinstance(tgt, ast.Name):
            nm = s.newname(tgt.id)
            env2[tgt.id] = nm
            return nm
        if isinstance(tgt, ast.Tuple) and all(isinstance(x, ast.Name) for x in tgt.elts):
            nms = []
            for x in tgt.elts:
                nm = s.newname(x.id)
                env2[x.id] = nm
                nms.append(nm)
            pat = nms[0]
            for nm in nms[1:]:
                pat = f"({pat}, {nm})"
            return pat
        raise Unsupported(f"assign target {ast.unparse(tgt)}")

    def join(s, rest, env, k, assigned, build):
        """let join := fun assigned => REST in  build(call)  where call(env_b) applies the join"""
        if not rest:
            return build(k)
        nm = s.newname("join")
        env2 = dict(env)
        binders = []
        for a in assigned:
            b = s.newname(a)
            env2[a] = b
            binders.append(b)
        if not binders:
            binders = ["_"]
        body = s.block(rest, env2, k)

        def call(env_b):
            args = [env_b.get(a) for a in assigned]
            if any(v is None for v in args):
                raise Unsupported(f"variable possibly unbound at a join: {assigned}")
            return f"{nm} " + (" ".join(args) if args else "tt")
        return f"let {nm} := (fun {' '.join(binders)} =>\n{body}) in\n" + build(call)

    def block(s, stmts, env, k):
        if not stmts:
            return k(env)
        st, rest = stmts[0], list(stmts[1:])
        if isinstance(st, ast.Expr) and isinstance(st.value, ast.Constant):
            return s.block(rest, env, k)
        if isinstance(st, ast.Pass):
            return s.block(rest, env, k)
        if isinstance(st, ast.Return):
            s.has_ret = True
            if st.value is None:
                raise Unsupported("bare return")
            if isinstance(st.value, ast.Call) and ast.unparse(st.value.func) in s.mcalls and s.inloop is None:
                binds, e2, env2 = s.hoist(st.value, env)
                pat, rhs = binds[-1]
                return s.wrap(binds[:-1], rhs)                   # tail call of a result-returning function
            binds, e2, env2 = s.hoist(st.value, env)
            return s.wrap(binds, s.ret(s.expr(e2, env2)))
        if isinstance(st, ast.Raise):
            exc = st.exc
            name = ast.unparse(exc.func) if isinstance(exc, ast.Call) else ast.unparse(exc)
            if name not in s.ERRS:
                raise Unsupported(f"raise {name}")
            return f"Err {s.ERRS[name]}"
        if isinstance(st, ast.Break):
            if s.inloop is None:
                raise Unsupported("break outside a loop")
            return s.inloop["brk"](env)
        if isinstance(st, ast.Continue):
            if s.inloop is None:
                raise Unsupported("continue outside a loop")
            return s.inloop["cont"](env)
        # lst.append(x)
        if isinstance(st, ast.Expr) and isinstance(st.value, ast.Call) and isinstance(st.value.func, ast.Attribute) \
                and st.value.func.attr == "append" and isinstance(st.value.func.value, ast.Name) and len(st.value.args) == 1:
            tgt = st.value.func.value.id
            new = ast.Assign(targets=[ast.Name(id=tgt, ctx=ast.Store())],
                             value=ast.BinOp(left=ast.Name(id=tgt, ctx=ast.Load()), op=ast.Add(),
                                             right=ast.List(elts=[st.value.args[0]], ctx=ast.Load())))
            new._listcat = True
            return s.block([new] + rest, env, k)
        if isinstance(st, ast.AugAssign):
            if not isinstance(st.target, ast.Name):
                raise Unsupported("augmented assignment target")
            st = ast.Assign(targets=[ast.Name(id=st.target.id, ctx=ast.Store())],
                            value=ast.BinOp(left=ast.Name(id=st.target.id, ctx=ast.Load()), op=st.op, right=st.value))
        if isinstance(st, ast.AnnAssign):
            st = ast.Assign(targets=[st.target], value=st.value)
        if isinstance(st, ast.Assign):
            if getattr(st, "_listcat", False):
                tgt = st.targets[0].id
                binds, e2, env2 = s.hoist(st.value.right.elts[0], env)
                env3 = dict(env2)
                nm = s.newname(tgt)
                env3[tgt] = nm
                return s.wrap(binds, f"let {nm} := ({env[tgt]} ++ [{s.expr(e2, env2)}]) in\n{s.block(rest, env3, k)}")
            binds, e2, env2 = s.hoist(st.value, env)
            if len(st.targets) != 1:
                if binds or not all(isinstance(t, ast.Name) for t in st.targets):
                    raise Unsupported("chained assignment")
                env3 = dict(env)
                out = ""
                v = s.expr(st.value, env)
                for t in st.targets:
                    nm = s.newname(t.id)
                    out += f"let {nm} := {v} in\n"
                    env3[t.id] = nm
                return out + s.block(rest, env3, k)
            env3 = dict(env2)
            if binds and isinstance(e2, ast.Name) and e2.id == "__" + binds[-1][0]:
                # x = impure  /  a, b = impure : bind the pattern directly
                pat = s.pattern(st.targets[0], env3)
                last = binds[-1][1]
                return s.wrap(binds[:-1], f"match {last} with Err e_ => Err e_ | Ok {pat} =>\n{s.block(rest, env3, k)} end")
            val = s.expr(e2, env2)
            pat = s.pattern(st.targets[0], env3)
            q = "'" if isinstance(st.targets[0], ast.Tuple) else ""
            return s.wrap(binds, f"let {q}{pat} := {val} in\n{s.block(rest, env3, k)}")
        if isinstance(st, ast.If):
            body_exits = s.exits(st.body)
            else_exits = s.exits(st.orelse) if st.orelse else False
            assigned = sorted((stores(mod(st.body)) | stores(mod(st.orelse))) & set(env))
            if body_exits and not st.orelse:
                return s.join(rest, env, k, [], lambda call: s.cond(st.test, env, s.block(st.body, env, None), call(env)))
            if body_exits and else_exits:
                return s.cond(st.test, env, s.block(st.body, env, None), s.block(st.orelse, env, None))
            new_in_branch = (stores(mod(st.body)) | stores(mod(st.orelse))) - set(env)
            used_later = set()
            for r_ in rest:
                used_later |= loads(r_)
            if new_in_branch & used_later:
                raise Unsupported(f"variable first bound inside an if and used later: {sorted(new_in_branch & used_later)}")
            return s.join(rest, env, k, assigned,
                          lambda call: s.cond(st.test, env, s.block(st.body, env, call), s.block(st.orelse, env, call)))
        if isinstance(st, ast.While):
            return s.loop_while(st, rest, env, k)
        if isinstance(st, ast.For):
            return s.loop_for(st, rest, env, k)
        raise Unsupported(f"statement {type(st).__name__}: {ast.unparse(st)[:60]}")

    # ---------- loops ----------
    def loop_common(s, st, env):
        if st.orelse:
            raise Unsupported("loop else")
        if s.inloop is not None:
            raise Unsupported("nested loop")
        body_stores = stores(mod(st.body))
        for n in ast.walk(mod(st.body)):
            if isinstance(n, ast.Expr) and isinstance(n.value, ast.Call) and isinstance(n.value.func, ast.Attribute) \
                    and n.value.func.attr == "append" and isinstance(n.value.func.value, ast.Name):
                body_stores.add(n.value.func.value.id)
        carried = sorted(v for v in body_stores if v in env and not v.startswith("__"))
        free = (loads(mod(st.body)) | (loads(st.test) if isinstance(st, ast.While) else set()))
        pnames = [p for p, _ in s.params]
        ctx = [p for p in pnames if p not in carried]
        ctx += sorted(v for v in free if v in env and v not in pnames and v not in carried and not v.startswith("__"))
        has_ret = any(isinstance(n, ast.Return) for n in ast.walk(mod(st.body)))
        s.nloop += 1
        lname = f"{s.fname}_loop{s.nloop}"
        return carried, ctx, has_ret, lname

    def binder(s, v):
        ty = dict(s.params).get(v)
        return f"({safe(v)} : {ty})" if ty else safe(v)

    @staticmethod
    def tup(names):
        if not names:
            return "tt"
        r = names[0]
        for n in names[1:]:
            r = f"({r}, {n})"
        return r

    def after_loop(s, call, carried, has_ret, rest, env, k):
        env2 = dict(env)
        nms = []
        for v in carried:
            nm = s.newname(v)
            env2[v] = nm
            nms.append(nm)
        pat = s.tup(nms) if nms else "_"
        after = s.block(rest, env2, k)
        if has_ret:
            return (f"match {call} with Err e_ => Err e_ | Ok (inl r_) => {s.ret('r_')} | Ok (inr {pat}) =>\n{after} end")
        return f"match {call} with Err e_ => Err e_ | Ok {pat} =>\n{after} end"

    def loop_while(s, st, rest, env, k):
        carried, ctx, has_ret, lname = s.loop_common(st, env)
        if not s.fuels:
            raise Unsupported("no fuel expression given for a while loop")
        fuel_src = s.fuels.pop(0)
        fuel = f"(Z.to_nat {s.expr(ast.parse(fuel_src, mode='eval').body, env)})"
        inner = {v: safe(v) for v in ctx + carried}
        fall = (lambda e: f"Ok (inr {s.tup([e[v] for v in carried])})") if has_ret else \
               (lambda e: f"Ok {s.tup([e[v] for v in carried])}")
        rec = lambda e: f"{lname} fuel' " + " ".join([safe(v) for v in ctx] + [e[v] for v in carried])
        conjs = s.conjuncts(st.test)
        npure = 0
        for c in conjs:
            if any(s.impure(x) for x in ast.walk(c)):
                break
            npure += 1
        saved = s.inloop
        s.inloop = {"brk": fall, "cont": rec}
        body = s.block(st.body, inner, rec)
        rest_test = conjs[npure:]
        if rest_test:
            t = rest_test[0] if len(rest_test) == 1 else ast.BoolOp(op=ast.And(), values=rest_test)
            step = s.cond(t, inner, body, fall(inner))
        else:
            step = body
        s.inloop = saved
        core = f"match fuel with\n| O => Err RuntimeErrorK\n| S fuel' =>\n{textwrap.indent(step, '  ')}\nend"
        if npure:
            t = conjs[0] if npure == 1 else ast.BoolOp(op=ast.And(), values=conjs[:npure])
            core = f"if {s.bexpr(t, inner)} then\n{textwrap.indent(core, '  ')}\nelse {fall(inner)}"
        s.aux.append(f"Fixpoint {lname} (fuel : nat) {' '.join([s.binder(v) for v in ctx] + [safe(v) for v in carried])} {{struct fuel}} :=\n"
                     f"{textwrap.indent(core, '  ')}.\n")
        call = f"({lname} {fuel} " + " ".join([env[v] for v in ctx] + [env[v] for v in carried]) + ")"
        return s.after_loop(call, carried, has_ret, rest, env, k)

    def loop_for(s, st, rest, env, k):
        carried, ctx, has_ret, lname = s.loop_common(st, env)
        it = st.iter
        saved = s.inloop
        if isinstance(it, ast.Call) and ast.unparse(it.func) == "range" and len(it.args) == 2 and isinstance(st.target, ast.Name):
            idx = st.target.id
            if idx in carried:
                raise Unsupported("loop index assigned in the body")
            inner = {v: safe(v) for v in ctx + carried}
            inner[idx] = safe(idx)
            fall = (lambda e: f"Ok (inr {s.tup([e[v] for v in carried])})") if has_ret else \
                   (lambda e: f"Ok {s.tup([e[v] for v in carried])}")
            rec = lambda e: f"{lname} n' " + " ".join(list(map(safe, ctx)) + [f"({safe(idx)} + 1)"] + [e[v] for v in carried])
            s.inloop = {"brk": fall, "cont": rec}
            body = s.block(st.body, inner, rec)
            s.inloop = saved
            s.aux.append(f"Fixpoint {lname} (n : nat) {' '.join([s.binder(v) for v in ctx] + [safe(v) for v in [idx] + carried])} {{struct n}} :=\n"
                         f"  match n with\n  | O => {fall(inner)}\n  | S n' =>\n{textwrap.indent(body, '    ')}\n  end.\n")
            a, b = s.expr(it.args[0], env), s.expr(it.args[1], env)
            call = f"({lname} (Z.to_nat ({b} - {a})) " + " ".join([env[v] for v in ctx] + [a] + [env[v] for v in carried]) + ")"
            return s.after_loop(call, carried, has_ret, rest, env, k)
        if isinstance(it, ast.Name) and it.id in env:
            lst = it.id
            ctx = [c for c in ctx if c != lst]
            inner = {v: safe(v) for v in ctx + carried}
            tnames = [st.target.id] if isinstance(st.target, ast.Name) else \
                [x.id for x in st.target.elts] if isinstance(st.target, ast.Tuple) and all(isinstance(x, ast.Name) for x in st.target.elts) else None
            if tnames is None:
                raise Unsupported("for target")
            for t in tnames:
                if t in carried:
                    raise Unsupported("loop target is a carried variable")
                inner[t] = safe(t)
            pat = s.tup([safe(t) for t in tnames])
            fall = (lambda e: f"Ok (inr {s.tup([e[v] for v in carried])})") if has_ret else \
                   (lambda e: f"Ok {s.tup([e[v] for v in carried])}")
            rec = lambda e: f"{lname} l' " + " ".join(list(map(safe, ctx)) + [e[v] for v in carried])
            s.inloop = {"brk": fall, "cont": rec}
            body = s.block(st.body, inner, rec)
            s.inloop = saved
            lty = dict(s.params).get(lst)
            lb = f"(l : {lty})" if lty else "l"
            s.aux.append(f"Fixpoint {lname} {lb} {' '.join([s.binder(v) for v in ctx] + [safe(v) for v in carried])} {{struct l}} :=\n"
                         f"  match l with\n  | [] => {fall(inner)}\n  | {pat} :: l' =>\n{textwrap.indent(body, '    ')}\n  end.\n")
            call = f"({lname} {env[lst]} " + " ".join([env[v] for v in ctx] + [env[v] for v in carried]) + ")"
            return s.after_loop(call, carried, has_ret, rest, env, k)
        raise Unsupported("for loop over " + ast.unparse(it)[:40])

    # ---------- whole function ----------
    def function(s, fn_or_stmts):
        stmts = fn_or_stmts.body if isinstance(fn_or_stmts, ast.FunctionDef) else fn_or_stmts
        env = {p: safe(p) for p, _ in s.params}

        def off_end(_env):
            raise Unsupported("falls off the end")
        if s.rec_fuel:
            s.mcalls[s.fname_py] = f"{s.fname} rfuel'"
        body = s.block(list(stmts), env, off_end)
        if s.fuels:
            raise Unsupported("unused fuel expressions")
        ps = " ".join(f"({safe(p)} : {t})" for p, t in s.params)
        if s.rec_fuel:
            main = (f"Fixpoint {s.fname} (rfuel : nat) {ps} {{struct rfuel}} : {s.rettype} :=\n"
                    f"  match rfuel with\n  | O => Err RuntimeErrorK\n  | S rfuel' =>\n{textwrap.indent(body, '    ')}\n  end.\n")
        else:
            main = f"Definition {s.fname} {ps} : {s.rettype} :=\n{textwrap.indent(body, '  ')}.\n"
        return "\n".join(s.aux) + "\n" + main


MODE = {"isinstance(text, str)": "is_str", "isinstance(text, bytes)": "(negb is_str)", "_byte_encoding": "be",
        "len(text)": "(zlen text)"}
ENC = {"'utf8'": "EUtf8", "'wide'": "EWide", "'narrow'": "ENarrow"}


def generate(repo):
    out = ["Inductive benc := EUtf8 | EWide | ENarrow.\n"]
    su = parse(repo, "urwid/str_util.py")
    ut = parse(repo, "urwid/util.py")

    # within_double_byte: self-recursive, one scan loop
    t = TrL("within_double_byte_gen", [("text", "list Z"), ("line_start", "Z"), ("pos", "Z")], "result Z",
            attr_params={"isinstance(text, bytes)": "true"}, lists=["text"], fuels=["pos - line_start"], rec_fuel=True)
    t.fname_py = "within_double_byte"
    out.append(t.function(find(su, "within_double_byte")))

    # calc_string_text_pos: for idx in range(...)
    t = TrL("calc_string_text_pos_gen", [("get_char_width", "Z -> Z"), ("text", "list Z"), ("start_offs", "Z"),
                                         ("end_offs", "Z"), ("pref_col", "Z")], "result (Z * Z)",
            builtins={"get_char_width": "get_char_width"}, lists=["text"])
    out.append(t.function(find(su, "calc_string_text_pos")))

    fparams = [("decode_one", "list Z -> Z -> result (Z * Z)"), ("get_width", "Z -> result Z"),
               ("within_double_byte", "list Z -> Z -> Z -> result Z")]
    # calc_text_pos
    t = TrL("calc_text_pos_gen", [("calc_string_text_pos", "list Z -> Z -> Z -> Z -> result (Z * Z)")] + fparams +
            [("is_str", "bool"), ("be", "benc"), ("text", "list Z"), ("start_offs", "Z"), ("end_offs", "Z"), ("pref_col", "Z")],
            "result (Z * Z)", enums=ENC, attr_params=MODE, lists=["text"],
            mcalls={"calc_string_text_pos": "calc_string_text_pos", "decode_one": "decode_one", "get_width": "get_width",
                    "within_double_byte": "within_double_byte"},
            fuels=["end_offs - start_offs"])
    out.append(t.function(find(su, "calc_text_pos")))

    # move_prev_char / move_next_char
    for nm, fuel in (("move_prev_char", "2 * len(text) + abs(end_offs) + 3"), ("move_next_char", "end_offs - start_offs")):
        t = TrL(nm + "_gen", [("within_double_byte", "list Z -> Z -> Z -> result Z"), ("is_str", "bool"), ("be", "benc"),
                              ("text", "list Z"), ("start_offs", "Z"), ("end_offs", "Z")], "result Z",
                enums=ENC, attr_params=MODE, lists=["text"], mcalls={"within_double_byte": "within_double_byte"},
                fuels=[fuel])
        out.append(t.function(find(su, nm)))

    # is_wide_char (no loop; dispatch + hoisted calls)
    t = TrL("is_wide_char_gen", [("get_char_width", "Z -> Z")] + fparams +
            [("is_str", "bool"), ("be", "benc"), ("text", "list Z"), ("offs", "Z")], "result bool",
            enums=ENC, attr_params=MODE, builtins={"get_char_width": "get_char_width"}, lists=["text"],
            mcalls={"decode_one": "decode_one", "get_width": "get_width", "within_double_byte": "within_double_byte"})
    out.append(t.function(find(su, "is_wide_char")))

    # calc_width: the fallback loop after the try block of the utf8 branch
    fn = find(su, "calc_width")
    blk = [st for st in fn.body if isinstance(st, ast.If) and ast.unparse(st.test) == "_byte_encoding == 'utf8'"]
    if len(blk) != 1:
        raise Unsupported("calc_width: utf8 branch not found")
    k = [i for i, st in enumerate(blk[0].body) if isinstance(st, ast.Try)]
    if len(k) != 1:
        raise Unsupported("calc_width: expected one try block in the utf8 branch")
    t = TrL("calc_width_fallback_gen", [("decode_one", "list Z -> Z -> result (Z * Z)"), ("get_width", "Z -> result Z"),
                                        ("text", "list Z"), ("start_offs", "Z"), ("end_offs", "Z")], "result Z",
            lists=["text"], mcalls={"decode_one": "decode_one", "get_width": "get_width"}, fuels=["end_offs - start_offs"])
    out.append(t.function(blk[0].body[k[0] + 1:]))

    # util.rle_get_at / rle_len / rle_subseg
    t = TrL("rle_get_at_gen", [("rle", "list (option Z * Z)"), ("pos", "Z")], "result (option Z)")
    out.append(t.function(find(ut, "rle_get_at")))
    t = TrL("rle_len_gen", [("rle", "list (option Z * Z)")], "result Z", attr_params={"isinstance(v, tuple)": "true"})
    out.append(t.function(find(ut, "rle_len")))
    t = TrL("rle_subseg_gen", [("rle", "list (option Z * Z)"), ("start", "Z"), ("end", "Z")], "result (list (option Z * Z))")
    out.append(t.function(find(ut, "rle_subseg")))
    return "urwid/str_util.py urwid/util.py", "\n".join(out)
