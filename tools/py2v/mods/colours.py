"""Gen/colours_gen.v : colour tables, bit masks and the numeric cores of the colour parsers /
describers of urwid/display/common.py (C18).

Everything is re-translated from the working tree on every run:
  * module-level integer constants and masks (expressions are translated, Coq evaluates them);
  * module-level tables: literal lists, list comprehensions, `+` concatenations, calls of
    `_value_lookup_table` / `int_scale` (the helpers are translated too and Coq computes the tables);
  * `int_scale` (urwid/util.py), `_value_lookup_table`, `_gray_num_256/_88`;
  * `_color_desc_true/_256/_88`, `_parse_color_256/_88/_true`, `_true_to_256` with the *string
    lexing abstracted*: a description string is a value of `desc` (Base/ColourBase.v) and every
    string expression of the source must appear in the ABS table below (source text -> Gallina over
    the lexical class); any string expression that is not listed is Unsupported (fail-closed);
  * `AttrSpec.colors` and the one-line flag/number properties, over `v = self.__value`.

Subscripts inside functions are checked (`get_index`, IndexError -> `Err IndexError`, threaded
with `bind`); subscripts in import-time table computations use the total `nth_d`.
`try: ... except ValueError: return None` is translated as its body: the only source of ValueError
is `int()`, and a string on which `int()` fails is lexed to `DBad`, for which every class test is false.

The class `ColTr` extends `py2v_core.Tr` here (py2v_core.py itself is untouched).
"""
import ast
import copy
import textwrap

from py2v_core import Tr, Unsupported, find
from mods.common import parse

NAME = "colours"
REL = "urwid/display/common.py"

# ---- lexical abstraction: Python source text -> Gallina template ({d} = current name of the string) ----
ABS = {
    "len(desc) > 4": "(s_len_gt4 {d})",
    "len(desc) == 7": "(s_len7 {d})",
    "len(desc) == 4": "(s_is_hash4 {d})",
    "desc.startswith('h')": "(s_is_h {d})",
    "desc.startswith('#') and len(desc) == 4": "(s_is_hash4 {d})",
    "desc.startswith('#') and len(desc) == 7": "(s_is_hash7 {d})",
    "desc.startswith('#')": "(s_is_hash {d})",
    "desc.startswith('g#')": "(s_is_ghash {d})",
    "desc.startswith('g')": "(s_is_g {d})",
    "int(desc[1:], 10)": "(s_int {d})",
    "int(desc[1:], 16)": "(s_int {d})",
    "int(desc[2:], 16)": "(s_int {d})",
    "int(f'0x{desc[1]}0{desc[2]}0{desc[3]}', 16)": "(s_expand4 {d})",
    "desc[0:2] + desc[3] + desc[5]": "(s_collapse7 {d})",
    "'#' + ''.join((format(int(x, 16) // 16, 'x') for x in (desc[1:3], desc[3:5], desc[5:7])))": "(s_hi_nibbles {d})",
    "self.__value": "v",
}
# f-string templates of the describers -> constructor functions of ColourBase.v
FSTR = {"h{:d}": "f_h", "g{:d}": "f_g", "#{:06x}": "f_true", "#{:x}{:x}{:x}": "f_cube3"}
SETTINGS = {"bold": "SBold", "italics": "SItalics", "underline": "SUnderline", "blink": "SBlink",
            "standout": "SStandout", "strikethrough": "SStrike"}

# module-level names, in source order: (python name, kind)
CONSTS = ["_BASIC_START", "_CUBE_START", "_CUBE_SIZE_256", "_GRAY_SIZE_256", "_GRAY_START_256", "_CUBE_WHITE_256",
          "_CUBE_SIZE_88", "_GRAY_SIZE_88", "_GRAY_START_88", "_CUBE_WHITE_88", "_CUBE_BLACK",
          "_FG_COLOR_MASK", "_BG_COLOR_MASK", "_FG_BASIC_COLOR", "_FG_HIGH_COLOR", "_FG_TRUE_COLOR",
          "_BG_BASIC_COLOR", "_BG_HIGH_COLOR", "_BG_TRUE_COLOR", "_BG_SHIFT", "_HIGH_88_COLOR", "_HIGH_TRUE_COLOR",
          "_STANDOUT", "_UNDERLINE", "_BOLD", "_BLINK", "_ITALICS", "_STRIKETHROUGH", "_FG_MASK", "_BG_MASK"]
TABLES1 = [("_CUBE_STEPS_256", "list Z"), ("_GRAY_STEPS_256", "list Z"), ("_CUBE_STEPS_88", "list Z"),
           ("_GRAY_STEPS_88", "list Z"), ("_BASIC_COLOR_VALUES", "list (Z * Z * Z)"),
           ("_COLOR_VALUES_256", "list (Z * Z * Z)"), ("_COLOR_VALUES_88", "list (Z * Z * Z)")]
TABLES2 = ["_CUBE_256_LOOKUP", "_GRAY_256_LOOKUP", "_CUBE_88_LOOKUP", "_GRAY_88_LOOKUP",
           "_CUBE_STEPS_256_16", "_GRAY_STEPS_256_101", "_CUBE_STEPS_88_16", "_GRAY_STEPS_88_101",
           "_CUBE_256_LOOKUP_16", "_GRAY_256_LOOKUP_101", "_CUBE_88_LOOKUP_16", "_GRAY_88_LOOKUP_101"]


def cname(py):
    return py.lstrip("_")


class ColTr(Tr):
    """Tr + lists, bit operations, checked subscripts, lexical abstraction, CPS statement translation."""

    def __init__(s, consts, lists, funcs, strvar=None):
        super().__init__({}, {}, {})
        s.consts = consts      # python module-level name -> coq name
        s.lists = lists        # python names that denote lists
        s.funcs = funcs        # python function name -> (coq name, 'pure' | 'result')
        s.strvar = strvar      # name of the string parameter (lexical abstraction applies to it)
        s.checked = False      # subscripts: get_index + bind (True) or nth_d (False)
        s.pending = []         # hoisted (tmp, result-expression) pairs of the statement being translated
        s.strdefs = {}         # local string variables -> defining AST (inlined before the ABS lookup)
        s.optvars = set()

    # ----- helpers -----
    def inline(s, e):
        if not s.strdefs:
            return e
        defs = s.strdefs

        class Sub(ast.NodeTransformer):
            def visit_Name(self, n):
                return copy.deepcopy(defs[n.id]) if n.id in defs else n
        return Sub().visit(copy.deepcopy(e))

    def abs_lookup(s, e, env):
        src = ast.unparse(s.inline(e))
        if src in ABS:
            d = env.get(s.strvar, s.strvar) if s.strvar else ""
            return ABS[src].format(d=d)
        return None

    def is_list(s, e, env):
        if isinstance(e, (ast.List, ast.ListComp)):
            return True
        if isinstance(e, ast.Name):
            return e.id in s.lists or env.get("$list:" + e.id, False)
        if isinstance(e, ast.BinOp) and isinstance(e.op, ast.Add):
            return s.is_list(e.left, env) or s.is_list(e.right, env)
        if isinstance(e, ast.BinOp) and isinstance(e.op, ast.Mult):
            return isinstance(e.left, ast.List)
        if isinstance(e, ast.Call) and ast.unparse(e.func) in s.funcs:
            return s.funcs[ast.unparse(e.func)][1] == "list"
        return False

    def iter_expr(s, it, env):
        if isinstance(it, ast.Call) and ast.unparse(it.func) == "range":
            a = [s.expr(x, env) for x in it.args]
            if len(a) == 1:
                return f"(zrange 0 {a[0]} 1)"
            if len(a) == 2:
                return f"(zrange {a[0]} {a[1]} 1)"
            raise Unsupported("range with a step")
        if s.is_list(it, env):
            return s.expr(it, env)
        raise Unsupported(f"iteration over {ast.unparse(it)}")

    # ----- expressions -----
    def expr(s, e, env):
        a = s.abs_lookup(e, env)
        if a is not None:
            return a
        if isinstance(e, ast.Name):
            if e.id in env:
                return env[e.id]
            if e.id in s.consts:
                return s.consts[e.id]
            raise Unsupported(f"unbound name {e.id}")
        if isinstance(e, ast.Constant) and isinstance(e.value, str):
            raise Unsupported(f"string expression outside the abstraction table: {ast.unparse(e)}")
        if isinstance(e, ast.UnaryOp) and isinstance(e.op, ast.Invert):
            return f"(Z.lnot {s.expr(e.operand, env)})"
        if isinstance(e, ast.BinOp):
            if isinstance(e.op, ast.Add) and s.is_list(e, env):
                return f"({s.expr(e.left, env)} ++ {s.expr(e.right, env)})"
            if isinstance(e.op, ast.Mult) and isinstance(e.left, ast.List):
                if len(e.left.elts) != 1:
                    raise Unsupported("list repetition of a non-singleton")
                return f"(repeat_z {s.expr(e.left.elts[0], env)} {s.expr(e.right, env)})"
            ops = {ast.Pow: "Z.pow", ast.BitOr: "Z.lor", ast.BitAnd: "Z.land", ast.LShift: "Z.shiftl",
                   ast.RShift: "Z.shiftr"}
            if type(e.op) in ops:
                return f"({ops[type(e.op)]} {s.expr(e.left, env)} {s.expr(e.right, env)})"
            return super().expr(e, env)
        if isinstance(e, ast.List):
            segs, cur = [], []
            for x in e.elts:
                if isinstance(x, ast.Starred):
                    if cur:
                        segs.append("[" + "; ".join(cur) + "]")
                        cur = []
                    segs.append(s.expr(x.value, env))
                else:
                    cur.append(s.expr(x, env))
            if cur:
                segs.append("[" + "; ".join(cur) + "]")
            if not segs:
                return "(@nil Z)"
            return segs[0] if len(segs) == 1 else "(" + " ++ ".join(segs) + ")"
        if isinstance(e, ast.ListComp):
            env2 = dict(env)
            names = []
            for g in e.generators:
                if g.ifs or g.is_async or not isinstance(g.target, ast.Name):
                    raise Unsupported("comprehension with a filter / pattern target")
            its = []
            for g in e.generators:
                its.append(s.iter_expr(g.iter, env2))
                nm = s.newname(g.target.id)
                env2[g.target.id] = nm
                names.append(nm)
            body = s.expr(e.elt, env2)
            out = f"(map (fun {names[-1]} => {body}) {its[-1]})"
            for nm, it in zip(reversed(names[:-1]), reversed(its[:-1])):
                out = f"(flat_map (fun {nm} => {out}) {it})"
            return out
        if isinstance(e, ast.Subscript):
            if isinstance(e.slice, ast.Slice):
                raise Unsupported(f"slice {ast.unparse(e)}")
            lst, idx = s.expr(e.value, env), s.expr(e.slice, env)
            if not s.checked:
                return f"(nth_d {lst} {idx})"
            tmp = s.newname("t")
            s.pending.append((tmp, f"(get_index {lst} {idx})"))
            return tmp
        if isinstance(e, ast.JoinedStr):
            tpl, args = "", []
            for part in e.values:
                if isinstance(part, ast.Constant):
                    tpl += part.value
                else:
                    spec = ast.unparse(part.format_spec)[2:-1] if part.format_spec else ""
                    tpl += "{:" + spec + "}"
                    args.append(s.expr(part.value, env))
            if tpl not in FSTR:
                raise Unsupported(f"f-string template {tpl!r}")
            return "(" + FSTR[tpl] + " " + " ".join(args) + ")"
        if isinstance(e, ast.Call):
            f = ast.unparse(e.func)
            if f == "len" and len(e.args) == 1:
                return f"(zlen {s.expr(e.args[0], env)})"
            if f in s.funcs:
                cn, kind = s.funcs[f]
                call = "(" + cn + " " + " ".join(s.expr(a, env) for a in e.args) + ")"
                if kind in ("pure", "list"):
                    return call
                if not s.checked:
                    raise Unsupported(f"call of the partial function {f} in a total context")
                tmp = s.newname("t")
                s.pending.append((tmp, call))
                return tmp
            return super().expr(e, env)
        return super().expr(e, env)

    def bexpr(s, e, env):
        a = s.abs_lookup(e, env)
        if a is not None:
            return a
        if isinstance(e, (ast.BinOp, ast.Subscript, ast.Call)):        # truthiness of an integer
            return f"(negb ({s.expr(e, env)} =? 0))"
        return super().bexpr(e, env)

    # ----- statements, continuation style with the rest duplicated into each branch -----
    def flush(s, body):
        pend, s.pending = s.pending, []
        for tmp, rex in reversed(pend):
            body = f"bind {rex} (fun {tmp} =>\n{body})"
        return body

    def after(s, head, rest, env):
        """head (whose hoisted operations are pending) followed by the translation of rest"""
        pend, s.pending = s.pending, []
        body = s.block(rest, env)
        s.pending = pend
        return s.flush(head + body)

    def ret(s, e, env):
        k = s.kind
        if k in ("int", "list"):
            r = s.expr(e, env)
            if s.pending:
                raise Unsupported("partial operation in a total function")
            return r
        if isinstance(e, ast.Constant) and e.value is None:
            return "Ok None"
        if k == "opt" or k == "optdesc":
            if isinstance(e, ast.Name) and e.id in s.optvars:
                return s.flush(f"Ok {env[e.id]}")
            return s.flush(f"Ok (Some {s.expr(e, env)})")
        if k == "desc":
            return s.flush(f"Ok {s.expr(e, env)}")
        raise Unsupported("return kind " + k)

    def block(s, stmts, env, k=None):
        if not stmts:
            raise Unsupported("control falls off the end of the function")
        st, rest = stmts[0], list(stmts[1:])
        if isinstance(st, ast.Expr) and isinstance(st.value, ast.Constant):
            return s.block(rest, env)
        if isinstance(st, ast.Return):
            return s.ret(st.value, env)
        if isinstance(st, ast.Raise):
            exc = ast.unparse(st.exc.func if isinstance(st.exc, ast.Call) else st.exc)
            if s.kind in ("int", "list") or exc not in ("ValueError", "IndexError"):
                raise Unsupported(f"raise {exc}")
            return f"Err {exc}"
        if isinstance(st, ast.Try):
            if not (len(st.handlers) == 1 and ast.unparse(st.handlers[0].type) == "ValueError"
                    and ast.unparse(st.handlers[0].body[0]) == "return None" and not st.orelse and not st.finalbody):
                raise Unsupported("try statement other than `except ValueError: return None`")
            return s.block(list(st.body) + rest, env)
        if isinstance(st, ast.AugAssign):
            st = ast.Assign(targets=[st.target], value=ast.BinOp(left=ast.Name(id=st.target.id, ctx=ast.Load()),
                                                                op=st.op, right=st.value))
        if isinstance(st, ast.Assign):
            if len(st.targets) != 1:
                raise Unsupported("chained assignment")
            t = st.targets[0]
            if isinstance(t, ast.Name):
                # a local string variable: remember its definition, translate nothing
                if s.strvar and t.id != s.strvar and s.mentions_str(st.value, env):
                    saved = s.strdefs
                    s.strdefs = dict(saved)
                    s.strdefs[t.id] = s.inline(st.value)
                    try:
                        return s.block(rest, env)
                    finally:
                        s.strdefs = saved
                val = s.expr(st.value, env)
                nm = s.newname(t.id)
                env2 = dict(env)
                env2[t.id] = nm
                if s.is_list(st.value, env):
                    env2["$list:" + t.id] = True
                if isinstance(st.value, ast.Call) and s.funcs.get(ast.unparse(st.value.func), ("", ""))[1] == "result-opt":
                    s.optvars = s.optvars | {t.id}
                return s.after(f"let {nm} := {val} in\n", rest, env2)
            if isinstance(t, ast.Tuple) and all(isinstance(x, ast.Name) for x in t.elts):
                val = s.expr(st.value, env)
                env2 = dict(env)
                nms = []
                for x in t.elts:
                    nm = s.newname(x.id)
                    env2[x.id] = nm
                    nms.append(nm)
                pat = nms[0]
                for nm in nms[1:]:
                    pat = f"({pat}, {nm})"
                return s.after(f"let '{pat} := {val} in\n", rest, env2)
            raise Unsupported(f"assignment target {ast.unparse(t)}")
        if isinstance(st, ast.If):
            return s.if_stmt(st, rest, env)
        if isinstance(st, ast.For):
            return s.for_stmt(st, rest, env)
        raise Unsupported(f"statement {type(st).__name__}: {ast.unparse(st)[:60]}")

    def mentions_str(s, e, env):
        """is e a string-valued expression over the string parameter (a slice of it or an f-string)?"""
        if isinstance(e, ast.JoinedStr):
            return True
        return (isinstance(e, ast.Subscript) and isinstance(e.value, ast.Name)
                and (e.value.id == s.strvar or e.value.id in s.strdefs))

    def if_stmt(s, st, rest, env):
        test = st.test
        body, orelse = list(st.body) + rest, list(st.orelse) + rest
        # x is None / x is not None on an option-valued local
        if isinstance(test, ast.Compare) and len(test.ops) == 1 and isinstance(test.ops[0], (ast.Is, ast.IsNot)) \
                and ast.unparse(test.comparators[0]) == "None":
            left = test.left
            pre = None
            if isinstance(left, ast.NamedExpr):
                call = s.expr(left.value, env)
                if not s.pending or s.pending[-1][0] != call:
                    raise Unsupported("walrus on something that is not a partial call")
                var = left.target.id
                scrut = call
            elif isinstance(left, ast.Name) and left.id in s.optvars:
                var, scrut = left.id, env[left.id]
            else:
                raise Unsupported(f"None test on {ast.unparse(left)}")
            payload = s.newname(var)
            env_some = dict(env)
            env_some[var] = payload
            saved = s.optvars
            pend, s.pending = s.pending, []
            s.optvars = saved - {var}
            some_b = s.block(body if isinstance(test.ops[0], ast.IsNot) else orelse, env_some)
            s.optvars = saved
            none_b = s.block(orelse if isinstance(test.ops[0], ast.IsNot) else body, env)
            s.pending = pend
            return s.flush(f"match {scrut} with\n| Some {payload} =>\n{textwrap.indent(some_b, '  ')}\n| None =>\n{textwrap.indent(none_b, '  ')}\nend")
        # (x := E) <cmp> ...   : bind x first (it is the leftmost operand)
        prefix = ""
        if isinstance(test, ast.Compare) and isinstance(test.left, ast.NamedExpr):
            ne = test.left
            val = s.expr(ne.value, env)
            nm = s.newname(ne.target.id)
            env = dict(env)
            env[ne.target.id] = nm
            prefix = f"let {nm} := {val} in\n"
            test = ast.Compare(left=ast.Name(id=ne.target.id, ctx=ast.Load()), ops=test.ops, comparators=test.comparators)
        for n in ast.walk(test):
            if isinstance(n, ast.NamedExpr):
                raise Unsupported("walrus in an unsupported position")
        cond = s.bexpr(test, env)
        if s.pending and not prefix:
            raise Unsupported("partial operation inside a condition")
        pend, s.pending = s.pending, []
        then_b = s.block(body, env)
        else_b = s.block(orelse, env)
        s.pending = pend
        return s.flush(prefix + f"if {cond} then\n{textwrap.indent(then_b, '  ')}\nelse\n{textwrap.indent(else_b, '  ')}")

    def for_stmt(s, st, rest, env):
        """for i in range(..): <assignments>; acc.extend(E)   ->   fold_left over zrange."""
        if st.orelse or not isinstance(st.target, ast.Name):
            raise Unsupported("for/else or pattern target")
        last = st.body[-1]
        if not (isinstance(last, ast.Expr) and isinstance(last.value, ast.Call) and isinstance(last.value.func, ast.Attribute)
                and last.value.func.attr == "extend" and isinstance(last.value.func.value, ast.Name)):
            raise Unsupported("loop body must end with acc.extend(...)")
        acc = last.value.func.value.id
        if acc not in env:
            raise Unsupported("accumulator is not initialised before the loop")
        it = s.iter_expr(st.iter, env)
        a, i = s.newname(acc), s.newname(st.target.id)
        env_b = dict(env)
        env_b[acc], env_b[st.target.id] = a, i
        inner = ""
        for b in st.body[:-1]:
            if not (isinstance(b, ast.Assign) and len(b.targets) == 1 and isinstance(b.targets[0], ast.Name)):
                raise Unsupported("loop body statement " + ast.unparse(b)[:40])
            if b.targets[0].id == acc:
                raise Unsupported("accumulator reassigned")
            nm = s.newname(b.targets[0].id)
            inner += f"let {nm} := {s.expr(b.value, env_b)} in "
            env_b[b.targets[0].id] = nm
        ext = s.expr(last.value.args[0], env_b)
        if s.pending:
            raise Unsupported("partial operation in a loop")
        nm = s.newname(acc)
        env2 = dict(env)
        env2[acc] = nm
        return f"let {nm} := fold_left (fun {a} {i} => {inner}({a} ++ {ext})) {it} {env[acc]} in\n" + s.block(rest, env2)

    def function(s, fn, params, coqname, kind, checked):
        """params: [(python name, coq name, coq type)]"""
        s.kind, s.checked, s.pending, s.strdefs, s.optvars = kind, checked, [], {}, set()
        env = {p: c for p, c, _ in params}
        for p, c, t in params:
            if t.startswith("list"):
                env["$list:" + p] = True
        body = s.block(list(fn.body), env)
        rty = {"int": "Z", "list": "list Z", "opt": "result (option Z)", "desc": "result desc",
               "optdesc": "result (option desc)"}[kind]
        ps = " ".join(f"({c} : {t})" for _, c, t in params)
        return f"Definition {coqname} {ps} : {rty} :=\n{textwrap.indent(body, '  ')}.\n"


class EndTry(ast.stmt):
    """marks the end of a try body inside the flattened statement list; restores the outer handler"""
    _fields = ()

    def __init__(self, outer):
        super().__init__()
        self.outer = outer


class StrTr(ColTr):
    """String-level translation: a Python str is a list of code points (Base/ColourStr.v).
    startswith / len / slicing / + / f-strings / format / "".join over a tuple / int(s, base) are
    translated; int() is partial (ValueError): inside `try: ... except ValueError: return None` a failing
    int() yields the handler's value, elsewhere `Err ValueError`."""

    def abs_lookup(s, e, env):
        src = ast.unparse(e)
        return "v" if src == "self.__value" else None

    @staticmethod
    def lit(t):
        return "[" + "; ".join(str(ord(c)) for c in t) + "]" if t else "(@nil Z)"

    def is_str(s, e, env):
        if isinstance(e, ast.Constant):
            return isinstance(e.value, str)
        if isinstance(e, ast.JoinedStr):
            return True
        if isinstance(e, ast.Name):
            return bool(env.get("$str:" + e.id, False))
        if isinstance(e, ast.Subscript):
            return s.is_str(e.value, env)
        if isinstance(e, ast.BinOp) and isinstance(e.op, ast.Add):
            return s.is_str(e.left, env) or s.is_str(e.right, env)
        if isinstance(e, ast.Call):
            if isinstance(e.func, ast.Attribute) and e.func.attr == "join":
                return True
            return ast.unparse(e.func) == "format"
        return False

    def const_index(s, e):
        if e is None:
            return None
        if isinstance(e, ast.Constant) and isinstance(e.value, int) and e.value >= 0:
            return e.value
        raise Unsupported(f"non-constant or negative string index {ast.unparse(e)}")

    def sexpr(s, e, env):
        if isinstance(e, ast.Constant) and isinstance(e.value, str):
            return s.lit(e.value)
        if isinstance(e, ast.Name):
            return env[e.id]
        if isinstance(e, ast.Subscript):
            base = s.sexpr(e.value, env)
            if isinstance(e.slice, ast.Slice):
                if e.slice.step is not None:
                    raise Unsupported("string slice with a step")
                lo, hi = s.const_index(e.slice.lower) or 0, s.const_index(e.slice.upper)
                if hi is None:
                    return f"(str_from {base} {lo})"
                if hi < lo:
                    raise Unsupported("string slice with upper < lower")
                return f"(str_slice {base} {lo} {hi})"
            return f"(str_at {base} {s.const_index(e.slice)})"
        if isinstance(e, ast.BinOp) and isinstance(e.op, ast.Add):
            return f"({s.sexpr(e.left, env)} ++ {s.sexpr(e.right, env)})"
        if isinstance(e, ast.JoinedStr):
            segs = []
            for part in e.values:
                if isinstance(part, ast.Constant):
                    segs.append(s.lit(part.value))
                    continue
                spec = ast.unparse(part.format_spec)[2:-1] if part.format_spec else ""
                if part.conversion != -1:
                    raise Unsupported("f-string conversion")
                if spec == "" and s.is_str(part.value, env):
                    segs.append(s.sexpr(part.value, env))
                elif spec == "d":
                    segs.append(f"(fmt_d {s.expr(part.value, env)})")
                elif spec == "x":
                    segs.append(f"(fmt_x {s.expr(part.value, env)})")
                elif spec == "06x":
                    segs.append(f"(fmt_x_pad 6 {s.expr(part.value, env)})")
                else:
                    raise Unsupported(f"format specification {spec!r}")
            return "(" + " ++ ".join(segs) + ")" if segs else "(@nil Z)"
        if isinstance(e, ast.Call):
            f = ast.unparse(e.func)
            if f == "format" and len(e.args) == 2 and isinstance(e.args[1], ast.Constant) and e.args[1].value in ("x", "d"):
                return f"(fmt_{e.args[1].value} {s.expr(e.args[0], env)})"
            if isinstance(e.func, ast.Attribute) and e.func.attr == "join":
                if not (isinstance(e.func.value, ast.Constant) and e.func.value.value == "" and len(e.args) == 1
                        and isinstance(e.args[0], ast.GeneratorExp)):
                    raise Unsupported("join other than ''.join(generator)")
                g = e.args[0]
                if len(g.generators) != 1 or g.generators[0].ifs or not isinstance(g.generators[0].target, ast.Name) \
                        or not isinstance(g.generators[0].iter, ast.Tuple):
                    raise Unsupported("generator that is not `for x in (a, b, ...)`")
                var = g.generators[0].target.id
                segs = []
                for el in g.generators[0].iter.elts:          # unrolled, in evaluation order
                    env2 = dict(env)
                    env2[var] = s.sexpr(el, env)
                    env2["$str:" + var] = True
                    segs.append(s.sexpr(g.elt, env2))
                return "(" + " ++ ".join(segs) + ")" if segs else "(@nil Z)"
        raise Unsupported(f"string expression {ast.unparse(e)}")

    def expr(s, e, env):
        if s.is_str(e, env):
            return s.sexpr(e, env)
        if isinstance(e, ast.Call) and ast.unparse(e.func) == "int" and len(e.args) == 2 and s.is_str(e.args[0], env):
            b = e.args[1]
            if not (isinstance(b, ast.Constant) and b.value in (10, 16)):
                raise Unsupported("int() with a base other than 10 / 16")
            tmp = s.newname("n")
            s.pending.append((tmp, f"(py_int {b.value} {s.sexpr(e.args[0], env)})", env.get("$handler", "Err ValueError")))
            return tmp
        return super().expr(e, env)

    def bexpr(s, e, env):
        if isinstance(e, ast.Call) and isinstance(e.func, ast.Attribute) and e.func.attr == "startswith" \
                and len(e.args) == 1 and isinstance(e.args[0], ast.Constant) and isinstance(e.args[0].value, str):
            return f"(startswith {s.sexpr(e.func.value, env)} {s.lit(e.args[0].value)})"
        return super().bexpr(e, env)

    def flush(s, body):
        pend, s.pending = s.pending, []
        for ent in reversed(pend):
            if len(ent) == 2:
                body = f"bind {ent[1]} (fun {ent[0]} =>\n{body})"
            else:
                body = f"match {ent[1]} with\n| Some {ent[0]} =>\n{textwrap.indent(body, '  ')}\n| None => {ent[2]}\nend"
        return body

    def block(s, stmts, env, k=None):
        if stmts:
            st, rest = stmts[0], list(stmts[1:])
            if isinstance(st, EndTry):
                env2 = dict(env)
                env2["$handler"] = st.outer
                return s.block(rest, env2)
            if isinstance(st, ast.Try):
                if not (len(st.handlers) == 1 and ast.unparse(st.handlers[0].type) == "ValueError"
                        and ast.unparse(st.handlers[0].body[0]) == "return None" and len(st.handlers[0].body) == 1
                        and not st.orelse and not st.finalbody):
                    raise Unsupported("try statement other than `except ValueError: return None`")
                env2 = dict(env)
                env2["$handler"] = "Ok None"
                return s.block(list(st.body) + [EndTry(env.get("$handler", "Err ValueError"))] + rest, env2)
            if isinstance(st, ast.Assign) and len(st.targets) == 1 and isinstance(st.targets[0], ast.Name) \
                    and s.is_str(st.value, env):
                val = s.sexpr(st.value, env)
                nm = s.newname(st.targets[0].id)
                env2 = dict(env)
                env2[st.targets[0].id] = nm
                env2["$str:" + st.targets[0].id] = True
                return s.after(f"let {nm} := {val} in\n", rest, env2)
        return super().block(stmts, env)

    def function(s, fn, params, coqname, kind, checked=True):
        s.kind, s.checked, s.pending, s.strdefs, s.optvars = kind, True, [], {}, set()
        env = {p: c for p, c, _ in params}
        for p, c, t in params:
            if t == "str":
                env["$str:" + p] = True
        body = s.block(list(fn.body), env)
        rty = {"opt": "result (option Z)", "desc": "result str", "optdesc": "result (option str)"}[kind]
        ps = " ".join(f"({c} : {t})" for _, c, t in params)
        return f"Definition {coqname} {ps} : {rty} :=\n{textwrap.indent(body, '  ')}.\n"


class LoopEnd(ast.stmt):
    """end of a loop body inside the flattened statement list: yield the carried variables"""
    _fields = ()


# raise AttrSpecError(f"...") sites, identified by a fragment of the message (the same table the harness uses)
WHY = [("specified more than once", 1), ("Unrecognised color specification in background", 4),
       ("Unrecognised color specification", 2), ("More than one color", 3), ("require more colors", 5),
       ("invalid number of colors", 6)]
PROPS_INT = {"colors": "attr_colors", "foreground_number": "attr_foreground_number",
             "background_number": "attr_background_number"}
PROPS_BOOL = ["foreground_basic", "foreground_high", "foreground_true", "background_basic", "background_high",
              "background_true", "italics", "bold", "underline", "blink", "standout", "strikethrough"]
TRIPLE_TABLES = ("_BASIC_COLOR_VALUES", "_COLOR_VALUES_256", "_COLOR_VALUES_88")


class MethTr(StrTr):
    """The methods of AttrSpec on strings.  self.__value is threaded as a state variable; mutators and
    __init__ return `res Z` (the new value, or the exception with the number of its raise statement);
    the describers return `result str`, get_rgb_values `result (list (option Z))`.
    Loops `for part in s.split(","): ...` with `continue` / `raise` become a fold over the parts whose
    state is `res` of the loop-carried variables."""

    def __init__(s, consts, lists, funcs, methods):
        super().__init__(consts, lists, funcs, None)
        s.methods = methods        # self.<name>(...) -> (coq name, 'state' | 'desc' | 'res')

    def abs_lookup(s, e, env):
        return env["$self"] if ast.unparse(e) == "self.__value" else None

    # ----- typing helpers (all state is kept in env, so that duplicated continuations do not interfere) -----
    @staticmethod
    def is_opt(env, name):
        return bool(env.get("$opt:" + name, False))

    def is_str(s, e, env):
        if isinstance(e, ast.Call) and isinstance(e.func, ast.Attribute) and e.func.attr == "strip" and not e.args:
            return s.is_str(e.func.value, env)
        if isinstance(e, ast.Subscript) and ast.unparse(e.value) == "_BASIC_COLORS":
            return True
        if isinstance(e, ast.BinOp) and isinstance(e.op, ast.Mult):
            return isinstance(e.left, ast.Constant) and isinstance(e.left.value, str)
        if isinstance(e, ast.BoolOp) and isinstance(e.op, ast.Or):
            return s.is_str(e.values[-1], env)
        if isinstance(e, ast.Call) and isinstance(e.func, ast.Attribute) and ast.unparse(e.func.value) == "self" \
                and s.methods.get(e.func.attr, ("", ""))[1] == "desc":
            return True
        if isinstance(e, ast.Attribute) and ast.unparse(e.value) == "self" and s.methods.get(e.attr, ("", "", ""))[1:] == ("desc", "property"):
            return True
        if isinstance(e, ast.Call) and ast.unparse(e.func) in s.funcs and s.funcs[ast.unparse(e.func)][1] == "result":
            return True
        return super().is_str(e, env)

    def selfprop(s, e):
        return e.attr if isinstance(e, ast.Attribute) and ast.unparse(e.value) == "self" else None

    def sexpr(s, e, env):
        if isinstance(e, ast.Call) and isinstance(e.func, ast.Attribute) and e.func.attr == "strip" and not e.args:
            return f"(strip {s.sexpr(e.func.value, env)})"
        if isinstance(e, ast.Subscript) and ast.unparse(e.value) == "_BASIC_COLORS":
            tmp = s.newname("t")
            s.pending.append((tmp, f"(get_index BASIC_COLORS {s.expr(e.slice, env)})"))
            return tmp
        if isinstance(e, ast.BinOp) and isinstance(e.op, ast.Mult) and isinstance(e.left, ast.Constant):
            p = s.selfprop(e.right)
            if p not in PROPS_BOOL:
                raise Unsupported("string repetition by something that is not a boolean property")
            return f"(times {s.lit(e.left.value)} (attr_{p} {env['$self']}))"
        if isinstance(e, ast.BoolOp) and isinstance(e.op, ast.Or) and len(e.values) == 2:
            l, r = e.values
            if not (isinstance(l, ast.Call) and s.funcs.get(ast.unparse(l.func), ("", ""))[1] == "result"
                    and ast.unparse(l.func) == "_true_to_256"):
                raise Unsupported("`or` on strings other than _true_to_256(x) or x")
            t = s.expr(l, env)          # hoisted: an option str
            return f"(match {t} with Some (c_ :: r_) => c_ :: r_ | _ => {s.sexpr(r, env)} end)"
        if isinstance(e, ast.Call) and isinstance(e.func, ast.Attribute) and ast.unparse(e.func.value) == "self":
            cn, kind = s.methods[e.func.attr][:2]
            if kind != "desc" or e.args:
                raise Unsupported("call of " + e.func.attr)
            tmp = s.newname("t")
            s.pending.append((tmp, f"({cn} {env['$self']})"))
            return tmp
        if s.selfprop(e) in s.methods and s.methods[s.selfprop(e)][1] == "desc":
            tmp = s.newname("t")
            s.pending.append((tmp, f"({s.methods[e.attr][0]} {env['$self']})"))
            return tmp
        if isinstance(e, ast.Call) and ast.unparse(e.func) in s.funcs and s.funcs[ast.unparse(e.func)][1] == "result":
            return ColTr.expr(s, e, env)       # hoisted result-valued call (a describer)
        return super().sexpr(e, env)

    def expr(s, e, env):
        p = s.selfprop(e)
        if ast.unparse(e) == "other._value" and "other" in env:
            return env["other"]
        if p in PROPS_INT:
            return f"({PROPS_INT[p]} {env['$self']})"
        if isinstance(e, ast.Constant) and e.value is None:
            return "None"
        if isinstance(e, ast.Compare) and len(e.ops) == 1 and isinstance(e.ops[0], ast.Eq) and env.get("$arith"):
            return f"(b2z {s.bexpr(e, env)})"
        if isinstance(e, ast.BinOp) and isinstance(e.op, ast.Mult) and isinstance(e.right, ast.Compare):
            return f"({s.expr(e.left, env)} * (b2z {s.bexpr(e.right, env)}))"
        if isinstance(e, ast.Call) and isinstance(e.func, ast.Attribute) and e.func.attr == "index" and len(e.args) == 1:
            key = "$idx:" + ast.unparse(e.func.value) + ":" + ast.unparse(e.args[0])
            if key in env:
                return env[key]
            raise Unsupported("index() outside the matching membership test")
        if isinstance(e, ast.Subscript) and ast.unparse(e.value) == "_ATTRIBUTES":
            key = "$attr:" + ast.unparse(e.slice)
            if key in env:
                return f"(ATTRIBUTES {env[key]})"
            raise Unsupported("_ATTRIBUTES[x] outside `if x in _ATTRIBUTES`")
        if isinstance(e, ast.Subscript) and ast.unparse(e.value) in TRIPLE_TABLES:
            tmp = s.newname("t")
            s.pending.append((tmp, f"(get_index {s.consts[ast.unparse(e.value)]} {s.expr(e.slice, env)})"))
            return f"(opt3 {tmp})"
        if isinstance(e, ast.Tuple) and s.kind == "optlist":
            return s.optlist(e, env)
        return super().expr(e, env)

    def optlist(s, e, env):
        """a tuple of `int | None` components as a list (option Z)"""
        if isinstance(e, ast.Name):
            return env[e.id]
        if isinstance(e, ast.Subscript) and ast.unparse(e.value) in TRIPLE_TABLES:
            return s.expr(e, env)
        if isinstance(e, ast.BinOp) and isinstance(e.op, ast.Add):
            return f"({s.optlist(e.left, env)} ++ {s.optlist(e.right, env)})"
        if isinstance(e, ast.Tuple):
            segs, cur = [], []
            for x in e.elts:
                if isinstance(x, ast.Starred):
                    if cur:
                        segs.append("[" + "; ".join(cur) + "]")
                        cur = []
                    segs.append(s.optlist(x.value, env))
                elif isinstance(x, ast.Constant) and x.value is None:
                    cur.append("None")
                else:
                    cur.append(f"Some {s.expr(x, env)}")
            if cur:
                segs.append("[" + "; ".join(cur) + "]")
            return segs[0] if len(segs) == 1 else "(" + " ++ ".join(segs) + ")"
        if isinstance(e, ast.Call) and ast.unparse(e.func) == "tuple" and len(e.args) == 1 and isinstance(e.args[0], ast.GeneratorExp):
            g = e.args[0]
            if len(g.generators) != 1 or g.generators[0].ifs or not isinstance(g.generators[0].iter, ast.Tuple) \
                    or not isinstance(g.generators[0].target, ast.Name):
                raise Unsupported("tuple(generator) that is not `for x in (a, b, ...)`")
            var = g.generators[0].target.id
            out = []
            for el in g.generators[0].iter.elts:
                env2 = dict(env)
                env2[var] = s.sexpr(el, env)
                env2["$str:" + var] = True
                out.append(f"Some {s.expr(g.elt, env2)}")
            return "[" + "; ".join(out) + "]"
        raise Unsupported(f"tuple expression {ast.unparse(e)}")

    def bexpr(s, e, env):
        p = s.selfprop(e)
        if p in PROPS_BOOL:
            return f"(attr_{p} {env['$self']})"
        if isinstance(e, ast.Compare) and len(e.ops) == 1 and isinstance(e.ops[0], (ast.In, ast.NotIn)) \
                and isinstance(e.comparators[0], ast.Set):
            elts = e.comparators[0].elts
            if all(isinstance(x, ast.Constant) and isinstance(x.value, str) for x in elts):
                x = s.sexpr(e.left, env)
                r = "(" + " || ".join(f"str_eqb {x} {s.lit(c.value)}" for c in elts) + ")"
            else:
                x = s.expr(e.left, env)
                r = "(" + " || ".join(f"({x} =? {s.expr(c, env)})" for c in elts) + ")"
            return r if isinstance(e.ops[0], ast.In) else f"(negb {r})"
        if isinstance(e, ast.Call) and ast.unparse(e.func) == "isinstance":
            if ast.unparse(e) == "isinstance(other, AttrSpec)":
                return "true"          # typing assumption: the other operand is an AttrSpec (given by its value)
            raise Unsupported("isinstance")
        if isinstance(e, ast.Compare) and s.kind == "bool":
            return super().bexpr(e, env)
        return super().bexpr(e, env)

    # ----- statements -----
    def flush(s, body):
        pend, s.pending = s.pending, []
        for ent in reversed(pend):
            if len(ent) == 3:
                body = f"match {ent[1]} with\n| Some {ent[0]} =>\n{textwrap.indent(body, '  ')}\n| None => {ent[2]}\nend"
            elif len(ent) == 4:
                body = f"rbind {ent[1]} (fun {ent[0]} =>\n{body})"
            elif s.kind in ("state", "res"):
                body = f"match {ent[1]} with\n| Ok {ent[0]} =>\n{textwrap.indent(body, '  ')}\n| Err e_ => RErr e_ 0\nend"
            else:
                body = f"bind {ent[1]} (fun {ent[0]} =>\n{body})"
        return body

    def default_handler(s):
        return "RErr ValueError 0" if s.kind in ("state", "res") else "Err ValueError"

    def carried_tuple(s, env):
        vals = []
        for name, opt in s.carried:
            v = env[name]
            vals.append(v if (not opt or s.is_opt(env, name)) else f"(Some {v})")
        out = vals[0]
        for v in vals[1:]:
            out = f"({out}, {v})"
        return out

    def ret(s, e, env):
        if s.kind == "optlist":
            v = s.optlist(e, env)
            return s.flush(f"Ok {v}")
        if s.kind == "desc":
            return s.flush(f"Ok {s.sexpr(e, env)}")
        if s.kind == "bool":
            r = s.bexpr(e, env)
            if s.pending:
                raise Unsupported("partial operation in a boolean method")
            return r
        if s.kind == "res":
            # return self.__class__(a, b, c)
            if isinstance(e, ast.Call) and ast.unparse(e.func) == "self.__class__":
                return s.flush("(" + s.methods["__init__"][0] + " " + " ".join(s.expr(a, env) for a in e.args) + ")")
        raise Unsupported("return in a method of kind " + s.kind)

    def block(s, stmts, env, k=None):
        if not stmts:
            if s.kind == "state":
                return f"ROk {env['$self']}"
            raise Unsupported("control falls off the end of the method")
        st, rest = stmts[0], list(stmts[1:])
        if isinstance(st, ast.Expr) and isinstance(st.value, ast.Constant):
            return s.block(rest, env)
        if isinstance(st, LoopEnd) or isinstance(st, ast.Continue):
            return f"ROk {s.carried_tuple(env)}"
        if isinstance(st, ast.Return):
            return s.ret(st.value, env)
        if isinstance(st, ast.Raise):
            exc = ast.unparse(st.exc.func if isinstance(st.exc, ast.Call) else st.exc)
            if exc == "AttrSpecError":
                msg = ast.unparse(st.exc)
                code = next((c for frag, c in WHY if frag in msg), None)
                if code is None or s.kind not in ("state", "res"):
                    raise Unsupported("unknown AttrSpecError raise site: " + msg[:60])
                return f"RErr AttrSpecError {code}"
            if exc == "ValueError":
                return "RErr ValueError 0" if s.kind in ("state", "res") else "Err ValueError"
            raise Unsupported("raise " + exc)
        if isinstance(st, ast.AugAssign):
            st = ast.Assign(targets=[st.target], value=ast.BinOp(left=copy.deepcopy(st.target), op=st.op, right=st.value))
            for n in ast.walk(st.value.left):
                if hasattr(n, "ctx"):
                    n.ctx = ast.Load()
        if isinstance(st, ast.Assign):
            if len(st.targets) != 1:
                raise Unsupported("chained assignment")
            t = st.targets[0]
            if ast.unparse(t) == "self.__value":
                env1 = dict(env)
                env1["$arith"] = True
                val = s.expr(st.value, env1)
                nm = s.newname("v")
                env2 = dict(env)
                env2["$self"] = nm
                return s.after(f"let {nm} := {val} in\n", rest, env2)
            if not isinstance(t, ast.Name):
                raise Unsupported("assignment target " + ast.unparse(t))
            env2 = dict(env)
            nm = s.newname(t.id)
            env2[t.id] = nm
            for key in ("$opt:", "$str:", "$olist:"):
                env2.pop(key + t.id, None)
            v = st.value
            if isinstance(v, ast.Constant) and v.value is None:
                val = "(@None Z)"
                env2["$opt:" + t.id] = True
            elif isinstance(v, ast.Name) and s.is_opt(env, v.id):
                val = env[v.id]
                env2["$opt:" + t.id] = True
            elif s.kind == "optlist" and not s.is_str(v, env) and (isinstance(v, (ast.Tuple,)) or
                    (isinstance(v, ast.Subscript) and ast.unparse(v.value) in TRIPLE_TABLES) or
                    (isinstance(v, ast.Call) and ast.unparse(v.func) == "tuple")):
                val = s.optlist(v, env)
                env2["$olist:" + t.id] = True
            elif s.is_str(v, env):
                val = s.sexpr(v, env)
                env2["$str:" + t.id] = True
            else:
                val = s.expr(v, env)
                if isinstance(v, ast.Call) and s.funcs.get(ast.unparse(v.func), ("", ""))[1] == "result-opt":
                    env2["$opt:" + t.id] = True
            return s.after(f"let {nm} := {val} in\n", rest, env2)
        if isinstance(st, ast.Expr) and isinstance(st.value, ast.Call) and isinstance(st.value.func, ast.Attribute) \
                and ast.unparse(st.value.func.value) == "self":
            name = st.value.func.attr
            name = name if name in s.methods else "__" + name.lstrip("_")
            cn, kind = s.methods[name][:2]
            if kind != "state":
                raise Unsupported("statement call of " + name)
            args = " ".join(s.expr(a, env) for a in st.value.args)
            nm = s.newname("v")
            env2 = dict(env)
            env2["$self"] = nm
            s.pending.append((nm, f"({cn} {env['$self']} {args})", "rbind", None))
            return s.after("", rest, env2)
        if isinstance(st, ast.If):
            return s.if_stmt(st, rest, env)
        if isinstance(st, ast.For):
            return s.for_stmt(st, rest, env)
        if isinstance(st, (ast.Try, EndTry)):
            return super().block(stmts, env)
        raise Unsupported(f"statement {type(st).__name__}: {ast.unparse(st)[:60]}")

    def if_stmt(s, st, rest, env):
        test = st.test
        body, orelse = list(st.body) + rest, list(st.orelse) + rest
        # x in _ATTRIBUTES  /  x in _BASIC_COLORS : a lookup whose result the branch may use
        if isinstance(test, ast.Compare) and len(test.ops) == 1 and isinstance(test.ops[0], ast.In) \
                and isinstance(test.comparators[0], ast.Name) and test.comparators[0].id in ("_ATTRIBUTES", "_BASIC_COLORS"):
            x = s.sexpr(test.left, env)
            tbl = test.comparators[0].id
            nm = s.newname("a" if tbl == "_ATTRIBUTES" else "i")
            env_t = dict(env)
            if tbl == "_ATTRIBUTES":
                env_t["$attr:" + ast.unparse(test.left)] = nm
                scrut = f"find_setting ATTRIBUTE_NAMES {x}"
            else:
                env_t["$idx:_BASIC_COLORS:" + ast.unparse(test.left)] = nm
                scrut = f"str_index BASIC_COLORS {x}"
            pend, s.pending = s.pending, []
            tb, eb = s.block(body, env_t), s.block(orelse, env)
            s.pending = pend
            return s.flush(f"match {scrut} with\n| Some {nm} =>\n{textwrap.indent(tb, '  ')}\n| None =>\n{textwrap.indent(eb, '  ')}\nend")
        # x is None / x is not None
        if isinstance(test, ast.Compare) and len(test.ops) == 1 and isinstance(test.ops[0], (ast.Is, ast.IsNot)) \
                and ast.unparse(test.comparators[0]) == "None" and isinstance(test.left, ast.Name):
            var = test.left.id
            none_b, some_b = (body, orelse) if isinstance(test.ops[0], ast.Is) else (orelse, body)
            if not s.is_opt(env, var):
                return s.block(some_b, env)          # statically an int / a string here
            payload = s.newname(var)
            env_some = dict(env)
            env_some[var] = payload
            env_some.pop("$opt:" + var, None)
            if env.get("$optstr:" + var):
                env_some["$str:" + var] = True
            pend, s.pending = s.pending, []
            sb, nb = s.block(some_b, env_some), s.block(none_b, env)
            s.pending = pend
            return s.flush(f"match {env[var]} with\n| Some {payload} =>\n{textwrap.indent(sb, '  ')}\n| None =>\n{textwrap.indent(nb, '  ')}\nend")
        prefix = ""
        cond = s.bexpr(test, env)
        pend, s.pending = s.pending, []
        tb, eb = s.block(body, env), s.block(orelse, env)
        s.pending = pend
        return s.flush(f"if {cond} then\n{textwrap.indent(tb, '  ')}\nelse\n{textwrap.indent(eb, '  ')}")

    def for_stmt(s, st, rest, env):
        it = st.iter
        if not (isinstance(it, ast.Call) and isinstance(it.func, ast.Attribute) and it.func.attr == "split"
                and len(it.args) == 1 and isinstance(it.args[0], ast.Constant) and isinstance(it.args[0].value, str)
                and len(it.args[0].value) == 1 and isinstance(st.target, ast.Name) and not st.orelse):
            raise Unsupported("loop other than `for x in s.split(c)`")
        if s.kind != "state":
            raise Unsupported("loop in a method that cannot raise AttrSpecError")
        names = sorted(n for n in s.assigned(st.body) if n in env and n != st.target.id)
        if not names:
            raise Unsupported("loop without carried variables")
        carried = [(n, s.is_opt(env, n)) for n in names]
        saved = getattr(s, "carried", None)
        s.carried = carried
        init = s.carried_tuple(env)
        env_b = dict(env)
        pat_names = []
        for n, opt in carried:
            nm = s.newname(n)
            env_b[n] = nm
            pat_names.append(nm)
        part = s.newname(st.target.id)
        env_b[st.target.id] = part
        env_b["$str:" + st.target.id] = True
        pend, s.pending = s.pending, []
        body = s.block(list(st.body) + [LoopEnd()], env_b)
        s.carried = saved
        env_r = dict(env)
        out_names = []
        for n, opt in carried:
            nm = s.newname(n)
            env_r[n] = nm
            out_names.append(nm)
        restb = s.block(rest, env_r)
        s.pending = pend

        def pat(ns):
            out = ns[0]
            for n in ns[1:]:
                out = f"({out}, {n})"
            return out
        sep = ord(it.args[0].value)
        loop = (f"fold_left (fun st_ {part} => rbind st_ (fun '{pat(pat_names)} =>\n{textwrap.indent(body, '  ')}))\n"
                f"  (split_on {sep} {s.sexpr(it.func.value, env)}) (ROk {init})")
        return s.flush(f"rbind ({loop}) (fun '{pat(out_names)} =>\n{restb})")

    def method(s, fn, params, coqname, kind):
        """params: [(python name, coq name, coq type)] after self; the state parameter v comes first"""
        s.kind, s.checked, s.pending, s.strdefs = kind, True, [], {}
        env = {"$self": "v", "$handler": s.default_handler()}
        for p, c, t in params:
            env[p] = c
            if t == "str":
                env["$str:" + p] = True
            if t.startswith("option"):
                env["$opt:" + p] = True
                if t == "option str":
                    env["$optstr:" + p] = True
        body = s.block(list(fn.body), env)
        rty = {"state": "res Z", "res": "res Z", "desc": "result str", "optlist": "result (list (option Z))",
               "bool": "bool"}[kind]
        ps = " ".join(f"({c} : {t})" for _, c, t in params)
        return f"Definition {coqname} (v : Z) {ps} : {rty} :=\n{textwrap.indent(body, '  ')}.\n"


def module_assign(tree, name):
    for n in tree.body:
        if isinstance(n, ast.Assign) and len(n.targets) == 1 and isinstance(n.targets[0], ast.Name) and n.targets[0].id == name:
            return n.value
    raise KeyError(name)


def find_method(tree, cls, name):
    for n in tree.body:
        if isinstance(n, ast.ClassDef) and n.name == cls:
            for m in n.body:
                if isinstance(m, ast.FunctionDef) and m.name == name:
                    # a property has a setter of the same name only when decorated with @x.setter: take the getter
                    if not any(isinstance(d, ast.Attribute) and d.attr == "setter" for d in m.decorator_list):
                        return m
    raise KeyError(f"{cls}.{name}")


def generate(repo):
    tree = parse(repo, REL)
    util = parse(repo, "urwid/util.py")
    out = ["From Urwid Require Import ColourBase.\n"]
    consts, lists = {}, set()
    funcs = {"int_scale": ("int_scale", "pure")}

    def tr(strvar=None):
        return ColTr(consts, lists, funcs, strvar)

    # int_scale (urwid/util.py), with the base translator
    out.append(Tr({}, {}, {}).func(find(util, "int_scale"), [("val", "Z"), ("val_range", "Z"), ("out_range", "Z")],
                                   "int_scale", "Z"))
    # integer constants and masks
    for py in CONSTS:
        e = tr().expr(module_assign(tree, py), {})
        out.append(f"Definition {cname(py)} : Z := Eval vm_compute in {e}.")
        consts[py] = cname(py)
    out.append("")
    # settings dictionary
    d = module_assign(tree, "_ATTRIBUTES")
    if not isinstance(d, ast.Dict) or sorted(k.value for k in d.keys) != sorted(SETTINGS):
        raise Unsupported("_ATTRIBUTES is not the dictionary of the six settings")
    arms = " ".join(f"| {SETTINGS[k.value]} => {tr().expr(v, {})}" for k, v in zip(d.keys, d.values))
    out.append(f"Definition ATTRIBUTES (s : setting) : Z := match s with {arms} end.\n")
    # step tables and RGB tables
    for py, ty in TABLES1:
        e = tr().expr(module_assign(tree, py), {})
        out.append(f"Definition {cname(py)} : {ty} := Eval vm_compute in {e}.")
        consts[py] = cname(py)
        lists.add(py)
    out.append("")
    # _value_lookup_table and the tables computed with it
    out.append(tr().function(find(tree, "_value_lookup_table"), [("values", "values", "list Z"), ("size", "size", "Z")],
                             "value_lookup_table", "list", False))
    funcs["_value_lookup_table"] = ("value_lookup_table", "list")
    for py in TABLES2:
        e = tr().expr(module_assign(tree, py), {})
        out.append(f"Definition {cname(py)} : list Z := Eval vm_compute in {e}.")
        consts[py] = cname(py)
        lists.add(py)
    out.append("")
    # pure integer functions
    for py in ("_gray_num_256", "_gray_num_88"):
        out.append(tr().function(find(tree, py), [("gnum", "gnum", "Z")], cname(py), "int", False))
        funcs[py] = (cname(py), "pure")
    # describers
    for py in ("_color_desc_true", "_color_desc_256", "_color_desc_88"):
        out.append(tr().function(find(tree, py), [("num", "num", "Z")], cname(py), "desc", True))
        funcs[py] = (cname(py), "result")
    # parsers (string parameter abstracted)
    for py, kind in (("_parse_color_256", "opt"), ("_parse_color_88", "opt"), ("_true_to_256", "optdesc"),
                     ("_parse_color_true", "opt")):
        out.append(tr("desc").function(find(tree, py), [("desc", "d", "desc")], cname(py), kind, True))
        funcs[py] = (cname(py), "result-opt" if kind == "opt" else "result")
    # AttrSpec one-line properties over v = self.__value
    for py, coq, kind in (("colors", "attr_colors", "int"), ("foreground_number", "attr_foreground_number", "int"),
                          ("background_number", "attr_background_number", "int")):
        out.append(tr().function(find_method(tree, "AttrSpec", py), [("self", "v", "Z")], coq, kind, False))
    for py in ("foreground_basic", "foreground_high", "foreground_true", "background_basic", "background_high",
               "background_true", "italics", "bold", "underline", "blink", "standout", "strikethrough"):
        m = find_method(tree, "AttrSpec", py)
        if not (len(m.body) == 1 and isinstance(m.body[0], ast.Return)):
            raise Unsupported(f"AttrSpec.{py} is not a one-line property")
        out.append(f"Definition attr_{py} (v : Z) : bool :=\n  {tr().bexpr(m.body[0].value, {})}.\n")
    # ---------------- string level: the same functions on code-point lists, no abstraction ----------------
    out.append("(* ===== string level (Base/ColourStr.v): names, describers and parsers on code-point lists ===== *)")
    out.append("From Urwid Require Import ColourStr.\n")

    def strconst(node):
        if isinstance(node, ast.Constant) and isinstance(node.value, str):
            return node.value
        if isinstance(node, ast.Name):
            return strconst(module_assign(tree, node.id))
        raise Unsupported(f"not a string constant: {ast.unparse(node)}")

    names = module_assign(tree, "_BASIC_COLORS")
    if not isinstance(names, ast.List):
        raise Unsupported("_BASIC_COLORS is not a list literal")
    out.append("Definition BASIC_COLORS : list str := [" + "; ".join(StrTr.lit(strconst(x)) for x in names.elts) + "].")
    out.append("Definition ATTRIBUTE_NAMES : list (str * setting) := ["
               + "; ".join(f"({StrTr.lit(k.value)}, {SETTINGS[k.value]})" for k in d.keys) + "].\n")
    sfuncs = {"int_scale": ("int_scale", "pure")}

    def st():
        return StrTr(consts, lists, sfuncs)
    for py in ("_color_desc_true", "_color_desc_256", "_color_desc_88"):
        out.append(st().function(find(tree, py), [("num", "num", "Z")], cname(py) + "_s", "desc"))
        sfuncs[py] = (cname(py) + "_s", "result")
    for py, kind in (("_parse_color_256", "opt"), ("_parse_color_88", "opt"), ("_true_to_256", "optdesc"),
                     ("_parse_color_true", "opt")):
        out.append(st().function(find(tree, py), [("desc", "d", "str")], cname(py) + "_s", kind))
        sfuncs[py] = (cname(py) + "_s", "result-opt" if kind == "opt" else "result")
    # ---------------- the methods of AttrSpec on strings ----------------
    out.append("(* ===== AttrSpec methods (self.__value threaded as v; raise sites numbered as in Base/ColourBase.v) ===== *)")
    methods = {}

    def mt():
        return MethTr(consts, lists, sfuncs, methods)
    out.append(mt().method(find_method(tree, "AttrSpec", "__set_foreground"), [("foreground", "foreground", "str")],
                           "set_foreground_gen", "state"))
    methods["__set_foreground"] = ("set_foreground_gen", "state")
    out.append(mt().method(find_method(tree, "AttrSpec", "__set_background"), [("background", "background", "str")],
                           "set_background_gen", "state"))
    methods["__set_background"] = ("set_background_gen", "state")
    init = find_method(tree, "AttrSpec", "__init__")
    body = mt().method(init, [("fg", "fg", "str"), ("bg", "bg", "str"), ("colors", "colors", "Z")], "attrspec_init_gen", "state")
    # the constructor starts from no value at all: drop the state parameter
    out.append(body.replace("Definition attrspec_init_gen (v : Z) ", "Definition attrspec_init_gen ", 1))
    methods["__init__"] = ("attrspec_init_gen", "res")
    out.append(mt().method(find_method(tree, "AttrSpec", "_foreground_color"), [], "foreground_color_gen", "desc"))
    methods["_foreground_color"] = ("foreground_color_gen", "desc")
    out.append(mt().method(find_method(tree, "AttrSpec", "foreground"), [], "foreground_gen", "desc"))
    methods["foreground"] = ("foreground_gen", "desc", "property")
    out.append(mt().method(find_method(tree, "AttrSpec", "background"), [], "background_gen", "desc"))
    methods["background"] = ("background_gen", "desc", "property")
    out.append(mt().method(find_method(tree, "AttrSpec", "get_rgb_values"), [], "get_rgb_values_gen", "optlist"))
    out.append(mt().method(find_method(tree, "AttrSpec", "copy_modified"),
                           [("fg", "fg", "option str"), ("bg", "bg", "option str"), ("colors", "colors", "option Z")],
                           "copy_modified_gen", "res"))
    out.append(mt().method(find_method(tree, "AttrSpec", "__eq__"), [("other", "other", "Z")], "attrspec_eq_gen", "bool"))
    return REL + " urwid/util.py", "\n".join(out)
