"""Gen/str_util_gen.v (C11): translated from the source on every run

  urwid/str_util.py   get_char_width            (wcwidth is a function parameter)
                      decode_one                (the integer arithmetic after the byte fetch:
                                                 parameters b1 b2 b3 b4 lt pos)
  urwid/util.py       calc_trim_text            (result-monadic: str_util.calc_text_pos is a
                                                 parameter returning `result (Z * Z)`)
  urwid/display/escape.py  SO, SI, DEC_TAG, DEC_SPECIAL_CHARS, ALT_DEC_SPECIAL_CHARS
                           (constant tables as lists of code points)

The extra constructs (bit operators, ord of a literal, the `if (x := e) <op> c` idiom, truthiness
of an integer expression, result-monadic calls) are handled by subclasses of the shared `Tr`
defined here; tools/py2v/py2v_core.py is not modified.  Fail-closed like the core: anything
else raises Unsupported.
"""
import ast
import copy
import textwrap

from py2v_core import Tr, Unsupported, find
from mods.common import parse

NAME = "str_util"

BITOPS = {ast.BitAnd: "Z.land", ast.BitOr: "Z.lor", ast.LShift: "Z.shiftl", ast.RShift: "Z.shiftr"}


def loads(node):
    return {n.id for n in ast.walk(node) if isinstance(n, ast.Name) and isinstance(n.ctx, ast.Load)}


def stores(node):
    return {n.id for n in ast.walk(node) if isinstance(n, ast.Name) and isinstance(n.ctx, ast.Store)}


class TrX(Tr):
    """Core subset + bit operators, ord('c'), walrus in an if test, truthiness of int expressions."""

    def expr(s, e, env):
        if isinstance(e, ast.BinOp) and type(e.op) in BITOPS:
            return f"({BITOPS[type(e.op)]} {s.expr(e.left, env)} {s.expr(e.right, env)})"
        if (isinstance(e, ast.Call) and ast.unparse(e.func) == "ord" and len(e.args) == 1
                and isinstance(e.args[0], ast.Constant) and isinstance(e.args[0].value, str)
                and len(e.args[0].value) == 1):
            return str(ord(e.args[0].value))
        return super().expr(e, env)

    def bexpr(s, e, env):
        if isinstance(e, ast.BinOp):                      # truthiness of an integer expression
            return f"(negb ({s.expr(e, env)} =? 0))"
        return super().bexpr(e, env)

    def block(s, stmts, env, k):
        if stmts and isinstance(stmts[0], ast.If):
            st = stmts[0]
            t = st.test
            # if (x := E) <op> C:  or  if C0 <op> (x := E) <op> C1 ...:   ==>   x = E ; if ... x ...:
            # sound when the walrus is the first or second operand of the (chained) comparison (both are
            # always evaluated), every operand before it is a constant, and no other operand has a walrus
            if isinstance(t, ast.Compare):
                operands = [t.left] + list(t.comparators)
                idx = [i for i, o in enumerate(operands) if isinstance(o, ast.NamedExpr)]
                if len(idx) == 1 and idx[0] <= 1 and all(isinstance(o, ast.Constant) for o in operands[:idx[0]]):
                    ne = operands[idx[0]]
                    others = operands[:idx[0]] + operands[idx[0] + 1:]
                    if any(isinstance(n, ast.NamedExpr) for o in others for n in ast.walk(o)) or \
                            any(isinstance(n, ast.NamedExpr) for n in ast.walk(ne.value)):
                        raise Unsupported("nested walrus")
                    if any(isinstance(n, ast.Name) and n.id == ne.target.id for o in others for n in ast.walk(o)):
                        raise Unsupported("walrus target read in the same comparison")
                    asg = ast.Assign(targets=[ast.Name(id=ne.target.id, ctx=ast.Store())], value=ne.value)
                    operands[idx[0]] = ast.Name(id=ne.target.id, ctx=ast.Load())
                    st2 = copy.copy(st)
                    st2.test = ast.Compare(left=operands[0], ops=t.ops, comparators=operands[1:])
                    return s.block([asg, st2] + list(stmts[1:]), env, k)
            if any(isinstance(n, ast.NamedExpr) for n in ast.walk(t)):
                raise Unsupported("walrus in an unsupported position")
        return super().block(stmts, env, k)


class TrM(TrX):
    """Result-monadic statements.  The translated function returns `result T`; calls whose
    function text is in `mcalls` return `result _` and are bound with a match; `return e` is
    `Ok e`; `raise X(...)` is `Err X`.  Join points after an `if` carry exactly the variables
    that are live afterwards (read before being re-assigned)."""

    ERRS = {"ValueError": "ValueError", "IndexError": "IndexError", "TypeError": "TypeError"}

    def __init__(s, enums, attr_params, builtins, mcalls):
        super().__init__(enums, attr_params, builtins)
        s.mcalls = mcalls
        s.mlive = set()

    # variables live before `stmts` given the set live after them
    def live(s, stmts, after):
        after = set(after)
        for st in reversed(stmts):
            if isinstance(st, ast.Assign):
                after = (after - stores(st)) | loads(st.value)
            elif isinstance(st, ast.AugAssign):
                after = after | loads(st.value) | {st.target.id}
            elif isinstance(st, ast.AnnAssign):
                after = (after - stores(st.target)) | (loads(st.value) if st.value else set())
            elif isinstance(st, ast.If):
                after = loads(st.test) | s.live(st.body, after) | s.live(st.orelse, after)
            elif isinstance(st, ast.Return):
                after = loads(st.value) if st.value else set()
            elif isinstance(st, ast.Raise):
                after = set()
            elif isinstance(st, ast.Expr) and isinstance(st.value, ast.Constant):
                pass
            else:
                after = after | loads(st)
        return after

    def pattern(s, tgt, env2):
        if isinstance(tgt, ast.Name):
            nm = s.newname(tgt.id)
            env2[tgt.id] = nm
            return nm
        if isinstance(tgt, ast.Tuple) and all(isinstance(x, ast.Name) for x in tgt.elts):
            nms = []
            for x in tgt.elts:
                nm = s.newname(x.id)
                env2[x.id] = nm
                nms.append(nm)
            pat = nms[0]
            for nm in nms[1:]:
                pat = f"({pat}, {nm})"
            return pat
        raise Unsupported(f"assign target {ast.unparse(tgt)}")

    def tuple_of(s, names, env_b):
        vals = [env_b.get(a) for a in names]
        if any(v is None for v in vals):
            raise Unsupported(f"variable possibly unbound after if: {names}")
        if not vals:
            return "tt"
        r = vals[0]
        for v in vals[1:]:
            r = f"({r}, {v})"
        return r

    def block(s, stmts, env, k):
        if not stmts:
            return k(env)
        st, rest = stmts[0], list(stmts[1:])
        if isinstance(st, ast.Expr) and isinstance(st.value, ast.Constant):
            return s.block(rest, env, k)
        if isinstance(st, ast.Return):
            return f"Ok {s.expr(st.value, env)}"
        if isinstance(st, ast.Raise):
            exc = st.exc
            name = ast.unparse(exc.func) if isinstance(exc, ast.Call) else ast.unparse(exc)
            if name not in s.ERRS:
                raise Unsupported(f"raise {name}")
            return f"Err {s.ERRS[name]}"
        if isinstance(st, ast.Assign) and len(st.targets) == 1 and isinstance(st.value, ast.Call) \
                and ast.unparse(st.value.func) in s.mcalls:
            call = "(" + s.mcalls[ast.unparse(st.value.func)] + " " + " ".join(s.expr(a, env) for a in st.value.args) + ")"
            if st.value.keywords:
                raise Unsupported("keyword arguments")
            env2 = dict(env)
            pat = s.pattern(st.targets[0], env2)
            return f"match {call} with Err e_ => Err e_ | Ok {pat} =>\n{s.block(rest, env2, k)} end"
        if isinstance(st, (ast.Assign, ast.AugAssign, ast.AnnAssign)):
            for n in ast.walk(st):
                if isinstance(n, ast.Call) and ast.unparse(n.func) in s.mcalls:
                    raise Unsupported("monadic call in an unsupported position")
            return Tr.block(s, stmts, env, k)          # plain let; recursion comes back here
        if isinstance(st, ast.If):
            for n in ast.walk(st.test):
                if isinstance(n, (ast.Call, ast.NamedExpr)) and not (isinstance(n, ast.Call) and ast.unparse(n.func) in ("max", "min", "int", "ord")):
                    raise Unsupported("call or walrus in a monadic if test")
            cond = s.bexpr(st.test, env)
            ret_then = s.always_returns(st.body)
            ret_else = s.always_returns(st.orelse) if st.orelse else False
            if ret_then and not st.orelse:
                return f"if {cond} then {s.block(st.body, env, None)}\nelse {s.block(rest, env, k)}"
            if ret_then and ret_else:
                return f"if {cond} then {s.block(st.body, env, None)}\nelse {s.block(st.orelse, env, None)}"
            if ret_then or ret_else:
                raise Unsupported("mixed return/fallthrough if-else")
            live_after = s.live(rest, s.mlive)
            assigned = sorted((stores(ast.Module(body=st.body, type_ignores=[])) |
                               stores(ast.Module(body=st.orelse, type_ignores=[]))) & live_after)

            def branch(body):
                saved = s.mlive
                s.mlive = live_after
                r = s.block(body, env, lambda env_b: "Ok " + s.tuple_of(assigned, env_b))
                s.mlive = saved
                return r
            bt, be = branch(st.body), branch(st.orelse)
            env2 = dict(env)
            nms = []
            for a in assigned:
                nm = s.newname(a)
                env2[a] = nm
                nms.append(nm)
            pat = "_" if not nms else nms[0]
            for nm in nms[1:]:
                pat = f"({pat}, {nm})"
            return (f"match (if {cond} then {bt} else {be}) with Err e_ => Err e_ | Ok {pat} =>\n"
                    f"{s.block(rest, env2, k)} end")
        raise Unsupported(f"statement {type(st).__name__}: {ast.unparse(st)[:60]}")


def const_str(tree, name):
    for n in tree.body:
        if isinstance(n, ast.Assign) and len(n.targets) == 1 and isinstance(n.targets[0], ast.Name) \
                and n.targets[0].id == name:
            v = ast.literal_eval(n.value)
            if not isinstance(v, str):
                raise Unsupported(f"{name} is not a string literal")
            return v
    raise KeyError(name)


def zlist(s):
    return "[" + "; ".join(str(ord(c)) for c in s) + "]"


def generate(repo):
    out = []
    su = parse(repo, "urwid/str_util.py")
    # --- get_char_width(char): wcwidth.wcwidth is a parameter
    t = TrX({}, {}, {"wcwidth.wcwidth": "wcwidth"})
    out.append(t.func(find(su, "get_char_width"), [("wcwidth", "Z -> Z"), ("char", "Z")], "get_char_width_gen", "Z"))
    # --- decode_one: everything after the try block that fetches b1..b4
    fn = find(su, "decode_one")
    idx = [i for i, st in enumerate(fn.body) if isinstance(st, ast.Try)]
    if len(idx) != 1:
        raise Unsupported("decode_one: expected exactly one try block")
    tail = copy.copy(fn)
    tail.body = fn.body[idx[0] + 1:]
    t = TrX({}, {}, {})
    out.append(t.func(tail, [("b1", "Z"), ("b2", "Z"), ("b3", "Z"), ("b4", "Z"), ("lt", "Z"), ("pos", "Z")],
                      "decode_one_arith_gen", "Z * Z"))
    # --- calc_trim_text
    ut = parse(repo, "urwid/util.py")
    t = TrM({}, {}, {}, {"str_util.calc_text_pos": "calc_text_pos"})
    out.append(t.func(find(ut, "calc_trim_text"),
                      [("T", "Type"), ("calc_text_pos", "T -> Z -> Z -> Z -> result (Z * Z)"), ("text", "T"),
                       ("start_offs", "Z"), ("end_offs", "Z"), ("start_col", "Z"), ("end_col", "Z")],
                      "calc_trim_text_gen", "result (Z * Z * Z * Z)"))
    # --- constant tables of display/escape.py
    es = parse(repo, "urwid/display/escape.py")
    so, si, tag = const_str(es, "SO"), const_str(es, "SI"), const_str(es, "DEC_TAG")
    if len(so) != 1 or len(si) != 1 or len(tag) != 1:
        raise Unsupported("SO/SI/DEC_TAG are not single characters")
    out.append(f"Definition esc_SO : Z := {ord(so)}.\nDefinition esc_SI : Z := {ord(si)}.\n"
               f"Definition esc_DEC_TAG : Z := {ord(tag)}.\n")
    out.append(f"Definition dec_special_chars : list Z := {zlist(const_str(es, 'DEC_SPECIAL_CHARS'))}.\n")
    out.append(f"Definition alt_dec_special_chars : list Z := {zlist(const_str(es, 'ALT_DEC_SPECIAL_CHARS'))}.\n")
    return "urwid/str_util.py urwid/util.py urwid/display/escape.py", "\n".join(out)
