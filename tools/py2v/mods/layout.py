"""Gen/layout_gen.v : int_scale, calculate_left_right_padding, calculate_top_bottom_filler (C19)."""
from py2v_core import Tr, find
from mods.common import parse, WH

NAME = "layout"

def generate(repo):
    # int(E / D + 0.5): E / D + 0.5 is the rational (2E + D) / (2D); int() truncates toward zero = Z.quot.
    # (exact while the float quotient is exact enough: |E| + |D| < 2^50, see harness/props/c19.py)
    out = ['Definition round_half_up_div (e d : Z) := Z.quot (2*e + d) (2*d).\n',
           'Inductive wtype := WRelative | WClip | WGiven | WPack | WWeight.\n'
           'Inductive atype := ALeft | ACenter | ARight | ARelative.\n'
           'Inductive vtype := VTop | VMiddle | VBottom | VRelative.\n']
    util = parse(repo, 'urwid/util.py')
    out.append(Tr({}, {}, {}).func(find(util, 'int_scale'),
               [('val', 'Z'), ('val_range', 'Z'), ('out_range', 'Z')], 'int_scale', 'Z'))
    pad = parse(repo, 'urwid/widget/padding.py')
    t = Tr(WH, {}, {'int_scale': 'int_scale'})
    out.append(t.func(find(pad, 'calculate_left_right_padding'),
               [('maxcol', 'Z'), ('align_type', 'atype'), ('align_amount', 'Z'), ('width_type', 'wtype'),
                ('width_amount', 'Z'), ('min_width', 'option Z'), ('left', 'Z'), ('right', 'Z')],
               'calculate_left_right_padding', 'Z * Z'))
    fil = parse(repo, 'urwid/widget/filler.py')
    t = Tr(WH, {}, {'int_scale': 'int_scale'})
    out.append(t.func(find(fil, 'calculate_top_bottom_filler'),
               [('maxrow', 'Z'), ('valign_type', 'vtype'), ('valign_amount', 'Z'), ('height_type', 'wtype'),
                ('height_amount', 'Z'), ('min_height', 'option Z'), ('top', 'Z'), ('bottom', 'Z')],
               'calculate_top_bottom_filler', 'Z * Z'))
    return 'urwid/util.py urwid/widget/padding.py urwid/widget/filler.py', '\n'.join(out)
