"""Gen/wcwidth_table_gen.v : the behaviour of the `wcwidth.wcwidth` function that
urwid/str_util.py really calls (C11), dumped on every run as a sorted list of
(lo, hi, width) intervals covering 0 .. 0x10FFFF.

gen.py runs under a python without urwid's dependencies, so the dump is made by the
interpreter that runs the code under test (/venv/bin/python) with PYTHONPATH = the repo
under test; the function is reached through `urwid.str_util.wcwidth` (the module object
str_util imported), not through a fresh import.
"""
import os
import subprocess

NAME = "wcwidth_table"
PY = "/venv/bin/python"

SCRIPT = r"""
import sys, warnings
warnings.simplefilter("ignore")
from urwid import str_util
f = str_util.wcwidth.wcwidth
out = []
cur = None
for c in range(0x110000):
    w = int(f(chr(c)))
    if cur is not None and cur[2] == w:
        cur[1] = c
    else:
        cur = [c, c, w]
        out.append(cur)
print(";".join("%d,%d,%d" % tuple(x) for x in out))
"""


def dump(repo):
    env = dict(os.environ)
    env["PYTHONPATH"] = repo
    env["PYTHONDONTWRITEBYTECODE"] = "1"
    p = subprocess.run([PY, "-c", SCRIPT], env=env, capture_output=True, text=True, timeout=100)
    if p.returncode != 0:
        raise ValueError("wcwidth dump failed: " + p.stderr.strip()[-300:])
    iv = [tuple(int(v) for v in t.split(",")) for t in p.stdout.strip().split(";")]
    # sanity: sorted, contiguous, full cover
    pos = 0
    for lo, hi, _w in iv:
        if lo != pos or hi < lo:
            raise ValueError("wcwidth dump is not a contiguous cover at %d" % pos)
        pos = hi + 1
    if pos != 0x110000:
        raise ValueError("wcwidth dump does not cover all code points")
    return iv


def generate(repo):
    iv = dump(repo)
    lines = []
    for k in range(0, len(iv), 4):
        lines.append("  " + "; ".join("(%d, %d, %s)" % (lo, hi, ("(%d)" % w) if w < 0 else str(w))
                                      for lo, hi, w in iv[k:k + 4]))
    body = ("(* (lo, hi, w): wcwidth.wcwidth(chr(c)) = w for lo <= c <= hi; %d intervals *)\n"
            "Definition wcwidth_table : list (Z * Z * Z) := [\n%s\n].\n" % (len(iv), ";\n".join(lines)))
    return "the installed wcwidth package as imported by urwid/str_util.py", body
