"""Gen/c06_mutators_gen.v : the public mutators of the bundled widget classes and whether each reaches _invalidate (C06).

A syntactic scan (`ast`, import-free) of the widget sources:
  * classes = every class in the listed files that derives (inside the scanned files) from Widget, WidgetDecoration,
    WidgetWrap or WidgetContainerMixin;
  * a public mutator = a method or property setter without a leading underscore, not an observer/input handler
    (OBSERVERS below), that assigns to an attribute of `self` (directly, through a property setter of the class, or
    through a `self.method()` call, transitively through the scanned base classes);
  * it "reaches _invalidate" when, on the same transitive closure, it calls something ending in `_invalidate`,
    `CanvasCache.invalidate` or `._modified`, assigns `self.contents` / `self.body` (the MonitoredList / list-walker
    callbacks invalidate) or calls a list-mutating method on them.

Output:
  mutators : list (list Z * list Z * bool * bool)    (class name, method name, is property setter, reaches _invalidate)
             as code points, sorted by (class, name)
  plain_public_attributes : list (list Z * list Z)   public attributes assigned in __init__ that have no setter
                                                     (assigning them is not a mutator: informational)
Properties/C06.v states that every entry of `mutators` reaches _invalidate or is on an explicit, commented exemption
list; a new public mutator that forgets to invalidate breaks that proof.
"""
import ast
import os

NAME = "c06_mutators"
REL = "urwid/widget/*.py"

SCAN = ["widget/text.py", "widget/edit.py", "widget/columns.py", "widget/pile.py", "widget/grid_flow.py", "widget/padding.py",
        "widget/widget_decoration.py", "widget/attr_map.py", "widget/attr_wrap.py", "widget/listbox.py", "widget/frame.py",
        "widget/filler.py", "widget/wimp.py", "widget/divider.py", "widget/box_adapter.py", "widget/line_box.py",
        "widget/overlay.py", "widget/progress_bar.py", "widget/solid_fill.py", "widget/big_text.py", "widget/bar_graph.py",
        "widget/scrollable.py", "widget/popup.py", "widget/widget.py", "widget/container.py"]

OBSERVERS = {"render", "rows", "pack", "keypress", "mouse_event", "get_cursor_coords", "move_cursor_to_coords",
             "get_pref_col", "selectable", "sizing", "calculate_visible", "get_focus_offset_inset", "rows_max",
             "get_line_translation", "position_coords", "get_item_rows", "get_item_size", "get_rows_sizes",
             "get_column_sizes", "column_widths", "get_display_widget", "generate_display_widget", "options"}


def scan(repo):
    classes = {}
    for rel in SCAN:
        path = os.path.join(repo, "urwid", rel)
        if not os.path.exists(path):
            continue
        tree = ast.parse(open(path).read())
        for node in tree.body:
            if isinstance(node, ast.ClassDef):
                classes[node.name] = node
    info = {}
    for cname, cnode in classes.items():
        methods, setters = {}, {}
        for f in cnode.body:
            if isinstance(f, ast.FunctionDef):
                decs = [ast.unparse(d) for d in f.decorator_list]
                if any(d.endswith(".setter") for d in decs):
                    setters[f.name] = f
                elif "property" in decs:
                    pass
                else:
                    methods[f.name] = f
            elif isinstance(f, ast.Assign) and isinstance(f.value, ast.Call) and getattr(f.value.func, "id", "") == "property":
                args = f.value.args
                for t in f.targets:
                    if isinstance(t, ast.Name) and len(args) > 1 and isinstance(args[1], ast.Name):
                        setters[t.id] = ("alias", args[1].id)
        info[cname] = {"methods": methods, "setters": setters,
                       "bases": [ast.unparse(b).split(".")[-1].split("[")[0] for b in cnode.bases]}

    def mro(c, seen=()):
        out = [c]
        for b in info.get(c, {}).get("bases", []):
            if b in info and b not in seen:
                out += mro(b, seen + (c,))
        return out

    def lookup(c, name, kind):
        for k in mro(c):
            if name in info[k][kind]:
                return info[k][kind][name]
        return None

    def self_attr(n):
        return isinstance(n, ast.Attribute) and isinstance(n.value, ast.Name) and n.value.id == "self"

    def analyse(c, f, seen):
        """(writes own state?, reaches _invalidate?)"""
        if isinstance(f, tuple):
            g = lookup(c, f[1], "methods")
            return analyse(c, g, seen) if g is not None else (False, False)
        key = (c, f.name, f.lineno)
        if key in seen:
            return False, False
        seen = seen | {key}
        writes = reaches = False
        for n in ast.walk(f):
            if isinstance(n, (ast.Assign, ast.AugAssign, ast.AnnAssign)):
                targets = n.targets if isinstance(n, ast.Assign) else [n.target]
                for t in targets:
                    for tt in ast.walk(t):
                        if self_attr(tt) and isinstance(tt.ctx, ast.Store):
                            st = lookup(c, tt.attr, "setters")
                            if tt.attr in ("contents", "_contents", "body", "_body"):
                                writes = reaches = True     # MonitoredList / walker callbacks invalidate
                            elif st is not None:
                                w2, r2 = analyse(c, st, seen)
                                writes, reaches = writes or w2, reaches or r2
                            elif not tt.attr.startswith("__"):
                                writes = True
            if isinstance(n, ast.Call):
                fn = n.func
                name = ast.unparse(fn)
                if name.endswith("_invalidate") or name.endswith("CanvasCache.invalidate") or name.endswith("._modified"):
                    reaches = True
                elif self_attr(fn):
                    g = lookup(c, fn.attr, "methods")
                    if g is not None:
                        w2, r2 = analyse(c, g, seen)
                        writes, reaches = writes or w2, reaches or r2
                elif isinstance(fn, ast.Attribute) and self_attr(fn.value) and fn.attr in (
                        "append", "insert", "extend", "pop", "remove", "clear", "sort", "reverse", "set_focus", "update"):
                    reaches = reaches or fn.value.attr in ("contents", "_contents", "body", "_body", "cells")
        return writes, reaches

    widgetish = [c for c in info if any(k in ("Widget", "WidgetDecoration", "WidgetWrap", "WidgetContainerMixin")
                                        for k in mro(c)[1:] + [c])]
    mutators, plain = [], []
    for c in sorted(widgetish):
        items = [(n, f, False) for n, f in info[c]["methods"].items() if not n.startswith("_") and n not in OBSERVERS]
        items += [(n, f, True) for n, f in info[c]["setters"].items() if not n.startswith("_")]
        for n, f, is_setter in sorted(items, key=lambda t: (t[0], t[2])):
            writes, reaches = analyse(c, f, frozenset())
            if writes:
                mutators.append((c, n, is_setter, reaches))
        init = info[c]["methods"].get("__init__")
        if init is not None:
            seen = set()
            for nn in ast.walk(init):
                if isinstance(nn, (ast.Assign, ast.AnnAssign)):
                    for t in (nn.targets if isinstance(nn, ast.Assign) else [nn.target]):
                        if self_attr(t) and not t.attr.startswith("_") and lookup(c, t.attr, "setters") is None \
                                and t.attr != "logger" and t.attr not in seen:
                            seen.add(t.attr)
                            plain.append((c, t.attr))
    return mutators, sorted(plain)


def _s(text):
    return "[" + "; ".join(str(ord(ch)) for ch in text) + "]"


def generate(repo):
    mutators, plain = scan(repo)
    if len(mutators) < 20:
        raise ValueError("c06_mutators: implausibly few mutators found (%d): the scan lost its footing" % len(mutators))
    lines = ["(* public mutators of the bundled widget classes: (class, method, is property setter, reaches _invalidate) *)",
             "Definition mutators : list (list Z * list Z * bool * bool) := ["]
    rows = ["  (%s, %s, %s, %s)  (* %s.%s *)" % (_s(c), _s(n), "true" if st else "false", "true" if r else "false", c, n)
            for c, n, st, r in mutators]
    body = []
    for i, r in enumerate(rows):
        cut = r.index("  (*", 3)
        body.append(r[:cut] + (";" if i < len(rows) - 1 else "") + r[cut:])
    lines += body + ["].", "",
                     "(* public attributes assigned in __init__ without a setter: assigning them is not a mutator *)",
                     "Definition plain_public_attributes : list (list Z * list Z) := ["]
    lines += ["  (%s, %s)%s  (* %s.%s *)" % (_s(c), _s(a), ";" if i < len(plain) - 1 else "", c, a) for i, (c, a) in enumerate(plain)]
    lines += ["]."]
    return REL, "\n".join(lines) + "\n"
