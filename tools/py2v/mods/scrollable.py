"""Gen/scrollable_gen.v : Scrollable._adjust_trim_top (C20).

The method mutates three attributes of `self` and returns None.  It is translated as a pure function
from the attributes it reads (and the two canvas observations it makes) to the triple of attributes
it leaves behind:

    adjust_trim_top_gen self_trim_top self_scroll_action self_old_cursor_coords canv_rows_in canv_cursor size
        : Z * scroll_action * coords          (= new _trim_top, _scroll_action, _old_cursor_coords)

py2v_core is NOT modified; the constructs it lacks are handled here by a documented, purely syntactic
pre-pass over the function's AST (fail-closed: anything else still raises Unsupported):

  P1  `self._trim_top`, `self._scroll_action`, `self._old_cursor_coords`, `canv.cursor`  -> plain names
      (loads and stores), `canv.rows()` -> the name `canv_rows_in`;
  P2  a nested one-line `def f(x): return E` is inlined at its call sites;
  P3  a bare `return` and the fall-off end become `return (self_trim_top, self_scroll_action,
      self_old_cursor_coords)` (the values current at that point);
  P4  `self._scroll_action = None` stores the constructor ANone, `self._old_cursor_coords = None` stores
      `@None (Z * Z)` (typed None);
  P5  `a != b` between the two optional coordinate pairs -> `not coords_eqb(a, b)`;
      `_c, r = canv.cursor` -> `_c, r = coords_get(canv.cursor)` (ScrollBase.v).
"""
import ast
import copy

from py2v_core import Tr, Unsupported, find
from mods.common import parse

NAME = "scrollable"

ATTRS = {
    'self._trim_top': 'self_trim_top',
    'self._scroll_action': 'self_scroll_action',
    'self._old_cursor_coords': 'self_old_cursor_coords',
    'canv.cursor': 'canv_cursor',
}
CALLS = {'canv.rows()': 'canv_rows_in'}
COORDS = {'self_old_cursor_coords', 'canv_cursor'}
STATE = ['self_trim_top', 'self_scroll_action', 'self_old_cursor_coords']
ACTIONS = {
    'SCROLL_LINE_UP': 'ALineUp', 'SCROLL_LINE_DOWN': 'ALineDown',
    'SCROLL_PAGE_UP': 'APageUp', 'SCROLL_PAGE_DOWN': 'APageDown',
    'SCROLL_TO_TOP': 'AToTop', 'SCROLL_TO_END': 'AToEnd',
    'SCROLL_NONE_': 'ANone', 'COORDS_NONE_': '(@None (Z * Z))',
}
# the module constants must still be the distinct strings the enum stands for
ACTION_VALUES = {
    'SCROLL_LINE_UP': 'line up', 'SCROLL_LINE_DOWN': 'line down', 'SCROLL_PAGE_UP': 'page up',
    'SCROLL_PAGE_DOWN': 'page down', 'SCROLL_TO_TOP': 'to top', 'SCROLL_TO_END': 'to end',
}


class Rename(ast.NodeTransformer):
    """P1"""

    def visit_Attribute(self, node):
        src = ast.unparse(node)
        if src in ATTRS:
            return ast.copy_location(ast.Name(id=ATTRS[src], ctx=node.ctx), node)
        return self.generic_visit(node)

    def visit_Call(self, node):
        src = ast.unparse(node)
        if src in CALLS:
            return ast.copy_location(ast.Name(id=CALLS[src], ctx=ast.Load()), node)
        return self.generic_visit(node)


class Subst(ast.NodeTransformer):
    def __init__(self, mapping):
        self.mapping = mapping

    def visit_Name(self, node):
        if node.id in self.mapping and isinstance(node.ctx, ast.Load):
            return copy.deepcopy(self.mapping[node.id])
        return node


class Inline(ast.NodeTransformer):
    """P2"""

    def __init__(self, defs):
        self.defs = defs

    def visit_Call(self, node):
        node = self.generic_visit(node)
        if isinstance(node.func, ast.Name) and node.func.id in self.defs:
            params, body = self.defs[node.func.id]
            if len(params) != len(node.args) or node.keywords:
                raise Unsupported('inline arity ' + node.func.id)
            return Subst(dict(zip(params, node.args))).visit(copy.deepcopy(body))
        return node


def state_tuple():
    return ast.Tuple(elts=[ast.Name(id=n, ctx=ast.Load()) for n in STATE], ctx=ast.Load())


class Returns(ast.NodeTransformer):
    """P3 (bare returns) + P4 + P5"""

    def visit_Return(self, node):
        if node.value is not None:
            raise Unsupported('return with a value in a state-mutating method')
        return ast.Return(value=state_tuple())

    def visit_Assign(self, node):
        node = self.generic_visit(node)
        if len(node.targets) == 1 and isinstance(node.targets[0], ast.Name) and \
                isinstance(node.value, ast.Constant) and node.value.value is None:
            t = node.targets[0].id
            if t == 'self_scroll_action':
                node.value = ast.Name(id='SCROLL_NONE_', ctx=ast.Load())
            elif t == 'self_old_cursor_coords':
                node.value = ast.Name(id='COORDS_NONE_', ctx=ast.Load())
        if len(node.targets) == 1 and isinstance(node.targets[0], ast.Tuple) and \
                isinstance(node.value, ast.Name) and node.value.id in COORDS:
            node.value = ast.Call(func=ast.Name(id='coords_get', ctx=ast.Load()), args=[node.value], keywords=[])
        return node

    def visit_Compare(self, node):
        node = self.generic_visit(node)
        if len(node.ops) == 1 and isinstance(node.ops[0], (ast.NotEq, ast.Eq)) and \
                isinstance(node.left, ast.Name) and node.left.id in COORDS and \
                isinstance(node.comparators[0], ast.Name) and node.comparators[0].id in COORDS:
            call = ast.Call(func=ast.Name(id='coords_eqb', ctx=ast.Load()),
                            args=[node.left, node.comparators[0]], keywords=[])
            if isinstance(node.ops[0], ast.NotEq):
                return ast.UnaryOp(op=ast.Not(), operand=call)
            return call
        return node


class TrS(Tr):
    """Tr + boolean-valued builtin calls in test position."""
    BOOL_BUILTINS = {'coords_eqb'}

    def bexpr(s, e, env):
        if isinstance(e, ast.Call) and ast.unparse(e.func) in s.BOOL_BUILTINS:
            return s.expr(e, env)
        return super().bexpr(e, env)


def prepare(fn):
    fn = copy.deepcopy(fn)
    fn = Rename().visit(fn)
    # P2: collect nested one-line functions, drop their definitions, inline the calls
    defs, body = {}, []
    for st in fn.body:
        if isinstance(st, ast.FunctionDef):
            if len(st.body) != 1 or not isinstance(st.body[0], ast.Return) or st.body[0].value is None \
                    or st.args.defaults or st.args.kwonlyargs or st.args.vararg or st.args.kwarg:
                raise Unsupported('nested def is not a one-line return: ' + st.name)
            defs[st.name] = ([a.arg for a in st.args.args], st.body[0].value)
        else:
            body.append(st)
    fn.body = body
    fn = Inline(defs).visit(fn)
    fn = Returns().visit(fn)
    fn.body.append(ast.Return(value=state_tuple()))
    ast.fix_missing_locations(fn)
    # fail closed on anything still touching self / canv
    for n in ast.walk(fn):
        if isinstance(n, ast.Name) and n.id in ('self', 'canv'):
            raise Unsupported('untranslated use of ' + n.id)
    return fn


def check_constants(tree):
    seen = {}
    for st in tree.body:
        if isinstance(st, ast.Assign) and len(st.targets) == 1 and isinstance(st.targets[0], ast.Name) \
                and st.targets[0].id in ACTION_VALUES:
            if not isinstance(st.value, ast.Constant):
                raise Unsupported('scroll action constant is not a literal: ' + st.targets[0].id)
            seen[st.targets[0].id] = st.value.value
    if set(seen) != set(ACTION_VALUES) or len(set(seen.values())) != len(seen):
        raise Unsupported(f'scroll action constants missing or not distinct: {seen}')


def generate(repo):
    rel = 'urwid/widget/scrollable.py'
    tree = parse(repo, rel)
    check_constants(tree)
    cls = next(n for n in ast.walk(tree) if isinstance(n, ast.ClassDef) and n.name == 'Scrollable')
    fn = prepare(find(cls, '_adjust_trim_top'))
    t = TrS(dict(ACTIONS), {}, {'coords_get': 'coords_get', 'coords_eqb': 'coords_eqb'})
    body = t.func(fn,
                  [('self_trim_top', 'Z'), ('self_scroll_action', 'scroll_action'),
                   ('self_old_cursor_coords', 'coords'), ('canv_rows_in', 'Z'), ('canv_cursor', 'coords'),
                   ('size', 'Z * Z')],
                  'adjust_trim_top_gen', 'Z * scroll_action * coords')
    return rel, 'From Urwid Require Import ScrollBase.\n\n' + body
