"""Gen/monitored_list_gen.v : MonitoredFocusList._adjust_focus_on_contents_modified (C16)."""
from py2v_core import Tr, find
from mods.common import parse

NAME = "monitored_list"

def generate(repo):
    rel = 'urwid/widget/monitored_list.py'
    ml = parse(repo, rel)
    t = Tr({}, {'self._focus': 'self_focus', 'len(self)': 'self_len', 'len(new_items)': 'num_new',
                'self._validate_contents_modified(indices, new_items)': '(@None Z)',
                'slc.indices(len(self))': '(slice_indices self_len slc_start slc_stop slc_step)'}, {})
    body = t.func(find(ml, '_adjust_focus_on_contents_modified'),
                  [('self_len', 'Z'), ('self_focus', 'Z'), ('slc_start', 'oz'), ('slc_stop', 'oz'),
                   ('slc_step', 'oz'), ('num_new', 'Z')], 'adjust_focus_gen', 'Z')
    return rel, body
