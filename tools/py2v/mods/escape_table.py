"""Gen/escape_table_gen.v : the key-sequence table and constants of urwid/display/escape.py (C05).

Import-free: the module-level statements `input_sequences = [...]`, `_keyconv = {...}`, the
MOUSE_* integer constants and the helper `escape_modifier` are EVALUATED from the `ast` of
escape.py by the small whitelisting interpreter below (literals, tuples, lists, generator
expressions with `for` clauses, zip/range/enumerate/str/ord, + * & // -, f-strings with the
`c`/`d` format and `!s`).  Anything else raises Unsupported (fail-closed: the Gen file then
contains a failing command and the proof cone breaks).

Output (strings are lists of code points):
  input_sequences : list (list Z * list Z)      (sequence after ESC, key name) in source order
  keyconv         : list (Z * option (list Z))  _keyconv (the `if IS_WINDOWS:` additions are skipped)
  MOUSE_RELEASE_FLAG, MOUSE_MULTIPLE_CLICK_MASK, MOUSE_MULTIPLE_CLICK_FLAG, MOUSE_DRAG_FLAG : Z

The trie itself is NOT built here: Model/KeyInput.v contains `trie_add`/`trie_build`, a line by
line model of KeyqueueTrie.__init__/add, and builds it from `input_sequences` inside Coq.
"""
import ast

from py2v_core import Unsupported
from mods.common import parse

NAME = "escape_table"
REL = "urwid/display/escape.py"


class Ev:
    """Whitelisting evaluator for the table-building expressions."""

    def __init__(self, funcs):
        self.funcs = funcs  # name -> ast.FunctionDef (pure helpers defined in the module)

    def ev(self, e, env):
        if isinstance(e, ast.Constant):
            if isinstance(e.value, (str, int)) and not isinstance(e.value, bool) or e.value is None:
                return e.value
            raise Unsupported(f"constant {e.value!r}")
        if isinstance(e, ast.Name):
            if e.id in env:
                return env[e.id]
            raise Unsupported(f"unbound name {e.id}")
        if isinstance(e, ast.Tuple):
            return tuple(self.seq(e.elts, env))
        if isinstance(e, ast.List):
            return list(self.seq(e.elts, env))
        if isinstance(e, ast.GeneratorExp):
            return list(self.comp(e.elt, e.generators, env))
        if isinstance(e, ast.UnaryOp) and isinstance(e.op, ast.USub):
            v = self.ev(e.operand, env)
            if not isinstance(v, int):
                raise Unsupported("unary minus on non-int")
            return -v
        if isinstance(e, ast.BinOp):
            a, b = self.ev(e.left, env), self.ev(e.right, env)
            if isinstance(e.op, ast.Add):
                if (isinstance(a, str) and isinstance(b, str)) or (isinstance(a, int) and isinstance(b, int)):
                    return a + b
                raise Unsupported("+ on mixed types")
            if isinstance(e.op, ast.Mult):
                if isinstance(a, str) and isinstance(b, int) or isinstance(a, int) and isinstance(b, int):
                    return a * b
                raise Unsupported("* on unsupported types")
            if not (isinstance(a, int) and isinstance(b, int)):
                raise Unsupported("integer operator on non-int")
            if isinstance(e.op, ast.Sub):
                return a - b
            if isinstance(e.op, ast.BitAnd):
                return a & b
            if isinstance(e.op, ast.FloorDiv):
                if b == 0:
                    raise Unsupported("division by zero")
                return a // b
            raise Unsupported(f"binop {type(e.op).__name__}")
        if isinstance(e, ast.JoinedStr):
            out = []
            for part in e.values:
                if isinstance(part, ast.Constant) and isinstance(part.value, str):
                    out.append(part.value)
                elif isinstance(part, ast.FormattedValue):
                    v = self.ev(part.value, env)
                    spec = ""
                    if part.format_spec is not None:
                        spec = self.ev(part.format_spec, env)
                    if part.conversion == ord("s"):
                        v = str(v) if isinstance(v, (int, str)) else self.bad("!s of non int/str")
                    elif part.conversion != -1:
                        raise Unsupported("f-string conversion")
                    if spec == "":
                        if not isinstance(v, (int, str)):
                            raise Unsupported("f-string value type")
                        out.append(str(v))
                    elif spec == "c" and isinstance(v, int) and 0 <= v < 0x110000:
                        out.append(chr(v))
                    elif spec == "d" and isinstance(v, int):
                        out.append(str(v))
                    else:
                        raise Unsupported(f"f-string format {spec!r}")
                else:
                    raise Unsupported("f-string part")
            return "".join(out)
        if isinstance(e, ast.Call):
            if e.keywords and not (isinstance(e.func, ast.Name) and e.func.id == "enumerate"):
                raise Unsupported("keyword arguments")
            if not isinstance(e.func, ast.Name):
                raise Unsupported("call of " + ast.unparse(e.func))
            f = e.func.id
            args = self.seq(e.args, env)
            if f == "zip":
                return [tuple(t) for t in zip(*[self.iterable(a) for a in args])]
            if f == "range" and 1 <= len(args) <= 3 and all(isinstance(a, int) for a in args):
                return list(range(*args))
            if f == "enumerate" and len(args) == 1:
                start = 0
                for kw in e.keywords:
                    if kw.arg != "start":
                        raise Unsupported("enumerate keyword")
                    start = self.ev(kw.value, env)
                return [tuple(t) for t in enumerate(self.iterable(args[0]), start)]
            if f == "str" and len(args) == 1 and isinstance(args[0], (int, str)):
                return str(args[0])
            if f == "ord" and len(args) == 1 and isinstance(args[0], str) and len(args[0]) == 1:
                return ord(args[0])
            if f in self.funcs:
                return self.call(self.funcs[f], args)
            raise Unsupported(f"call {f}")
        raise Unsupported(f"expr {type(e).__name__}: {ast.unparse(e)[:60]}")

    @staticmethod
    def bad(msg):
        raise Unsupported(msg)

    @staticmethod
    def iterable(v):
        if isinstance(v, (str, tuple, list)):
            return list(v)
        raise Unsupported("iteration over " + type(v).__name__)

    def seq(self, elts, env):
        out = []
        for x in elts:
            if isinstance(x, ast.Starred):
                out.extend(self.iterable(self.ev(x.value, env)))
            else:
                out.append(self.ev(x, env))
        return out

    def bind(self, target, value, env):
        if isinstance(target, ast.Name):
            env[target.id] = value
        elif isinstance(target, ast.Tuple):
            vals = self.iterable(value)
            if len(vals) != len(target.elts):
                raise Unsupported("unpack arity")
            for t, v in zip(target.elts, vals):
                self.bind(t, v, env)
        else:
            raise Unsupported("assignment target")

    def comp(self, elt, gens, env):
        if not gens:
            yield self.ev(elt, env)
            return
        g = gens[0]
        if g.ifs or g.is_async:
            raise Unsupported("comprehension condition")
        for v in self.iterable(self.ev(g.iter, env)):
            env2 = dict(env)
            self.bind(g.target, v, env2)
            yield from self.comp(elt, gens[1:], env2)

    def call(self, fn, args):
        """A helper function whose body is `name = expr` statements followed by `return expr`."""
        a = fn.args
        if a.vararg or a.kwarg or a.kwonlyargs or a.defaults or a.posonlyargs or len(a.args) != len(args):
            raise Unsupported("signature of " + fn.name)
        env = {p.arg: v for p, v in zip(a.args, args)}
        for st in fn.body:
            if isinstance(st, ast.Assign) and len(st.targets) == 1:
                self.bind(st.targets[0], self.ev(st.value, env), env)
            elif isinstance(st, ast.Return) and st.value is not None:
                return self.ev(st.value, env)
            elif isinstance(st, ast.Expr) and isinstance(st.value, ast.Constant) and isinstance(st.value.value, str):
                continue
            else:
                raise Unsupported("statement in " + fn.name)
        raise Unsupported("no return in " + fn.name)


def evaluate_table(repo):
    """Returns (input_sequences, keyconv, constants) evaluated from the source text only."""
    mod = parse(repo, REL)
    funcs = {n.name: n for n in mod.body if isinstance(n, ast.FunctionDef)}
    ev = Ev(funcs)
    seqs = keyconv = None
    consts = {}
    want = ("MOUSE_RELEASE_FLAG", "MOUSE_MULTIPLE_CLICK_MASK", "MOUSE_MULTIPLE_CLICK_FLAG", "MOUSE_DRAG_FLAG")
    for st in mod.body:
        tgt = None
        if isinstance(st, ast.Assign) and len(st.targets) == 1 and isinstance(st.targets[0], ast.Name):
            tgt, val = st.targets[0].id, st.value
        elif isinstance(st, ast.AnnAssign) and isinstance(st.target, ast.Name) and st.value is not None:
            tgt, val = st.target.id, st.value
        if tgt == "input_sequences":
            if seqs is not None:
                raise Unsupported("input_sequences assigned twice")
            seqs = ev.ev(val, {})
        elif tgt == "_keyconv":
            if keyconv is not None:
                raise Unsupported("_keyconv assigned twice")
            if not isinstance(val, ast.Dict) or any(k is None for k in val.keys):
                raise Unsupported("_keyconv is not a plain dict literal")
            keyconv = [(ev.ev(k, {}), ev.ev(v, {})) for k, v in zip(val.keys, val.values)]
        elif tgt in want:
            if tgt in consts:
                raise Unsupported(tgt + " assigned twice")
            consts[tgt] = ev.ev(val, {})
    # any other top-level statement touching the tables is unsupported, except the trie construction
    # `input_trie = KeyqueueTrie(input_sequences)` and the skipped `if IS_WINDOWS:` block (Windows only)
    for st in mod.body:
        if isinstance(st, (ast.FunctionDef, ast.ClassDef, ast.Import, ast.ImportFrom)):
            continue
        names = {n.id for n in ast.walk(st) if isinstance(n, ast.Name)}
        if not names & {"input_sequences", "_keyconv"}:
            continue
        if isinstance(st, ast.Assign) and len(st.targets) == 1 and isinstance(st.targets[0], ast.Name):
            if st.targets[0].id in ("input_sequences", "_keyconv"):
                continue
            if st.targets[0].id == "input_trie" and ast.unparse(st.value) == "KeyqueueTrie(input_sequences)":
                continue
        if isinstance(st, ast.If) and ast.unparse(st.test) == "IS_WINDOWS" and not st.orelse:
            continue
        raise Unsupported("top-level statement touching the tables: " + ast.unparse(st)[:60])
    if seqs is None or keyconv is None or set(consts) != set(want):
        raise Unsupported("table or constants not found")
    if not isinstance(seqs, list):
        raise Unsupported("input_sequences is not a list")
    for it in seqs:
        if not (isinstance(it, tuple) and len(it) == 2 and isinstance(it[0], str) and isinstance(it[1], str)):
            raise Unsupported(f"table entry {it!r}")
    for k, v in keyconv:
        if not isinstance(k, int) or not (v is None or isinstance(v, str)):
            raise Unsupported(f"_keyconv entry {k!r}: {v!r}")
    if len({k for k, _ in keyconv}) != len(keyconv):
        raise Unsupported("_keyconv has duplicate keys")
    for v in consts.values():
        if not isinstance(v, int):
            raise Unsupported("non-integer constant")
    return seqs, keyconv, consts


def zs(s):
    return "[" + "; ".join(str(ord(c)) if ord(c) >= 0 else f"({ord(c)})" for c in s) + "]"


def safe(s):
    return "".join(c if 32 <= ord(c) < 127 and c not in "*()" else "?" for c in s)


def generate(repo):
    seqs, keyconv, consts = evaluate_table(repo)
    out = []
    out.append("Definition input_sequences : list (list Z * list Z) := [\n"
               + ";\n".join(f"  ({zs(s)}, {zs(name)}) (* ESC {safe(s)} -> {safe(name)} *)" for s, name in seqs)
               + "\n].\n")
    def zk(k):
        return f"({k})" if k < 0 else str(k)
    out.append("Definition keyconv : list (Z * option (list Z)) := [\n"
               + ";\n".join(f"  ({zk(k)}, " + ("None" if v is None else f"Some {zs(v)}") + ")"
                            + (f" (* {safe(v)} *)" if v is not None else "") for k, v in keyconv)
               + "\n].\n")
    for k in sorted(consts):
        out.append(f"Definition {k} : Z := {consts[k]}.\n")
    return REL, "\n".join(out)
