"""Gen/geo_padfill_gen.v : int_scale, calculate_left_right_padding, calculate_top_bottom_filler (C09).

Self-contained copy for the C09 geometry model (own constructor names, so that it never clashes with
another property's generated file).  The padding / filler amounts the four geometry methods of
Padding, Filler and Overlay share are therefore re-translated from the source on every run."""
from py2v_core import Tr, find
from mods.common import parse

NAME = "geo_padfill"

ENUMS = {'WHSettings.RELATIVE': 'GRelative', 'WHSettings.CLIP': 'GClip', 'WHSettings.GIVEN': 'GGiven',
         'WHSettings.PACK': 'GPack', 'WHSettings.WEIGHT': 'GWeight',
         'Align.LEFT': 'GLeft', 'Align.CENTER': 'GCenter', 'Align.RIGHT': 'GRight',
         'VAlign.TOP': 'GTop', 'VAlign.MIDDLE': 'GMiddle', 'VAlign.BOTTOM': 'GBottom'}


def generate(repo):
    # int(E / D + 0.5): E / D + 0.5 is the rational (2E + D) / (2D); int() truncates toward zero = Z.quot.
    out = ['Definition round_half_up_div (e d : Z) := Z.quot (2*e + d) (2*d).\n',
           'Inductive gwtype := GRelative | GClip | GGiven | GPack | GWeight.\n'
           'Inductive gatype := GLeft | GCenter | GRight | GARelative.\n'
           'Inductive gvtype := GTop | GMiddle | GBottom | GVRelative.\n']
    util = parse(repo, 'urwid/util.py')
    out.append(Tr({}, {}, {}).func(find(util, 'int_scale'),
               [('val', 'Z'), ('val_range', 'Z'), ('out_range', 'Z')], 'int_scale', 'Z'))
    pad = parse(repo, 'urwid/widget/padding.py')
    t = Tr(ENUMS, {}, {'int_scale': 'int_scale'})
    out.append(t.func(find(pad, 'calculate_left_right_padding'),
               [('maxcol', 'Z'), ('align_type', 'gatype'), ('align_amount', 'Z'), ('width_type', 'gwtype'),
                ('width_amount', 'Z'), ('min_width', 'option Z'), ('left', 'Z'), ('right', 'Z')],
               'calculate_left_right_padding', 'Z * Z'))
    fil = parse(repo, 'urwid/widget/filler.py')
    t = Tr(ENUMS, {}, {'int_scale': 'int_scale'})
    out.append(t.func(find(fil, 'calculate_top_bottom_filler'),
               [('maxrow', 'Z'), ('valign_type', 'gvtype'), ('valign_amount', 'Z'), ('height_type', 'gwtype'),
                ('height_amount', 'Z'), ('min_height', 'option Z'), ('top', 'Z'), ('bottom', 'Z')],
               'calculate_top_bottom_filler', 'Z * Z'))
    return 'urwid/util.py urwid/widget/padding.py urwid/widget/filler.py', '\n'.join(out)
