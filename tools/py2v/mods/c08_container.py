"""Gen/c08_container_gen.v (C08): pieces of the container code that are small enough to translate.

* `command_table_gen`: the key -> command table `CommandMap._command_defaults` of urwid/command_map.py as a list of
  (code points of the key, command code).  Command codes are fixed here (COMMANDS).
* `pile_pos_invalid_gen`, `columns_pos_invalid_gen`, `gridflow_pos_invalid_gen`: the range test of the
  `focus_position` setters (`if position < 0 or position >= len(self.contents): raise IndexError`).
* `overlay_pos_invalid_gen`: `if position != 1: raise IndexError`.
Fail-closed: anything that does not have exactly the expected shape raises (gen.py then writes a failing file).
"""
import ast

from py2v_core import Tr, Unsupported
from mods.common import parse

NAME = "c08_container"

COMMANDS = {"UP": 1, "DOWN": 2, "LEFT": 3, "RIGHT": 4, "PAGE_UP": 5, "PAGE_DOWN": 6, "MAX_LEFT": 7, "MAX_RIGHT": 8,
            "REDRAW_SCREEN": 9, "ACTIVATE": 10, "MENU": 11, "SELECT_NEXT": 12, "SELECT_PREVIOUS": 13}


def find_class(tree, name):
    for n in ast.walk(tree):
        if isinstance(n, ast.ClassDef) and n.name == name:
            return n
    raise Unsupported("class " + name + " not found")


def command_table(repo):
    tree = parse(repo, "urwid/command_map.py")
    cls = find_class(tree, "CommandMap")
    table = None
    for st in cls.body:
        tgt = None
        if isinstance(st, ast.AnnAssign) and isinstance(st.target, ast.Name):
            tgt, val = st.target.id, st.value
        elif isinstance(st, ast.Assign) and len(st.targets) == 1 and isinstance(st.targets[0], ast.Name):
            tgt, val = st.targets[0].id, st.value
        if tgt == "_command_defaults":
            table = val
    if not isinstance(table, ast.Dict):
        raise Unsupported("CommandMap._command_defaults is not a dict literal")
    # the lookup must be a plain dict get with default None, and __init__ must copy the defaults
    getitem = [f for f in cls.body if isinstance(f, ast.FunctionDef) and f.name == "__getitem__"]
    if len(getitem) != 1 or ast.unparse(getitem[0].body[-1]) != "return self._command.get(key, None)":
        raise Unsupported("CommandMap.__getitem__ is not `return self._command.get(key, None)`")
    init = [f for f in cls.body if isinstance(f, ast.FunctionDef) and f.name == "__init__"]
    if len(init) != 1 or "self._command = self._command_defaults.copy()" not in ast.unparse(init[0]):
        raise Unsupported("CommandMap.__init__ does not copy _command_defaults")
    rows = []
    for k, v in zip(table.keys, table.values):
        if not (isinstance(k, ast.Constant) and isinstance(k.value, str)):
            raise Unsupported("non-string key in _command_defaults")
        src = ast.unparse(v)
        if not src.startswith("Command.") or src[len("Command."):] not in COMMANDS:
            raise Unsupported("unknown command " + src)
        rows.append((k.value, COMMANDS[src[len("Command."):]]))
    lines = ["  ([%s], %d)   (* %r -> %s *)" % ("; ".join(str(ord(c)) for c in key), code, key,
                                               [n for n, c in COMMANDS.items() if c == code][0])
             for key, code in rows]
    # "; " separators must stay outside the comments
    body = ""
    for idx, l in enumerate(lines):
        entry, comment = l.split("   (*")
        body += entry + (";" if idx < len(lines) - 1 else "") + "   (*" + comment + "\n"
    return ("(* key (code points) -> command code; codes: %s *)\n"
            "Definition command_table_gen : list (list Z * Z) := [\n%s].\n\n"
            % (", ".join("%d %s" % (c, n) for n, c in sorted(COMMANDS.items(), key=lambda x: x[1])), body))


def setter_test(repo, rel, cls_name, coqname, with_len):
    tree = parse(repo, rel)
    cls = find_class(tree, cls_name)
    setter = None
    for f in cls.body:
        if isinstance(f, ast.FunctionDef) and f.name == "focus_position" and any(
                ast.unparse(d) == "focus_position.setter" for d in f.decorator_list):
            setter = f
    if setter is None:
        raise Unsupported(cls_name + ".focus_position setter not found")
    body = [s for s in setter.body if not (isinstance(s, ast.Expr) and isinstance(s.value, ast.Constant))]
    if with_len:
        # try: if <test>: raise IndexError(...)  except TypeError: raise IndexError ;  self.contents.focus = position
        if len(body) != 2 or not isinstance(body[0], ast.Try) or ast.unparse(body[1]) != "self.contents.focus = position":
            raise Unsupported(cls_name + ".focus_position setter has an unexpected shape")
        tr = body[0]
        if len(tr.body) != 1 or not isinstance(tr.body[0], ast.If) or tr.body[0].orelse:
            raise Unsupported(cls_name + ".focus_position setter: unexpected try body")
        iff = tr.body[0]
        if len(tr.handlers) != 1 or ast.unparse(tr.handlers[0].type) != "TypeError" or "raise IndexError" not in ast.unparse(tr.handlers[0]):
            raise Unsupported(cls_name + ".focus_position setter: TypeError is not turned into IndexError")
    else:
        if len(body) != 1 or not isinstance(body[0], ast.If) or body[0].orelse:
            raise Unsupported(cls_name + ".focus_position setter has an unexpected shape")
        iff = body[0]
    if len(iff.body) != 1 or not isinstance(iff.body[0], ast.Raise) or not ast.unparse(iff.body[0]).startswith("raise IndexError("):
        raise Unsupported(cls_name + ".focus_position setter: the test does not raise IndexError")
    t = Tr({}, {"len(self.contents)": "len_contents"}, {})
    test = t.bexpr(iff.test, {"position": "position"})
    if with_len:
        return "Definition %s (position len_contents : Z) : bool := %s.\n" % (coqname, test)
    return "Definition %s (position : Z) : bool := %s.\n" % (coqname, test)


def generate(repo):
    out = command_table(repo)
    out += setter_test(repo, "urwid/widget/pile.py", "Pile", "pile_pos_invalid_gen", True)
    out += setter_test(repo, "urwid/widget/columns.py", "Columns", "columns_pos_invalid_gen", True)
    out += setter_test(repo, "urwid/widget/grid_flow.py", "GridFlow", "gridflow_pos_invalid_gen", True)
    out += setter_test(repo, "urwid/widget/overlay.py", "Overlay", "overlay_pos_invalid_gen", False)
    return "urwid/command_map.py, urwid/widget/{pile,columns,grid_flow,overlay}.py (focus_position setters)", out
