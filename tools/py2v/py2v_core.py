"""Prototype: fail-closed Python-ast -> Gallina translator for a tiny pure-integer subset."""
import ast, sys, textwrap, inspect
class Unsupported(Exception): pass
BIN={ast.Add:'+',ast.Sub:'-',ast.Mult:'*',ast.FloorDiv:'/',ast.Mod:'mod'}
CMP={ast.Lt:'<?',ast.LtE:'<=?',ast.Eq:'=?'}
class Tr:
    def __init__(s, enums, attr_params, builtins):
        s.enums=enums            # {'WHSettings.RELATIVE': 'WRelative', ...}  compile-time names -> constructors
        s.attr_params=attr_params  # {'self._focus':'focus', 'len(self)':'len'}
        s.builtins=builtins
        s.fresh=0; s.live_out=set()
    def name(s,n): return n.replace('_','_')
    def expr(s,e,env):
        src=ast.unparse(e)
        if src in s.attr_params: return s.attr_params[src]
        if src in s.enums: return s.enums[src]
        if isinstance(e,ast.Constant):
            if isinstance(e.value,bool): return 'true' if e.value else 'false'
            if isinstance(e.value,int): return f'({e.value})' if e.value<0 else str(e.value)
            if e.value is None: return 'None'
            raise Unsupported(f'constant {e.value!r}')
        if isinstance(e,ast.Name):
            if e.id in env: return env[e.id]
            raise Unsupported(f'unbound name {e.id}')
        if isinstance(e,ast.UnaryOp) and isinstance(e.op,ast.USub): return f'(- {s.expr(e.operand,env)})'
        if isinstance(e,ast.UnaryOp) and isinstance(e.op,ast.Not): return f'(negb {s.bexpr(e.operand,env)})'
        if isinstance(e,ast.BinOp):
            # float idiom int(E / D + 0.5) handled at Call
            if type(e.op) in BIN: return f'({s.expr(e.left,env)} {BIN[type(e.op)]} {s.expr(e.right,env)})'
            raise Unsupported(f'binop {ast.dump(e.op)}')
        if isinstance(e,ast.IfExp): return f'(if {s.bexpr(e.test,env)} then {s.expr(e.body,env)} else {s.expr(e.orelse,env)})'
        if isinstance(e,ast.Tuple): return '('+', '.join(s.expr(x,env) for x in e.elts)+')'
        if isinstance(e,ast.Call):
            f=ast.unparse(e.func)
            # len(list(range(...)))  ->  range_len
            if f=='len' and len(e.args)==1 and isinstance(e.args[0],ast.Call) and ast.unparse(e.args[0].func)=='list' and isinstance(e.args[0].args[0],ast.Call) and ast.unparse(e.args[0].args[0].func)=='range':
                ra=e.args[0].args[0].args
                if len(ra)==1 and isinstance(ra[0],ast.Starred):
                    return f"(let '(a_, b_, c_) := {s.expr(ra[0].value,env)} in range_len a_ b_ c_)"
                if len(ra)==3: return '(range_len '+' '.join(s.expr(a,env) for a in ra)+')'
                raise Unsupported('range arity')
            if f=='int' and len(e.args)==1:
                a=e.args[0]
                # int(E / D + 0.5)
                if isinstance(a,ast.BinOp) and isinstance(a.op,ast.Add) and isinstance(a.right,ast.Constant) and a.right.value==0.5 and isinstance(a.left,ast.BinOp) and isinstance(a.left.op,ast.Div):
                    return f'(round_half_up_div {s.expr(a.left.left,env)} {s.expr(a.left.right,env)})'
                return s.expr(a,env)   # int() of an int expression
            if f in ('max','min') and len(e.args)==2: return f'(Z.{f} {s.expr(e.args[0],env)} {s.expr(e.args[1],env)})'
            if f in s.builtins: return '('+s.builtins[f]+' '+' '.join(s.expr(a,env) for a in e.args)+')'
            # dict literal .get(k, d) with enum keys
            if isinstance(e.func,ast.Attribute) and e.func.attr=='get' and isinstance(e.func.value,ast.Dict):
                d=e.func.value; k=s.expr(e.args[0],env); dflt=s.expr(e.args[1],env)
                arms=' '.join(f'| {s.expr(kk,env)} => {s.expr(vv,env)}' for kk,vv in zip(d.keys,d.values))
                return f'(match {k} with {arms} | _ => {dflt} end)'
            raise Unsupported(f'call {f}')
        if isinstance(e,(ast.Compare,ast.BoolOp)): return s.bexpr(e,env)
        raise Unsupported(f'expr {type(e).__name__}: {src}')
    def bexpr(s,e,env):
        if isinstance(e,ast.BoolOp):
            op='&&' if isinstance(e.op,ast.And) else '||'
            return '('+f' {op} '.join(s.bexpr(v,env) for v in e.values)+')'
        if isinstance(e,ast.UnaryOp) and isinstance(e.op,ast.Not): return f'(negb {s.bexpr(e.operand,env)})'
        if isinstance(e,ast.Compare):
            parts=[]; left=e.left
            for op,right in zip(e.ops,e.comparators):
                if isinstance(op,ast.In) and isinstance(right,ast.Call) and ast.unparse(right.func)=='range':
                    parts.append(f'(in_range {s.expr(left,env)} '+' '.join(s.expr(a,env) for a in right.args)+')'); left=right; continue
                l,r=s.expr(left,env),s.expr(right,env)
                src_l,src_r=ast.unparse(left),ast.unparse(right)
                if src_r in s.enums or src_l in s.enums:
                    if isinstance(op,ast.Eq): parts.append(f'(match {l} with {r} => true | _ => false end)')
                    elif isinstance(op,ast.NotEq): parts.append(f'(match {l} with {r} => false | _ => true end)')
                    else: raise Unsupported('enum compare')
                elif isinstance(op,ast.Is) and src_r=='None': parts.append(f'(match {l} with None => true | Some _ => false end)')
                elif isinstance(op,ast.IsNot) and src_r=='None': parts.append(f'(match {l} with None => false | Some _ => true end)')
                elif type(op) in CMP: parts.append(f'({l} {CMP[type(op)]} {r})')
                elif isinstance(op,ast.Gt): parts.append(f'({r} <? {l})')
                elif isinstance(op,ast.GtE): parts.append(f'({r} <=? {l})')
                elif isinstance(op,ast.NotEq): parts.append(f'(negb ({l} =? {r}))')
                elif isinstance(op,ast.In) and isinstance(right,ast.Call) and ast.unparse(right.func)=='range':
                    parts.append(f'(in_range {l} '+' '.join(s.expr(a,env) for a in right.args)+')')
                else: raise Unsupported(f'cmp {type(op).__name__}')
                left=right
            return '('+' && '.join(parts)+')'
        if isinstance(e,ast.Constant) and isinstance(e.value,bool): return 'true' if e.value else 'false'
        if isinstance(e,ast.Name): return f'(negb ({env[e.id]} =? 0))'   # truthiness of an int
        if isinstance(e,ast.UnaryOp): return s.expr(e,env)
        raise Unsupported(f'bexpr {ast.unparse(e)}')
    # statements -> expression in continuation style; vars = tuple of live mutable variables
    def block(s,stmts,env,k):
        """translate stmts; k(env) gives the expression for 'falling off the end'"""
        if not stmts: return k(env)
        st,rest=stmts[0],stmts[1:]
        if isinstance(st,ast.Expr) and isinstance(st.value,ast.Constant): return s.block(rest,env,k)  # docstring
        if isinstance(st,ast.Return): return s.expr(st.value,env)
        if isinstance(st,(ast.Assign,ast.AugAssign,ast.AnnAssign)):
            if isinstance(st,ast.AugAssign):
                tgt=st.target; val=ast.BinOp(left=ast.Name(id=tgt.id,ctx=ast.Load()),op=st.op,right=st.value)
                targets=[tgt]
            elif isinstance(st,ast.AnnAssign): targets=[st.target]; val=st.value
            else: targets=st.targets; val=st.value
            if len(targets)==2 and isinstance(targets[0],ast.Tuple) and isinstance(targets[1],ast.Name):
                nm=s.newname(targets[1].id); env2=dict(env); env2[targets[1].id]=nm
                inner=ast.Assign(targets=[targets[0]],value=ast.Name(id=targets[1].id,ctx=ast.Load()))
                return f'let {nm} := {s.expr(val,env)} in\n'+s.block([inner]+list(rest),env2,k)
            if len(targets)!=1: # a = b = 0
                env2=dict(env); out=''
                v=s.expr(val,env)
                for t in targets:
                    nm=s.newname(t.id); out+=f'let {nm} := {v} in\n'; env2[t.id]=nm
                return out+s.block(rest,env2,k)
            t=targets[0]
            if isinstance(t,ast.Name):
                nm=s.newname(t.id); env2=dict(env); env2[t.id]=nm
                return f'let {nm} := {s.expr(val,env)} in\n'+s.block(rest,env2,k)
            if isinstance(t,ast.Tuple) and all(isinstance(x,ast.Name) for x in t.elts):
                env2=dict(env); nms=[]
                for x in t.elts:
                    nm=s.newname(x.id); env2[x.id]=nm; nms.append(nm)
                pat=nms[0]
                for nm in nms[1:]: pat=f'({pat}, {nm})'
                # tuple targets with '=' of name chain like start, stop, step = indices = call
                return f"let '{pat} := {s.expr(val,env)} in\n"+s.block(rest,env2,k)
            raise Unsupported(f'assign target {ast.unparse(t)}')
        if isinstance(st,ast.If):
            # join point: variables assigned in either branch become a tuple result
            later=set()
            for r_ in rest:
                for n_ in ast.walk(r_):
                    if isinstance(n_,ast.Name) and isinstance(n_.ctx,ast.Load): later.add(n_.id)
            assigned=sorted((s.assigned(st.body)|s.assigned(st.orelse)) & (later|s.live_out))
            def branch(body):
                saved=s.live_out; s.live_out=set(assigned)|saved
                def kk(env_b):
                    if not assigned: return 'tt'
                    vals=[env_b.get(a) for a in assigned]
                    if any(v is None for v in vals): raise Unsupported(f'variable possibly unbound after if: {assigned}')
                    r=vals[0]
                    for v in vals[1:]: r=f'({r}, {v})'
                    return r
                r_=s.block(body,env,kk); s.live_out=saved; return r_
            ret_then=s.always_returns(st.body); ret_else=s.always_returns(st.orelse) if st.orelse else False
            optvar=None
            if isinstance(st.test,ast.Compare) and len(st.test.ops)==1 and isinstance(st.test.ops[0],ast.IsNot) and ast.unparse(st.test.comparators[0])=='None' and isinstance(st.test.left,ast.Name):
                optvar=st.test.left.id
            if optvar:
                payload=s.newname(optvar+'_v'); env_then=dict(env); env_then[optvar]=payload
                scrut=env[optvar]
                if ret_then and not st.orelse:
                    return f'match {scrut} with Some {payload} => {s.block(st.body,env_then,None)}\n| None => {s.block(rest,env,k)} end'
                def branch_o(body,e_):
                    saved=s.live_out; s.live_out=set(assigned)|saved
                    def kk(env_b):
                        if not assigned: return 'tt'
                        vals=[env_b.get(a) for a in assigned]
                        if any(v is None for v in vals): raise Unsupported('unbound after if')
                        r=vals[0]
                        for v in vals[1:]: r=f'({r}, {v})'
                        return r
                    r_=s.block(body,e_,kk); s.live_out=saved; return r_
                env2=dict(env); nms=[]
                for a in assigned:
                    nm=s.newname(a); env2[a]=nm; nms.append(nm)
                pat='_' if not nms else nms[0]
                for nm in nms[1:]: pat=f'({pat}, {nm})'
                return f"let '{pat} := (match {scrut} with Some {payload} => {branch_o(st.body,env_then)} | None => {branch_o(st.orelse,env)} end) in\n"+s.block(rest,env2,k)
            cond=s.bexpr(st.test,env)
            if ret_then and not st.orelse:
                return f'if {cond} then {s.block(st.body,env,None)}\nelse {s.block(rest,env,k)}'
            if ret_then or ret_else: raise Unsupported('mixed return/fallthrough if-else')
            # pre-bind vars missing in env with themselves is impossible -> require bound
            env2=dict(env); nms=[]
            for a in assigned:
                nm=s.newname(a); env2[a]=nm; nms.append(nm)
            pat='_' if not nms else nms[0]
            for nm in nms[1:]: pat=f'({pat}, {nm})'
            return f"let '{pat} := (if {cond} then {branch(st.body)} else {branch(st.orelse)}) in\n"+s.block(rest,env2,k)
        if isinstance(st,ast.Raise): return 'py_error'
        raise Unsupported(f'statement {type(st).__name__}: {ast.unparse(st)[:60]}')
    def assigned(s,stmts):
        out=set()
        for st in stmts:
            for n in ast.walk(st):
                if isinstance(n,ast.Name) and isinstance(n.ctx,ast.Store): out.add(n.id)
        return out
    def always_returns(s,stmts):
        if not stmts: return False
        last=stmts[-1]
        if isinstance(last,(ast.Return,ast.Raise)): return True
        if isinstance(last,ast.If) and last.orelse: return s.always_returns(last.body) and s.always_returns(last.orelse)
        return False
    def newname(s,base):
        s.fresh+=1; return f'{base}_{s.fresh}'
    def func(s,fn,params,coqname,rettype):
        env={p:p for p,_ in params}
        body=s.block(fn.body,env,lambda env: (_ for _ in ()).throw(Unsupported('falls off end')))
        ps=' '.join(f'({p} : {t})' for p,t in params)
        return f'Definition {coqname} {ps} : {rettype} :=\n{textwrap.indent(body,"  ")}.\n'
def find(tree,name):
    for n in ast.walk(tree):
        if isinstance(n,ast.FunctionDef) and n.name==name: return n
    raise KeyError(name)
