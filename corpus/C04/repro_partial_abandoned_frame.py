"""partial display: a frame abandoned by SIGWINCH (second 'if self._resized: return') has already updated self._cy.
exit 1 while the defect is present"""
import sys
sys.path.insert(0, "/verif/corpus/fix_repros/A")
import urwid
from _scr import CapScreen, FakeCanvas, VT

urwid.set_encoding("utf-8")
s = CapScreen()
s._rows_used = 0
vt = VT(1, 3)


class Interrupting(FakeCanvas):
    def content(self, *a, **k):
        for row in super().content():
            s._sigwinch_handler()       # SIGWINCH while the frame is being produced
            yield row


rows = [[(None, None, b"a")], [(None, None, b"b")], [(None, None, b"c")]]
s.draw_screen((1, 3), FakeCanvas(rows, cursor=(0, 2)))
vt.feed(s.take())
s.draw_screen((1, 3), Interrupting(rows, cursor=(0, 0)))     # abandoned: nothing written, but _cy is now 0
vt.feed(s.take())
s._resized = False
s.draw_screen((1, 3), FakeCanvas([[(None, None, b"x")], [(None, None, b"b")], [(None, None, b"c")]], cursor=(0, 2)))
vt.feed(s.take())
got = ["".join(t for t, _cs, _sgr in row) for row in vt.grid]
print(got, "expected ['x', 'b', 'c']")
sys.exit(0 if got == ["x", "b", "c"] else 1)
