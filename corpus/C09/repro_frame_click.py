"""Observation (outside the literal statement of C09): a click below a short column that holds a Frame without
footer raises AttributeError (Columns.mouse_event does not bound the row, Frame.mouse_event assumes a footer)."""
import sys
import warnings

warnings.simplefilter("ignore")
import urwid

short = urwid.BoxAdapter(urwid.Frame(urwid.SolidFill("b")), 2)
tall = urwid.Text("1\n2\n3\n4")
c = urwid.Columns([short, tall])
print([t.decode() for t in c.render((6,), True).text])
try:
    c.mouse_event((6,), "mouse press", 1, 0, 3, True)
    print("no exception")
    sys.exit(0)
except AttributeError as e:
    print("AttributeError:", e)
    sys.exit(1)
