"""Observation (extension round 2, C09; belongs to the canvas properties C01/C02 as much as here; NOT repaired):
Pile.render(()) does not pad a fixed item that is narrower than the Pile: the combined canvas has rows of different
widths (cols() is the width of the FIRST item).  Once such a canvas is overlaid (Overlay width 'pack') or joined, rows
come out wider than maxcol and the widgets are drawn at positions none of get_cursor_coords / mouse_event /
move_cursor_to_coords computes.  Exit status 1 while present, 0 once repaired.
Proposed patch (urwid/widget/pile.py, Pile.render, branch `if not size`): pad every item canvas to the Pile's width,
e.g.  `if not size and canv.cols() < width: canv = CompositeCanvas(canv); canv.pad_trim_left_right(0, width - canv.cols())`
with width = self.pack((), focus)[0]."""
import sys
sys.path.insert(0, sys.argv[1] if len(sys.argv) > 1 else "/repo")
import urwid


class F(urwid.Widget):
    _sizing = frozenset([urwid.FIXED])

    def __init__(self, ch, w):
        super().__init__()
        self.ch, self.w = ch, w

    def pack(self, size=(), focus=False):
        return (self.w, 1)

    def render(self, size, focus=False):
        return urwid.TextCanvas([(self.ch * self.w).encode()], maxcol=self.w)


pile = urwid.Pile([(urwid.PACK, F("a", 1)), (urwid.PACK, F("b", 4))])
c = pile.render((), False)
rows = [t.decode() for t in c.text]
print("Pile.pack(()) =", pile.pack(()), " canvas cols =", c.cols(), " rows =", rows)
bad = len({len(r) for r in rows}) != 1 or c.cols() != pile.pack(())[0]
ov = urwid.Overlay(pile, urwid.SolidFill("."), align="left", width=urwid.PACK, valign="top", height=urwid.PACK, left=1)
try:
    c2 = ov.render((8, 3), False)
    rows2 = [t.decode() for t in c2.text]
    print("Overlay((8,3)) rows =", rows2)
    bad = bad or any(len(r) != 8 for r in rows2)
except Exception as e:  # noqa: BLE001
    print("Overlay((8,3)) over the ragged Pile raises", type(e).__name__, e)
    bad = True
sys.exit(1 if bad else 0)
