"""C09 finding: GridFlow.pack((maxcol,)) uses a stale display widget, so a Pile (which sizes its items with
pack()) reports a cursor offset by the wrong number of rows before the first rendering at that width.
Exit 1 while the defect is present."""
import sys
import warnings

warnings.simplefilter("ignore")
import urwid

g = urwid.GridFlow([urwid.Text("a"), urwid.Text("b")], 5, 0, 0, "left")
p = urwid.Pile([g, urwid.Edit("", "x")])
p.focus_position = 1
before = p.get_cursor_coords((5,))          # never rendered
rendered = p.render((5,), True).cursor
after = p.get_cursor_coords((5,))
print("get_cursor_coords before any rendering:", before, "| rendered cursor:", rendered, "| after rendering:", after)
# the same after a width change
p.render((12,), True)
resized = p.get_cursor_coords((5,))
print("after rendering at (12,), get_cursor_coords((5,)):", resized, "| rendering at (5,):", p.render((5,), True).cursor)
sys.exit(0 if before == rendered == resized else 1)
