"""C09 findings in urwid.Overlay (exit 1 while any of the three defects is present, 0 when all are repaired).
Run: /venv/bin/python corpus/C09/repro_overlay.py"""
import sys
import warnings

warnings.simplefilter("ignore")
import urwid

bad = 0

# (a) get_cursor_coords unpacks None: top widget has the method but no cursor
o = urwid.Overlay(urwid.Filler(urwid.Text("x")), urwid.SolidFill("."), "center", 5, "middle", 3)
try:
    got = o.get_cursor_coords((10, 6))
    ok = got == o.render((10, 6), True).cursor
except TypeError as e:
    ok, got = False, "TypeError: %s" % e
print("(a) Overlay(Filler(Text)).get_cursor_coords ->", got, "| rendered cursor", o.render((10, 6), True).cursor)
bad += not ok

# (b) get_cursor_coords hands (cols, rows) to a flow top widget (height='pack')
o = urwid.Overlay(urwid.Edit("", "ab"), urwid.SolidFill("."), "center", 5, "middle", "pack")
try:
    got = o.get_cursor_coords((10, 6))
    ok = got == o.render((10, 6), True).cursor
except ValueError as e:
    ok, got = False, "ValueError: %s" % e
print("(b) Overlay(Edit, height='pack').get_cursor_coords ->", got, "| rendered cursor", o.render((10, 6), True).cursor)
bad += not ok

# (c) height of a flow top widget taken at the overlay's full width: the lower rows of the drawn Edit are dead
hits = []


class E(urwid.Edit):
    def mouse_event(self, size, event, button, col, row, focus):
        hits.append(row)
        return super().mouse_event(size, event, button, col, row, focus)


o = urwid.Overlay(E("", "aaaa bbbb cccc dddd"), urwid.SolidFill("."), "center", 5, "middle", "pack")
canv = o.render((20, 10), True)
drawn = [y for y, line in enumerate(canv.text) if line.strip(b".").strip()]
reached = []
for y in drawn:
    del hits[:]
    o.mouse_event((20, 10), "mouse press", 1, 9, y, True)
    reached.append(bool(hits))
print("(c) rows on which the Edit is drawn:", drawn, "| press delivered:", reached)
bad += not all(reached)

sys.exit(1 if bad else 0)
