"""C01 findings: one minimal reproduction per defect (run with /venv/bin/python; prints what the real code does).
Each line shows the contract that is broken; corpus/C01/proposed_patches.diff repairs F1-F8."""
import warnings

warnings.simplefilter("ignore")
import urwid
from urwid import (BigText, CanvasCache, Divider, Edit, GridFlow, HalfBlock5x4Font, Overlay, Padding, Pile, ProgressBar,
                   SolidFill, Text, Thin3x3Font, str_util)


def widths(c):
    return [sum(str_util.calc_width(t, 0, len(t)) for _a, _cs, t in row) for row in c.content()]


def show(name, fn):
    CanvasCache.clear()
    try:
        print(name, "->", fn())
    except Exception as e:  # noqa: BLE001
        print(name, "-> RAISES", type(e).__name__, str(e)[:100].replace("\n", " "))


f3 = Thin3x3Font()
# F1 Pile does not pad ('pack', fixed-only widget) canvases to the pile's width
p = Pile([("pack", BigText("1", f3)), ("pack", BigText("12", f3))])
show("F1  fixed Pile: pack(()) vs render(()).cols() and row widths", lambda: (p.pack(()), p.render(()).cols(), widths(p.render(()))))
p = Pile([Text("x"), ("pack", BigText("1", f3))])
show("F1b flow Pile at 5 columns: row widths", lambda: widths(p.render((5,))))
# F2 fixed Padding: pack(()) and render(()) disagree
for name, w in (("F2  pack + min_width", Padding(Text("a"), "left", "pack", min_width=2, right=1)),
                ("F2b given + min_width", Padding(Divider("="), "center", 1, min_width=4)),
                ("F2c relative rounding", Padding(urwid.CheckBox("世界"), "left", ("relative", 75), right=3))):
    show(name + ": pack(()) vs render(()) size", lambda w=w: (w.pack(()), (w.render(()).cols(), w.render(()).rows())))
# F3 Overlay with height='pack' asks rows() at the full width
o = Overlay(Text("ab cd"), SolidFill("x"), "left", 1, "top", "pack")
show("F3  Overlay(Text('ab cd'), ..., width 1, height 'pack').render((7, 1))", lambda: o.render((7, 1)))
# F4 Overlay with a fixed top widget wider than the screen
o = Overlay(BigText("12", HalfBlock5x4Font()), SolidFill("#"), "right", "pack", "top", "pack")
show("F4  Overlay(BigText, width 'pack').render((5, 2))", lambda: o.render((5, 2)))
# F5 trimming keeps a cursor outside the canvas
p = Pile([(5, SolidFill(" ")), ("pack", Edit("", "a"))], focus_item=1)
show("F5  cursor of a 1x1 canvas", lambda: p.render((1, 1), True).cursor)
# F6 GridFlow.pack((maxcol,)) answers for the previously used width
g = GridFlow([Text("abc"), Text("defg")], 4, 0, 0, "left")
show("F6  rows((9,)), pack((3,)), rows((3,))", lambda: (g.rows((9,)), g.pack((3,)), g.rows((3,))))
pp = Padding(GridFlow([Text("a"), ProgressBar(None, None, 100)], 7, 2, 0, "center"), "left", "pack", right=2)
show("F6b Padding(GridFlow, 'pack'): rows((12,)), rows((3,)), render((3,)).rows()", lambda: (pp.rows((12,)), pp.rows((3,)), pp.render((3,)).rows()))
# F7 ProgressBar with smoothing
pb = ProgressBar("n", "c", 33, 100, "s")
show("F7  utf-8, 1 column: row widths", lambda: widths(pb.render((1,))))
urwid.set_encoding("ascii")
show("F7b ascii, 12 columns: row widths", lambda: widths(pb.render((12,))))
# F9 (repaired by f9cf74e) Overlay with height='pack' over a top widget without rows
o = Overlay(Pile([]), SolidFill("x"), "left", 3, "top", "pack")
show("F9  Overlay(Pile([]), SolidFill('x'), 'left', 3, 'top', 'pack').render((5, 3))", lambda: (o.render((5, 3)).cols(), o.render((5, 3)).rows()))
o = Overlay(Pile([]), SolidFill("x"), "left", 1, "bottom", "pack", min_width=1, min_height=1, left=2, right=1)
show("F9b valign='bottom', render((1, 7))", lambda: (o.render((1, 7)).cols(), o.render((1, 7)).rows()))
o = Overlay(Pile([]), SolidFill("x"), "left", ("relative", 50), "top", "pack", min_width=3, min_height=1, left=3, top=3)
show("F9c flow render((1,)) with top=3", lambda: (o.render((1,)).cols(), o.render((1,)).rows()))
# F10 (repaired by 69bd6e4) a padded 0-row canvas kept its 0-row shard; trimming/overlaying such a canvas gave ragged rows
c = urwid.Columns([(1, Text("a")), Pile([])])
show("F10  Columns([(1, Text('a')), Pile([])]).render((4,)): rows of the shards", lambda: [n for n, _ in c.render((4,)).shards])
o = Overlay(SolidFill("x"), urwid.Filler(c, "top"), "left", 1, "top", 1, left=1)
show("F10b Overlay over it, render((4, 2)): row widths (canvas.cols() is 4)", lambda: widths(o.render((4, 2))))
pc = Padding(urwid.Columns([Text("a"), (4, Pile([]))], dividechars=1, min_width=2), "left", "clip", left=1, right=1)
show("F10c clip Padding of such Columns, render((1,)): row widths (canvas.cols() is 1)", lambda: widths(pc.render((1,))))
# F11 Overlay(width='pack') over a FIXED top widget that packs to 0 rows: explicit OverlayError (known finding)
o = Overlay(Padding(Pile([]), "left", 7, min_width=4, right=2), SolidFill("x"), "left", "pack", "top", ("relative", 50), min_width=1, right=1, bottom=1)
show("F11 Overlay(Padding(Pile([]), 'left', 7, 4, 0, 2), ..., 'pack', 'top', ('relative', 50)).render((2, 9))", lambda: o.render((2, 9)))
# F8 zero-width combining character under a narrow encoding
urwid.set_encoding("euc-jp")
show("F8  Text('a\\u0301b', align='right').render((9,)) under euc-jp", lambda: Text("áb", align="right").render((9,)).text)
urwid.set_encoding("utf-8")
