"""Repro for the C08 findings (exit 1 while any of them reproduces)."""
import sys, warnings
warnings.simplefilter("ignore")
import urwid

bad = []

def check(name, fn):
    try:
        ok, detail = fn()
    except Exception as e:
        ok, detail = False, f"raised {type(e).__name__}: {e}"
    print(("ok   " if ok else "FAIL ") + name + " -- " + detail)
    if not ok:
        bad.append(name)

def pile_swallows_key():
    inner = urwid.Pile([urwid.Text("t")])
    outer = urwid.Pile([urwid.Text("a"), inner])          # outer._selectable == False
    inner.contents.append((urwid.Button("b"), inner.options()))   # inner becomes selectable, outer's cache is stale
    r = outer.keypress((20,), "x")
    return (r == "x" and outer.focus_position == 0), f"keypress('x') -> {r!r}, focus_position {outer.focus_position}"

def columns_empty_keypress():
    cols = urwid.Columns([urwid.Button("a")])
    pile = urwid.Pile([cols, urwid.Button("b")])
    cols.contents.clear()
    r = pile.keypress((20,), "x")
    return r == "x", f"keypress('x') -> {r!r}"

def listbox_string_position():
    lb = urwid.ListBox(urwid.SimpleFocusListWalker([urwid.Text("a")]))
    try:
        lb.focus_position = "x"
    except IndexError:
        return True, "IndexError"
    except Exception as e:
        return False, f"raised {type(e).__name__}: {e}"
    return False, "accepted"

def gridflow_empty_keypress():
    gf = urwid.GridFlow([], 10, 1, 1, "left")
    pile = urwid.Pile([gf, urwid.Button("b")])
    pile.focus_position = 0
    r = pile.keypress((20,), "down")
    return pile.focus_position == 1, f"keypress('down') -> {r!r}, focus_position {pile.focus_position}"

def frame_ctor_missing_part():
    try:
        f = urwid.Frame(urwid.SolidFill("x"), header=None, focus_part="header")
    except (IndexError, ValueError):
        return True, "rejected"
    return False, f"accepted: focus_position={f.focus_position!r} focus={f.focus!r}"

check("Pile with a stale selectable() == False cache returns an unhandled key", pile_swallows_key)
check("keypress through a Pile whose focus is an emptied Columns", columns_empty_keypress)
check("ListBox.focus_position = 'x' raises IndexError", listbox_string_position)
check("keypress 'down' leaving an empty GridFlow", gridflow_empty_keypress)
check("Frame(body, header=None, focus_part='header') is rejected", frame_ctor_missing_part)
sys.exit(1 if bad else 0)
