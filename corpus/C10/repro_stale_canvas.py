# fixed by 26ac819 (was known finding C10-edit-stale-text-canvas): exit 1 before the fix, 0 after
import urwid
e = urwid.Edit("", "abcdefgh", wrap="clip")      # cursor after the 'h'
c1 = e.render((4,), False)                         # unfocused render; its canvas stays alive (a screen keeps it)
c2 = e.render((4,), True)                          # the widget gains focus, nothing invalidated in between
print("focused canvas:", c2.text, "cursor", c2.cursor)
fresh = urwid.Edit("", "abcdefgh", wrap="clip").render((4,), True)
print("fresh focused :", fresh.text, "cursor", fresh.cursor)
raise SystemExit(0 if c2.text == fresh.text else 1)
