# fixed by 5b80e0b (was known finding C10-numedit-upper): exit 1 before the fix, 0 after
from urwid.numedit import IntegerEdit
bad = 0
for ch, base in (("ſ", 36), ("ı", 19), ("ﬆ", 30)):
    e = IntegerEdit("", "", base=base)
    r = e.keypress((10,), ch)
    print(repr(ch), "base", base, "-> returned", repr(r), "text", repr(e.edit_text))
    if e.edit_text:
        bad += 1
        try:
            e.value()
        except ValueError as ex:
            print("   value() raises:", ex)
raise SystemExit(1 if bad else 0)
