"""Scrollable.render at a size where the content fits resets the scroll position without _invalidate(): the canvas cached
for the smaller size keeps showing the old position.  exit 1 = defect present."""
import sys
import urwid
from urwid import CanvasCache
s = urwid.Scrollable(urwid.Divider("-", bottom=1))
s.set_scrollpos(1)
keep = s.render((8, 1))
other = s.render((8, 3))          # fits: the scroll position is reset to 0
cached = s.render((8, 1)).text
CanvasCache.clear()
fresh = s.render((8, 1)).text
print(cached, fresh)
sys.exit(1 if cached != fresh else 0)
