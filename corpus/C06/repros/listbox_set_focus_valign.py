"""ListBox.set_focus_valign does not call _invalidate().  exit 1 = defect present."""
import sys
import urwid
from urwid import CanvasCache
lb = urwid.ListBox(urwid.SimpleFocusListWalker([urwid.Text(str(i)) for i in range(6)]))
lb.set_focus(3)
lb.set_focus_valign("top")
keep = lb.render((4, 3), True)
lb.set_focus_valign("bottom")
cached = lb.render((4, 3), True).text
CanvasCache.clear()
fresh = lb.render((4, 3), True).text
print(cached, fresh)
sys.exit(1 if cached != fresh else 0)
