"""A flow-sized Overlay whose packed top widget has 0 rows does not depend on the top widget.  exit 1 = defect present."""
import sys
import warnings
import urwid
from urwid import CanvasCache
warnings.simplefilter("ignore")
p = urwid.Pile([])
ov = urwid.Overlay(p, urwid.SolidFill("#"), "center", ("relative", 60), "middle", "pack")
keep = ov.render((20,))
p.contents.append((urwid.Text("new"), p.options()))
cached = ov.render((20,)).text
CanvasCache.clear()
fresh = ov.render((20,)).text
print(cached, fresh)
sys.exit(1 if cached != fresh else 0)
