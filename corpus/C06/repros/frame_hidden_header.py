"""Frame.render does not depend on a header of height 0.  exit 1 = defect present."""
import sys
import urwid
from urwid import CanvasCache
h = urwid.Pile([])
top = urwid.Frame(urwid.ListBox([urwid.Text("body")]), header=h)
keep = top.render((8, 3))
h.contents.append((urwid.Text("head"), h.options()))
cached = top.render((8, 3)).text
CanvasCache.clear()
fresh = top.render((8, 3)).text
print(cached, fresh)
sys.exit(1 if cached != fresh else 0)
