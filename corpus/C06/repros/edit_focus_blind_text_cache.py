"""Edit.render goes through the cached Text.render (ignore_focus=True): the unfocused render reuses the canvas
laid out with the view shifted to the cursor.  exit 1 = defect present."""
import sys
import urwid
from urwid import CanvasCache
e = urwid.Edit("n:", "263")
keep = e.render((5,), True)            # a screen keeps the last canvas alive
cached = e.render((5,), False).text
CanvasCache.clear()
fresh = e.render((5,), False).text
print(cached, fresh)
sys.exit(1 if cached != fresh else 0)
