"""GridFlow.pack((maxcol,)) answers from the display widget generated for the previous width.  exit 1 = defect present."""
import sys
import warnings
import urwid
warnings.simplefilter("ignore")
g = urwid.GridFlow([urwid.Text("a"), urwid.Text("a")], 8, 0, 0, "left")
first = g.pack((8,))
g.rows((8,))
second = g.pack((8,))
print(first, second)
sys.exit(1 if first != second else 0)
