"""bottom row whose last run holds only a combining character: the mark is drawn before its base character.
exit 1 while the defect is present"""
import re
import sys
sys.path.insert(0, "/verif/corpus/fix_repros/A")
import urwid
from _scr import CapScreen, FakeCanvas

urwid.set_encoding("utf-8")
s = CapScreen(bce=False)
s.draw_screen((2, 1), FakeCanvas([[(None, None, b"ab"), ("other", None, "́".encode())]]))
data = s.take()
plain = re.sub(r"\x1b\[[0-9;?]*[A-Za-z]|\x1b\)0|[\x08\x0e\x0f]", "", data)
print(repr(data), repr(plain))
ok = "b́" in plain
print("ok" if ok else "the combining character is written after 'a', not after its base character 'b'")
sys.exit(0 if ok else 1)
