import warnings; warnings.simplefilter("ignore")
from urwid import vterm
class W:
    def __init__(s): s.term_modes = vterm.TermModes()
    def respond(s, x): print("reply", repr(x))
    def set_title(s, t): pass
    def beep(s): pass
    def leds(s, w): pass
def rows(t): return [b"".join(c[2] for c in r).decode() for r in t.term]
t = vterm.TermCanvas(4, 4, W()); t.addstr(b"aaaa\r\nbbbb\r\ncccc\r\ndddd\x1b[2;3r\x1b[?6h\x1b[J"); print("ED0 origin:", rows(t), t.term_cursor)
t = vterm.TermCanvas(4, 4, W()); t.addstr(b"aaaa\r\nbbbb\r\ncccc\r\ndddd\x1b[2;3r\x1b[?6h\x1b[2;2H\x1b[1J"); print("ED1 origin:", rows(t), t.term_cursor)
t = vterm.TermCanvas(4, 4, W()); t.addstr(b"aaaa\r\nbbbb\r\ncccc\r\ndddd\x1b[2;3r\x1b[?6h\x1b[2J"); print("ED2 origin:", rows(t), t.term_cursor)
t = vterm.TermCanvas(4, 4, W()); t.addstr(b"\x1b[2;3r\x1b[?6h\x1b[9;9H\x1b[6n\x1b[A\x1b[A\x1b[A\x1b[6n"); print(t.term_cursor)
