"""A ListBox that is the focus of a box Pile too short for its fixed items gets 0 rows; Pile.keypress still
forwards keys to it with size (maxcol, 0); after 'home' (or 'end') the next key raises ListBoxError."""
import sys, warnings
warnings.simplefilter("ignore")
import urwid

lb = urwid.ListBox(urwid.SimpleFocusListWalker([urwid.Button("a"), urwid.Button("b")]))
pile = urwid.Pile([("given", 12, urwid.SolidFill("x")), lb], focus_item=1)   # needs 12 rows + the list box
size = (20, 8)                                                              # the terminal has 8
pile.render(size, True)
bad = 0
for key in ("home", "enter"):
    try:
        r = pile.keypress(size, key)
        print(f"keypress({key!r}) -> {r!r}")
    except Exception as e:
        print(f"keypress({key!r}) raised {type(e).__name__}: {e}")
        bad = 1
# the list box alone, with the size the Pile hands it
lb2 = urwid.ListBox(urwid.SimpleFocusListWalker([urwid.Button("a"), urwid.Button("b")]))
for step in (lambda: lb2.keypress((20, 0), "end"), lambda: lb2.render((20, 0), True)):
    try:
        step()
    except Exception as e:
        print(f"ListBox at (20, 0): {type(e).__name__}: {e}")
        bad = 1
sys.exit(bad)
