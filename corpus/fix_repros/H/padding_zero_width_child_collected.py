"""Padding(width='pack') around an empty Text depends on the Text (set_depends) without holding its canvas; when the Text's
canvas is collected CanvasCache.cleanup deletes _deps[text] and the Padding is never invalidated.  exit 1 = defect."""
import sys
import urwid
from urwid import CanvasCache
t = urwid.Text("")
p = urwid.Padding(t, width="pack")
keep_t = t.render((8,))
keep_p = p.render((8,))
del keep_t                      # the Text's last canvas dies: cleanup() drops _deps[t]
t.set_text("a")
cached = p.render((8,)).text
CanvasCache.clear()
fresh = p.render((8,)).text
print(cached, fresh)
sys.exit(1 if cached != fresh else 0)
