# C10-bytes-key-utf8: exit 1 on the current tree, 0 with the proposed patch
import urwid
bad = 0
for enc, ch in (("latin-1", "é"), ("big5", "年"), ("euc-jp", "あ")):
    urwid.set_encoding(enc)
    e = urwid.Edit(b"", b"ab", edit_pos=1)
    e.keypress((10,), ch)
    want = b"a" + ch.encode(enc) + b"b"
    print(enc, repr(ch), "->", e.edit_text, "offset", e.edit_pos, "| expected", want, "offset", 1 + len(ch.encode(enc)))
    bad += e.edit_text != want
urwid.set_encoding("utf-8")
raise SystemExit(1 if bad else 0)
