"""C09 observation (extension round 2; NOT yet repaired in /repo): Padding with a GIVEN width rendered with size ().
render(()) hands (width_amount,) to the child, but get_cursor_coords / move_cursor_to_coords / mouse_event (and
get_pref_col / keypress) hand it () -> ValueError from a flow-only child such as Edit.  Reachable through
Columns([('pack', Padding(Edit(...), width=5, left=2)), ...]).render(()): sizing() of that Padding contains FIXED.
Exit status 1 while the defect is present, 0 once repaired.

Proposed patch (urwid/widget/padding.py, every `else: maxvals = ()` branch of get_cursor_coords,
move_cursor_to_coords, mouse_event, get_pref_col, keypress):
    -            maxvals = ()
    +            maxvals = (self._width_amount,) if self._width_type == WHSettings.GIVEN else ()
The extended model (Model/GeometryX.v, xpadding_node) mirrors the current code and its `fits` excludes a given
width at size (); after the repair: hand (pa_wamt, None) to the child in all four methods and drop that exclusion."""
import sys
sys.path.insert(0, sys.argv[1] if len(sys.argv) > 1 else "/repo")
import urwid
e = urwid.Edit("", "abc")
p = urwid.Padding(e, width=5, left=2)
bad = []
try:
    c = p.render((), True)
    print("render(()) ok:", c.cols(), "x", c.rows(), "cursor", c.cursor)
except Exception as x:  # noqa: BLE001
    print("render(()) raises", type(x).__name__, x); sys.exit(0)   # not renderable: nothing to compare
for name, call in (("get_cursor_coords", lambda: p.get_cursor_coords(())),
                   ("move_cursor_to_coords", lambda: p.move_cursor_to_coords((), 3, 0)),
                   ("mouse_event", lambda: p.mouse_event((), "mouse press", 1, 3, 0, True))):
    try:
        print(name, "->", call())
    except Exception as x:  # noqa: BLE001
        print(name, "raises", type(x).__name__, x); bad.append(name)
# reachable through a 'pack' column of a Columns rendered fixed
cols = urwid.Columns([(urwid.PACK, urwid.Padding(urwid.Edit("", "abc"), width=5, left=2)),
                      (urwid.PACK, urwid.Padding(urwid.Text("yy"), width=2))])
cv = cols.render((), True)
print("Columns.render(()) ok:", cv.cols(), "x", cv.rows(), "cursor", cv.cursor)
try:
    got = cols.get_cursor_coords(())
    print("Columns.get_cursor_coords(()) ->", got)
    if got != cv.cursor:
        bad.append("columns-differs")
except Exception as x:  # noqa: BLE001
    print("Columns.get_cursor_coords(()) raises", type(x).__name__, x); bad.append("columns")
sys.exit(1 if bad else 0)
