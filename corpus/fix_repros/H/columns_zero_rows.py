"""Columns.rows() never reports less than one row, but a flow Columns whose columns all have 0 rows
(e.g. an empty Pile, also inside LineBox) rendered a 0-row canvas.  Exit 0 when rows() == canvas rows."""
import sys, urwid
bad = []
for w in [urwid.Columns([urwid.Pile([])]), urwid.LineBox(urwid.Pile([])),
          urwid.Columns([(1, urwid.SolidFill("x")), urwid.Pile([])], box_columns=[0])]:
    if w.rows((5,)) != w.render((5,)).rows():
        bad.append((repr(w), w.rows((5,)), w.render((5,)).rows()))
print(bad or "PASS"); sys.exit(1 if bad else 0)
