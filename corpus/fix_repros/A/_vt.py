"""helper: build a TermCanvas without a running Terminal"""
import urwid
from urwid import vterm


class DummyWidget:
    def __init__(self):
        self.term_modes = vterm.TermModes()
        self.title = None
        self.responses = []
        self.beeps = 0
        self.leds = None

    def set_title(self, title):
        self.title = title

    def respond(self, s):
        self.responses.append(s)

    def beep(self):
        self.beeps += 1

    def leds(self, which):
        pass


def make(width=10, height=3, focus=False):
    w = DummyWidget()
    t = vterm.TermCanvas(width, height, w)
    t.has_focus = focus
    return t, w
