import sys
sys.path.insert(0, "/var/tmp/fix/repro-A")
import urwid
from _scr import draw, norm

fail = []
urwid.set_encoding("utf-8")
for rows in (
    [[(None, None, "世".encode())]],
    [[(None, None, b"xx")], [(None, None, "世".encode())]],
    [[(None, None, b"xx")], [("a", None, "世".encode())]],
):
    try:
        vt, data, want = draw(rows, 2)
    except Exception as e:
        fail.append(f"{rows}: {type(e).__name__}: {e}")
        continue
    if "screen scrolled" in vt.errors or norm(vt.texts()) != norm(want):
        got = ["".join(t for t, _ in row) for row in vt.texts()]
        fail.append(f"{rows}: screen shows {got} {vt.errors} (output {data!r})")
# through the widget path as well
try:
    scr_rows = [list(r) for r in urwid.Text("世").render((2,)).content()]
    vt, data, want = draw(scr_rows, 2)
except Exception as e:
    fail.append(f"Text('世') on 2x1: {type(e).__name__}: {e}")
if fail:
    print("\n".join(fail))
    sys.exit(1)
print("ok")
