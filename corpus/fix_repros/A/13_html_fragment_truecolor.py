import sys
import urwid
from urwid.display.html_fragment import HtmlGenerator

fail = []
urwid.set_encoding("utf-8")
for colors, want_fg, want_bg in ((2**24, "#ff8040", "#102030"), (256, "#ff875f", "#00005f"), (16, "#cd0000", "#e5e5e5"), (1, None, None), (88, None, None)):
    scr = HtmlGenerator()
    scr.set_terminal_properties(colors=colors)
    scr.register_palette_entry("pal", "dark red", "light gray", "standout", "#ff8040", "#102030")
    canvas = urwid.Text(("pal", "hi")).render((2,))
    del HtmlGenerator.fragments[:]
    try:
        scr.draw_screen((2, 1), canvas)
    except Exception as e:
        fail.append(f"colors={colors}: {type(e).__name__}: {e!r}")
        continue
    frag = HtmlGenerator.fragments[-1]
    if want_fg and f"color:{want_fg};background:{want_bg}" not in frag:
        fail.append(f"colors={colors}: expected {want_fg}/{want_bg} in {frag!r}")
del HtmlGenerator.fragments[:]
if fail:
    print("\n".join(fail))
    sys.exit(1)
print("ok")
