import sys
from urwid.display.common import AttrSpec, _color_desc_88, _color_desc_256

fail = []
try:
    fg = AttrSpec("h0", "default", 88).foreground
    if fg != "h0":
        fail.append(f"foreground {fg!r} != 'h0'")
except Exception as e:
    fail.append(f"AttrSpec('h0','default',88).foreground: {type(e).__name__}: {e}")
try:
    bg = AttrSpec("default", "h0", 88).background
    if bg != "h0":
        fail.append(f"background {bg!r} != 'h0'")
except Exception as e:
    fail.append(f"AttrSpec('default','h0',88).background: {type(e).__name__}: {e}")
try:
    repr(AttrSpec("h0", "h0", 88))
except Exception as e:
    fail.append(f"repr: {type(e).__name__}: {e}")
try:
    if _color_desc_88(0) != _color_desc_256(0):
        fail.append("_color_desc_88(0) != _color_desc_256(0)")
except Exception as e:
    fail.append(f"_color_desc_88(0): {type(e).__name__}: {e}")
for bad in (-1, 88):
    try:
        _color_desc_88(bad)
        fail.append(f"_color_desc_88({bad}) accepted")
    except ValueError:
        pass
if fail:
    print("\n".join(fail))
    sys.exit(1)
print("ok")
