import sys
import urwid
from urwid.display import escape

fail = []
urwid.set_encoding("euc-jp")
try:
    assert urwid.str_util.get_byte_encoding() == "wide"
    for codes, more in (([0xB0, 0xA1], False), ([0xB0, 0xA1, ord("x")], True), ([0xA4, 0x40 + 0x61], False)):
        try:
            keys, rest = escape.process_keyqueue(codes, more)
        except Exception as e:
            fail.append(f"{codes} more={more}: {type(e).__name__}: {e}")
            continue
        if len(keys) != 1 or not isinstance(keys[0], str) or list(rest) != codes[2:]:
            fail.append(f"{codes}: unexpected result {keys!r} {rest!r}")
    # first half only, more input pending -> MoreInputRequired
    try:
        escape.process_keyqueue([0xB0], True)
        fail.append("[0xB0] more=True: expected MoreInputRequired")
    except escape.MoreInputRequired:
        pass
    except Exception as e:
        fail.append(f"[0xB0] more=True: {type(e).__name__}: {e}")
    # ESC + double byte char
    try:
        keys, rest = escape.process_keyqueue([27, 0xB0, 0xA1], False)
        if len(keys) != 1 or not keys[0].startswith("meta ") or rest:
            fail.append(f"ESC+wide: unexpected {keys!r} {rest!r}")
    except Exception as e:
        fail.append(f"ESC+wide: {type(e).__name__}: {e}")
finally:
    urwid.set_encoding("utf-8")
if fail:
    print("\n".join(fail))
    sys.exit(1)
print("ok")
