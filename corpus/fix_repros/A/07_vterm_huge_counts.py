import signal
import sys
sys.path.insert(0, "/var/tmp/fix/repro-A")
from _vt import make


class Timeout(Exception):
    pass


def on_alarm(signum, frame):
    raise Timeout()


signal.signal(signal.SIGALRM, on_alarm)


def snapshot(t):
    return [[c[2] for c in row] for row in t.term]


def prepared(seq):
    t, w = make(10, 4)
    t.addstr(b"abcdefghi\r\nABCDEFGHI\r\n012345678\r\nzyxwvutsr")
    t.addstr(b"\x1b[2;4H")  # row 1, col 3
    t.addstr(seq)
    return snapshot(t)


fail = []
# (huge-count sequence, equivalent in-range sequence)
for name, huge, small in (
    ("ICH @", b"\x1b[99999999@", b"\x1b[7@"),
    ("DCH P", b"\x1b[99999999P", b"\x1b[7P"),
    ("IL L", b"\x1b[99999999L", b"\x1b[3L"),
    ("DL M", b"\x1b[99999999M", b"\x1b[3M"),
    ("IL L in scroll region", b"\x1b[1;3r\x1b[2;4H\x1b[99999999L", b"\x1b[1;3r\x1b[2;4H\x1b[2L"),
    ("DL M in scroll region", b"\x1b[1;3r\x1b[2;4H\x1b[99999999M", b"\x1b[1;3r\x1b[2;4H\x1b[2M"),
    ("ECH X", b"\x1b[99999999X", b"\x1b[7X"),
):
    signal.alarm(2)
    try:
        got = prepared(huge)
    except Timeout:
        fail.append(f"{name}: {huge!r} did not finish within 2 s")
        continue
    finally:
        signal.alarm(0)
    want = prepared(small)
    if got != want:
        fail.append(f"{name}: result differs from {small!r}:\n  got  {got}\n  want {want}")
if fail:
    print("\n".join(fail))
    sys.exit(1)
print("ok")
