import sys
from urwid.display import escape

fail = []
cases = [b"\x1b[<M", b"\x1b[<1;2M", b"\x1b[<1;2;3;4M", b"\x1b[<a;b;cM", b"\x1b[<;;m", b"\x1b[<1;\xb2;3M"]
for raw in cases:
    for more in (False, True):
        try:
            keys, rest = escape.process_keyqueue(list(raw), more)
        except escape.MoreInputRequired:
            fail.append(f"{raw!r} more={more}: MoreInputRequired on complete (malformed) report")
        except Exception as e:
            fail.append(f"{raw!r} more={more}: {type(e).__name__}: {e}")
        else:
            if keys and isinstance(keys[0], tuple):
                fail.append(f"{raw!r}: parsed as mouse event {keys}")
# well-formed still parses
keys, rest = escape.process_keyqueue(list(b"\x1b[<0;3;4Mx"), False)
if keys != [("mouse press", 1, 2, 3)] or list(rest) != [ord("x")]:
    fail.append(f"well-formed report broken: {keys} {rest}")
keys, rest = escape.process_keyqueue(list(b"\x1b[<0;3;4m"), False)
if keys != [("mouse release", 1, 2, 3)]:
    fail.append(f"well-formed release broken: {keys} {rest}")
if fail:
    print("\n".join(fail))
    sys.exit(1)
print("ok")
