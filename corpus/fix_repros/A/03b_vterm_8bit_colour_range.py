import sys
sys.path.insert(0, "/var/tmp/fix/repro-A")
from _vt import make

fail = []
for seq in (b"\x1b[48;5;99999999mX", b"\x1b[38;5;16777216mX", b"\x1b[38;5;999mX", b"\x1b[38;5;256mX"):
    t, w = make()
    try:
        t.addstr(seq)
        list(t.content())
    except Exception as e:
        fail.append(f"{seq!r}: {type(e).__name__}: {e}")
        continue
    if t.term[0][0][2] != b"X":
        fail.append(f"{seq!r}: X not written: {t.term[0][0]}")
t, w = make()
t.addstr(b"\x1b[38;5;196;48;5;255mX")
a = t.term[0][0][0]
if a is None or a.foreground != "#f00" or a.background != "g93":
    fail.append(f"valid 8 bit colour broken: {a!r}")
if fail:
    print("\n".join(fail))
    sys.exit(1)
print("ok")
