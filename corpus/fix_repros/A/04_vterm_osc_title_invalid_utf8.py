import sys
sys.path.insert(0, "/var/tmp/fix/repro-A")
from _vt import make

fail = []
for seq in (b"\x1b]0;\xff\xfe\x07", b"\x1b]0;a\x80b\x07", b"\x1b]2;\xbf\x1b\\", b"\x1b]0;\xc3(\x07"):
    t, w = make()
    try:
        t.addstr(seq)
    except Exception as e:
        fail.append(f"{seq!r}: {type(e).__name__}: {e}")
        continue
    if not isinstance(w.title, str):
        fail.append(f"{seq!r}: title not set: {w.title!r}")
# valid title unchanged
t, w = make()
t.addstr("\x1b]0;héllo;x\x07".encode("utf-8"))
if w.title != "héllo;x":
    fail.append(f"valid title broken: {w.title!r}")
if fail:
    print("\n".join(fail))
    sys.exit(1)
print("ok")
