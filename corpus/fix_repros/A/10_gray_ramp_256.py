import sys
from urwid.display import common
from urwid.display.common import AttrSpec, _color_desc_256, _parse_color_256

fail = []
want = [8 + 10 * k for k in range(24)]
if list(common._GRAY_STEPS_256) != want:
    bad = [(k, hex(v), hex(w)) for k, (v, w) in enumerate(zip(common._GRAY_STEPS_256, want)) if v != w]
    fail.append(f"_GRAY_STEPS_256 differs from xterm ramp 8+10*k at {bad}")
rgb = AttrSpec("h245", "default", 256).get_rgb_values()[:3]
if rgb != (0x8A, 0x8A, 0x8A):
    fail.append(f"colour 245 rgb {rgb} != (138, 138, 138)")
# exact gray 0x8a must select colour 245 and round trip
if _parse_color_256("g#8a") != 245:
    fail.append(f"g#8a -> {_parse_color_256('g#8a')} != 245")
for n in range(256):
    if _parse_color_256(_color_desc_256(n)) != n:
        fail.append(f"round trip of colour {n} via {_color_desc_256(n)!r} -> {_parse_color_256(_color_desc_256(n))}")
if fail:
    print("\n".join(fail))
    sys.exit(1)
print("ok")
