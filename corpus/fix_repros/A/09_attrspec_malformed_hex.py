import itertools
import sys
from urwid.display.common import AttrSpec, AttrSpecError

fail = []
named = ["#gggggg", "#ggg", "#gg", "#12345g", "#-12345", "#-1-1-1", "#+1+1+1", "#12 456", "# 12", "#-12", "hxx", "h", "h-1",
         "g#zz", "g#", "gxx", "g", "g-1", "g#-1", "#", "#1234", "#12345", "#1234567", "#0x1", "#0x1234"]
alphabet = "0fg-+ x_"
gen = set(named)
for prefix in ("#", "g#", "g", "h"):
    for n in range(0, 4):
        for tail in itertools.product(alphabet, repeat=n):
            gen.add(prefix + "".join(tail))
for tail in itertools.product("0g-", repeat=6):
    gen.add("#" + "".join(tail))

seen = set()
for colors in (1, 16, 88, 256, 2**24):
    for desc in sorted(gen):
        for fg, bg in ((desc, ""), ("", desc), (desc + ",bold", "")):
            try:
                a = AttrSpec(fg, bg, colors)
            except AttrSpecError:
                continue
            except Exception as e:
                key = (colors, desc, type(e).__name__)
                if key not in seen:
                    seen.add(key)
                    fail.append(f"AttrSpec({fg!r}, {bg!r}, {colors}): {type(e).__name__}: {e}")
                continue
            # accepted: the object must be usable
            try:
                a.foreground, a.background, repr(a)
                rgb = a.get_rgb_values()
                assert all(v is None or 0 <= v <= 255 for v in rgb), rgb
                assert a._value >= 0, a._value
                assert AttrSpec(a.foreground, a.background, colors) == a, "no round trip"
            except Exception as e:
                key = (colors, desc, "use")
                if key not in seen:
                    seen.add(key)
                    fail.append(f"AttrSpec({fg!r}, {bg!r}, {colors}) accepted but unusable: {type(e).__name__}: {e}")
# valid forms still accepted
for fg, colors, want in (("#ff8000", 2**24, "#ff8000"), ("#fff", 2**24, "#ffffff"), ("#ff8000", 256, "#f80"), ("#ff8000", 88, "#f80"),
                         ("g#80", 256, "g50"), ("h12", 88, "h12"), ("g50", 2**24, "#808080")):
    try:
        got = AttrSpec(fg, "", colors).foreground
    except Exception as e:
        fail.append(f"valid {fg!r}@{colors}: {type(e).__name__}: {e}")
        continue
    if got != want:
        fail.append(f"valid {fg!r}@{colors}: {got!r} != {want!r}")
if fail:
    shown = {}
    for line in fail:
        cat = (line.split(", ")[-1].split(")")[0], line.split("): ")[1].split(":")[0]) if "): " in line else ("", "")
        shown[cat] = shown.get(cat, 0) + 1
        if shown[cat] <= 4:
            print(line)
    print(f"... {len(fail)} failures in total")
    sys.exit(1)
print("ok")
