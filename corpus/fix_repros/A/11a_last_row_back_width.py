import sys
sys.path.insert(0, "/var/tmp/fix/repro-A")
import urwid
from _scr import draw, norm

fail = []
urwid.set_encoding("utf-8")
cases = [
    (" 世 世", 6),   # Y narrow, Z wide
    ("ab世c", 5),    # Y wide, Z narrow
    ("abcd", 4),     # both narrow (must keep working)
    ("世世", 4),     # both wide (must keep working)
    ("a世", 3),
    ("世a", 3),
]
for text, cols in cases:
    for split in range(0, len(text) + 1):
        # split the text into two attribute runs at every possible place
        parts = [p for p in (text[:split], text[split:]) if p]
        if len(parts) == 2:
            rows = [[("a", None, parts[0].encode()), ("b", None, parts[1].encode())]]
        else:
            rows = [[(None, None, parts[0].encode())]]
        rows = [[(None, None, b"x" * cols)]] + rows  # a row above, so that scrolling would be visible
        try:
            vt, data, want = draw(rows, cols)
        except Exception as e:
            fail.append(f"{text!r} cols={cols} split={split}: {type(e).__name__}: {e}")
            continue
        if vt.errors or norm(vt.texts()) != norm(want):
            got = ["".join(t for t, _ in row) for row in vt.texts()]
            fail.append(f"{text!r} cols={cols} split={split}: screen shows {got} {vt.errors} (output {data!r})")
if fail:
    print("\n".join(fail))
    sys.exit(1)
print("ok")
