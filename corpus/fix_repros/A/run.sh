#!/bin/sh
# usage: run.sh NN_slug.py
cd /var/tmp/fix/wt-A
export PYTHONPATH=/var/tmp/fix/wt-A
timeout 60 /venv/bin/python /var/tmp/fix/repro-A/$1; echo "repro exit=$?"
timeout 1200 /venv/bin/python -m pytest -q -p no:cacheprovider --timeout=900 --continue-on-collection-errors 2>&1 | tail -6
git status --short
