import sys
sys.path.insert(0, "/var/tmp/fix/repro-A")
from _vt import make

fail = []
for seq in (b"\x1b[1;999H", b"\x1b[999;1H", b"\x1b[999;999H", b"\x1b[?A", b"\x1b[99A", b"\x1b[99D", b"\x1b[99B", b"\x1b[99C", b"\x1b[2;3H"):
    t, w = make(10, 3, focus=True)
    t.addstr(seq)
    cur = t.cursor
    if cur is None:
        fail.append(f"{seq!r}: cursor None")
        continue
    x, y = cur
    if not (0 <= x < 10 and 0 <= y < 3):
        fail.append(f"{seq!r}: canvas cursor {cur} outside 10x3 (term_cursor {t.term_cursor})")
    elif (x, y) != tuple(t.term_cursor):
        fail.append(f"{seq!r}: canvas cursor {cur} != term_cursor {t.term_cursor}")
t, w = make(10, 3, focus=True)
t.addstr(b"\x1b[2;3H")
if t.cursor != (2, 1):
    fail.append(f"in-range cursor broken {t.cursor}")
if fail:
    print("\n".join(fail))
    sys.exit(1)
print("ok")
