import sys
sys.path.insert(0, "/var/tmp/fix/repro-A")
from _vt import make

fail = []
t, w = make(10, 3)
for i in range(20):
    t.addstr(b"L%02d\r\n" % i)
# screen now: L18, L19, <empty>; scrollback: L00..L17
t.scroll_buffer()  # up by height // 2 == 1
try:
    rows = list(t.content())
except Exception as e:
    print(f"content() after scroll_buffer(): {type(e).__name__}: {e}")
    sys.exit(1)
text = [b"".join(c[2] for c in row).rstrip() for row in rows]
if text != [b"L17", b"L18", b"L19"]:
    fail.append(f"scrolled 1: {text}")
t.scroll_buffer(lines=5)
text = [b"".join(c[2] for c in row).rstrip() for row in t.content()]
if text != [b"L12", b"L13", b"L14"]:
    fail.append(f"scrolled 6: {text}")
t.scroll_buffer(lines=1000)
text = [b"".join(c[2] for c in row).rstrip() for row in t.content()]
if text != [b"L00", b"L01", b"L02"]:
    fail.append(f"scrolled max: {text}")
t.scroll_buffer(reset=True)
text = [b"".join(c[2] for c in row).rstrip() for row in t.content()]
if text != [b"L18", b"L19", b""]:
    fail.append(f"reset: {text}")
if fail:
    print("\n".join(fail))
    sys.exit(1)
print("ok")
