import sys
sys.path.insert(0, "/var/tmp/fix/repro-A")
import urwid
from urwid.display.common import AttrSpec
from _scr import CapScreen, draw

fail = []
urwid.set_encoding("utf-8")


def sgr_has(sgr, code):
    return str(code) in sgr.split(";")


for name, code in (("strikethrough", 9), ("underline", 4), ("standout", 7)):
    # AttrSpec used directly
    spec = AttrSpec(f"default,{name}", "default")
    scr = CapScreen(bce=True)
    scr.register_palette_entry("pal", f"default,{name}", "default")
    for attr in (spec, "pal"):
        rows = [[(attr, None, b"ab   ")], [(None, None, b"xxxxx")]]
        vt, data, want = draw(rows, 5, screen=scr)
        scr.clear()
        cells = vt.grid[0]
        bad = [x for x in range(5) if not sgr_has(cells[x][2], code)]
        if bad:
            fail.append(f"{name} via {attr!r}: columns {bad} of 'ab   ' drawn without SGR {code}: "
                        f"{[c[2] for c in cells]} (output {data!r})")
# plain trailing blanks still use the erase shortcut
vt, data, want = draw([[(None, None, b"ab   ")], [(None, None, b"xxxxx")]], 5)
if "\x1b[K" not in data:
    fail.append(f"plain trailing blanks no longer erased with EL: {data!r}")
if fail:
    print("\n".join(fail))
    sys.exit(1)
print("ok")
