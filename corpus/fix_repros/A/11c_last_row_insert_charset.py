import sys
sys.path.insert(0, "/var/tmp/fix/repro-A")
import urwid
from _scr import draw, norm

fail = []
urwid.set_encoding("iso8859-1")
try:
    for ycs in (None, "0", "U"):
        for zcs in (None, "0", "U"):
            for pcs in (None, "0", "U"):
                rows = [
                    [(None, None, b"xxxxx")],
                    [(None, pcs, b"abc"), (None, ycs, b"q"), (None, zcs, b"j")],
                ]
                vt, data, want = draw(rows, 5, encoding="iso8859-1")
                if vt.errors or norm(vt.texts()) != norm(want):
                    fail.append(
                        f"charsets P={pcs!r} Y={ycs!r} Z={zcs!r}: last row shows {vt.texts()[-1]} "
                        f"want {want[-1]} {vt.errors} (output {data!r})"
                    )
finally:
    urwid.set_encoding("utf-8")
if fail:
    print("\n".join(fail))
    sys.exit(1)
print("ok")
