import sys
sys.path.insert(0, "/var/tmp/fix/repro-A")
from _vt import make

fail = []
for seq in (b"\x1b[38;2;999;999;999mX", b"\x1b[48;2;256;0;0mX", b"\x1b[38;2;0;0;99999999mX", b"\x1b[38;2;255;128;0;48;2;1;2;3mX"):
    t, w = make()
    try:
        t.addstr(seq)
        list(t.content())
    except Exception as e:
        fail.append(f"{seq!r}: {type(e).__name__}: {e}")
        continue
    if t.term[0][0][2] != b"X":
        fail.append(f"{seq!r}: X not written: {t.term[0][0]}")
# valid value retained exactly
t, w = make()
t.addstr(b"\x1b[38;2;255;128;0;48;2;1;2;3mX")
a = t.term[0][0][0]
if a is None or a.foreground != "#ff8000" or a.background != "#010203":
    fail.append(f"valid true colour broken: {a!r}")
if fail:
    print("\n".join(fail))
    sys.exit(1)
print("ok")
