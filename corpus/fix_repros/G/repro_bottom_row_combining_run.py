"""bottom row: a run that starts with a combining character loses the mark in the insert trick.
exit 1 while the defect is present"""
import sys
sys.path.insert(0, "/verif/corpus/fix_repros/A")
import urwid
from _scr import CapScreen, FakeCanvas

urwid.set_encoding("utf-8")
s = CapScreen(bce=False)
s.draw_screen((2, 1), FakeCanvas([[(None, None, b"Y"), ("other", None, "́".encode()), (None, None, b" ")]]))
data = s.take()
print(repr(data))
# the mark must be written right after its base character 'Y' (only escape sequences may come between)
import re
plain = re.sub(r"\x1b\[[0-9;?]*[A-Za-z]|\x1b\)0|[\x0e\x0f]", "", data)
ok = "Ý" in plain
print("ok" if ok else "the combining character is not written after its base character: " + repr(plain))
sys.exit(0 if ok else 1)
