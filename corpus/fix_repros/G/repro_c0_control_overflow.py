"""A C0 control character in the canvas text is measured as zero columns by str_util (so the canvas row is
'full' without it) but draw_screen paints it as '?' (one column): the row is one column too long.
exit 1 while the defect is present"""
import sys
sys.path.insert(0, "/verif/corpus/fix_repros/A")
import urwid
from _scr import CapScreen, VT

urwid.set_encoding("utf-8")
canvas = urwid.CompositeCanvas(urwid.Filler(urwid.Text("ab\x01cd\nwxyz"), "top").render((4, 2)))
s = CapScreen()
s.draw_screen((4, 2), canvas)
vt = VT(4, 2)
vt.feed(s.take())
rows = ["".join(t for t, _cs, _sgr in row) for row in vt.grid]
print(rows, vt.errors)
ok = rows == ["abcd", "wxyz"] and not vt.errors
sys.exit(0 if ok else 1)
