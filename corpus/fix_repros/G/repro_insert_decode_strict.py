"""The bottom-right insert trick decodes the inserted character strictly although every run is decoded with
errors='replace': a byte that is not valid in the output encoding raises UnicodeDecodeError only when it is the
last-but-one character of the bottom row.  exit 1 while the defect is present"""
import sys
sys.path.insert(0, "/verif/corpus/fix_repros/A")
import urwid
from _scr import CapScreen, FakeCanvas

urwid.set_encoding("ascii")
s = CapScreen()
s.draw_screen((3, 2), FakeCanvas([[(None, "U", b"\xdbab")], [(None, None, b"xyz")]]))   # fine: replaced
print(repr(s.take()))
try:
    s.clear()
    s.draw_screen((3, 2), FakeCanvas([[(None, None, b"xyz")], [(None, "U", b"a\xdbb")]]))
except UnicodeDecodeError as e:
    print("UnicodeDecodeError", e)
    sys.exit(1)
print(repr(s.take()))
sys.exit(0)
