"""HtmlGenerator.draw_screen decodes the runs strictly; the raw display decodes the same canvas with
errors='replace'.  exit 1 while the defect is present"""
import sys
import urwid
from urwid.display import html_fragment

urwid.set_encoding("ascii")
gen = html_fragment.HtmlGenerator()
canvas = urwid.TextCanvas([b"a\xdbb"], maxcol=3, check_width=False)
try:
    gen.draw_screen((3, 1), canvas)
except UnicodeDecodeError as e:
    print("UnicodeDecodeError", e)
    urwid.set_encoding("utf-8")
    sys.exit(1)
print(html_fragment.screenshot_collect()[-1])
urwid.set_encoding("utf-8")
sys.exit(0)
