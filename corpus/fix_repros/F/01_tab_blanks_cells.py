"""F1: TermCanvas.tab() must only move the cursor, not blank the cells it passes over."""
import os
import sys

sys.path.insert(0, os.path.dirname(os.path.abspath(__file__)))
from _vt import Checker, make, rows

check = Checker()

t = make(12, 1)
t.addstr(b"ab\x08\x09")
check("HT after BS keeps the character under the cursor", (rows(t), t.term_cursor), (["ab          "], (8, 0)))

t = make(12, 1)
t.addstr(b"ab\b\tc")
check("HT moves to the next tab stop without erasing", (rows(t), t.term_cursor), (["ab      c   "], (9, 0)))

t = make(20, 1)
t.addstr(b"abcdefghijklmnopqrst\r\t")
check("CR HT on a full line leaves the line alone", (rows(t), t.term_cursor), (["abcdefghijklmnopqrst"], (8, 0)))

t = make(12, 1)
t.addstr(b"abcdefghijkl\r\t\t")
check("HT past the last stop goes to the last column, line intact", (rows(t), t.term_cursor), (["abcdefghijkl"], (11, 0)))

check.exit()
