"""helper: build a TermCanvas without a running Terminal"""
import warnings

warnings.simplefilter("ignore")

from urwid import vterm  # noqa: E402


class DummyWidget:
    def __init__(self):
        self.term_modes = vterm.TermModes()

    def set_title(self, title):
        pass

    def respond(self, s):
        pass

    def beep(self):
        pass

    def leds(self, which):
        pass


def make(width=10, height=3):
    return vterm.TermCanvas(width, height, DummyWidget())


def rows(t):
    return [b"".join(c[2] for c in r).decode() for r in t.term]


class Checker:
    def __init__(self):
        self.bad = 0

    def __call__(self, name, got, want):
        ok = got == want
        self.bad += not ok
        print(("ok   " if ok else "FAIL ") + name, "got", got, "" if ok else f"want {want!r}")

    def exit(self):
        raise SystemExit(1 if self.bad else 0)
