"""F2: palette colours (30-37, 40-47, 90-97, 100-107, 38;5;n, 48;5;n) in a true-colour attrspec."""
import os
import sys

sys.path.insert(0, os.path.dirname(os.path.abspath(__file__)))
from _vt import Checker, make

check = Checker()

RED, GREEN, BLUE = (205, 0, 0), (0, 205, 0), (0, 0, 238)


def rgb(seq, n):
    t = make(max(n, 2), 1)
    t.addstr(seq)
    return [c[0].get_rgb_values() if c[0] is not None else None for c in t.term[0][:n]]


check(
    "SGR 31 / 38;5;2 after a true-colour fg are red / green",
    [v[:3] for v in rgb(b"\x1b[38;2;1;2;3mA\x1b[31mB\x1b[38;5;2mC", 3)],
    [(1, 2, 3), RED, GREEN],
)
check(
    "SGR 91 / 38;5;196 after a true-colour fg",
    [v[:3] for v in rgb(b"\x1b[38;2;1;2;3mA\x1b[91mB\x1b[38;5;196mC", 3)],
    [(1, 2, 3), (255, 0, 0), (255, 0, 0)],
)
check(
    "SGR 44 / 104 / 48;5;2 after a true-colour bg",
    [v[3:] for v in rgb(b"\x1b[48;2;1;2;3mA\x1b[44mB\x1b[104mC\x1b[48;5;2mD", 4)],
    [(1, 2, 3), BLUE, (92, 92, 255), GREEN],
)
check(
    "palette bg set before the fg becomes true colour stays blue",
    rgb(b"\x1b[44mA\x1b[38;2;1;2;3mB", 2),
    [(None, None, None, *BLUE), (1, 2, 3, *BLUE)],
)
check(
    "256-colour fg set before the bg becomes true colour stays green",
    rgb(b"\x1b[38;5;2mA\x1b[48;2;1;2;3mB", 2)[1],
    (*GREEN, 1, 2, 3),
)
check(
    "palette and true colour in one SGR",
    rgb(b"\x1b[31;48;2;1;2;3mA", 1)[0],
    (*RED, 1, 2, 3),
)
check(
    "true colours survive a later unrelated SGR",
    rgb(b"\x1b[38;2;1;2;3;48;2;4;5;6mA\x1b[4mB", 2)[1],
    (1, 2, 3, 4, 5, 6),
)
check(
    "true colour replaced in the same SGR",
    rgb(b"\x1b[31;38;2;1;2;3mA\x1b[38;2;9;9;9;32mB", 2),
    [(1, 2, 3, None, None, None), (*GREEN, None, None, None)],
)

check.exit()
