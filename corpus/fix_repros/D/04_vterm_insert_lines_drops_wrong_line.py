"""D4: CSI L (insert line) must drop the LAST line of the scrolling region, not the one above it."""
import os, sys
sys.path.insert(0, os.path.dirname(os.path.abspath(__file__)))
from vt import mk, rows, Checker

check = Checker()
t = mk(4, 4); t.addstr(b"aaa\r\nbbb\r\nccc\r\nddd\x1b[2;1H\x1b[L")
check("IL 1 at row 2, full screen", rows(t), ["aaa ", "    ", "bbb ", "ccc "])
t = mk(4, 4); t.addstr(b"aaa\r\nbbb\r\nccc\r\nddd\x1b[1;1H\x1b[2L")
check("IL 2 at row 1, full screen", rows(t), ["    ", "    ", "aaa ", "bbb "])
t = mk(4, 5); t.addstr(b"aaa\r\nbbb\r\nccc\r\nddd\r\neee\x1b[2;4r\x1b[2;1H\x1b[L")
check("IL 1 at top of region 2..4", rows(t), ["aaa ", "    ", "bbb ", "ccc ", "eee "])
t = mk(4, 5); t.addstr(b"aaa\r\nbbb\r\nccc\r\nddd\r\neee\x1b[2;4r\x1b[4;1H\x1b[L")
check("IL 1 on last line of region 2..4", rows(t), ["aaa ", "bbb ", "ccc ", "    ", "eee "])
t = mk(4, 4); t.addstr(b"aaa\r\nbbb\r\nccc\r\nddd\x1b[4;1H\x1b[L")
check("IL 1 on the last screen line", rows(t), ["aaa ", "bbb ", "ccc ", "    "])
check("grid stays height x width", [len(r) for r in t.term], [4, 4, 4, 4])
check.exit()
