"""D3: ellipsis wrap under a double-byte encoding: the ellipsis is measured as a str but inserted as bytes."""
import sys
import urwid
from urwid import text_layout

bad = 0
try:
    for enc, want_w in (("euc-jp", 2), ("utf-8", 1), ("ascii", 3)):
        urwid.set_encoding(enc)
        for txt in (b"abcd", "abcd", b"abcdefgh\nxy", "abcdefgh\nxy"):
            for cols in range(1, 8):
                try:
                    canv = urwid.Text(txt, wrap="ellipsis").render((cols,))
                    rows = canv.text
                    for r in rows:
                        w = urwid.calc_width(r, 0, len(r))
                        if w != cols:
                            bad += 1
                            print("FAIL row width", enc, txt, cols, r, w)
                except Exception as e:  # noqa: BLE001
                    bad += 1
                    print("FAIL", enc, repr(txt), cols, type(e).__name__, e)
        # the ellipsis segment of the layout is as wide as its encoded text
        segs = text_layout.StandardTextLayout().layout(b"abcdefghijkl", 6, "left", "ellipsis")
        ell = [s for s in segs[0] if len(s) == 3 and isinstance(s[2], bytes)]
        if len(ell) != 1 or ell[0][0] != want_w or urwid.calc_width(ell[0][2], 0, len(ell[0][2])) != want_w:
            bad += 1
            print("FAIL ellipsis segment", enc, ell, "want width", want_w)
finally:
    urwid.set_encoding("utf-8")
sys.exit(1 if bad else 0)
