"""D1: AttrSpec.get_rgb_values() hex-splits a BASIC colour number at colors=2**24."""
import sys
from urwid.display.common import AttrSpec, _BASIC_COLOR_VALUES, _BASIC_COLORS

bad = 0
for i, name in enumerate(_BASIC_COLORS):
    want = tuple(_BASIC_COLOR_VALUES[i])
    got = AttrSpec("#123456", name, 2**24).get_rgb_values()
    if got != (0x12, 0x34, 0x56, *want):
        bad += 1
        print("FAIL bg", name, got, "want", (0x12, 0x34, 0x56, *want))
    got = AttrSpec(name, "#123456", 2**24).get_rgb_values()
    if got != (*want, 0x12, 0x34, 0x56):
        bad += 1
        print("FAIL fg", name, got, "want", (*want, 0x12, 0x34, 0x56))
    for colors in (16, 88, 256, 2**24):
        got = AttrSpec(name, name, colors).get_rgb_values()
        if got != want + want:
            bad += 1
            print("FAIL both", name, colors, got)
# unchanged behaviours
checks = [
    (AttrSpec("yellow", "#ccf", colors=88).get_rgb_values(), (255, 255, 0, 205, 205, 255)),
    (AttrSpec("default", "g92").get_rgb_values(), (None, None, None, 238, 238, 238)),
    (AttrSpec("#123456", "#abcdef", 2**24).get_rgb_values(), (0x12, 0x34, 0x56, 0xAB, 0xCD, 0xEF)),
    (AttrSpec("#123456", "default", 2**24).get_rgb_values(), (0x12, 0x34, 0x56, None, None, None)),
]
for got, want in checks:
    if got != want:
        bad += 1
        print("FAIL", got, "want", want)
sys.exit(1 if bad else 0)
