"""D2: a basic/default-only AttrSpec declared at 2**24 does not equal the spec rebuilt from its own description."""
import sys
import itertools
from urwid.display.common import AttrSpec, _BASIC_COLORS
from urwid.display.raw import Screen

bad = 0
descs = ["default", *_BASIC_COLORS, "default,bold", "dark red,underline", "h200", "#123456", "#fea", "g40"]
scr = Screen()
scr.set_terminal_properties(colors=2**24)
for fg, bg in itertools.product(descs, descs):
    if "," in bg:
        continue
    for colors in (2**24, 256, 88, 16):
        try:
            a = AttrSpec(fg, bg, colors)
        except Exception:
            continue
        b = AttrSpec(a.foreground, a.background, a.colors)
        if a != b or hash(a) != hash(b):
            bad += 1
            print("FAIL roundtrip", (fg, bg, colors), "->", (a.foreground, a.background, a.colors), hex(a._value), hex(b._value))
        if (b.foreground, b.background, b.colors, b.get_rgb_values()) != (a.foreground, a.background, a.colors, a.get_rgb_values()):
            bad += 1
            print("FAIL observers differ", (fg, bg, colors))
        if scr._attrspec_to_escape(a) != scr._attrspec_to_escape(b):
            bad += 1
            print("FAIL escape differs", (fg, bg, colors))

# basic-only specs at 2**24 are the same spec as at 16 (same observable properties)
a, b = AttrSpec("dark red", "default", 2**24), AttrSpec("dark red", "default", 16)
if a != b:
    bad += 1
    print("FAIL", a, "!=", b, hex(a._value), hex(b._value))
a, b = AttrSpec("default", "default", 2**24), AttrSpec("default", "default", 1)
if a != b:
    bad += 1
    print("FAIL default/default", hex(a._value), hex(b._value))
# true colours still work
a = AttrSpec("h200", "dark red", 2**24)
if not (a.colors == 2**24 and a.foreground_true and a.foreground == "#ff00d7" and a.background == "dark red"):
    bad += 1
    print("FAIL h200", a.colors, a.foreground, a.background)
a = AttrSpec("dark red", "#123456", 2**24)
if not (a.colors == 2**24 and a.background_true and a.background == "#123456"):
    bad += 1
    print("FAIL true bg", a.colors, a.background)
sys.exit(1 if bad else 0)
