"""D10: content() while scrolled back after resize() must yield height rows of width cells, in order."""
import os, sys
sys.path.insert(0, os.path.dirname(os.path.abspath(__file__)))
from vt import mk, Checker

check = Checker()


def text(t):
    return [b"".join(c[2] for c in r).decode() for r in t.content()]


t = mk(5, 2); t.addstr(b"11111\r\n2222\r\n333\r\n44"); t.scroll_buffer(up=True, lines=1)
check("before resize", text(t), ["2222 ", "333  "])
t.resize(3, 2)
check("narrower: scrollback rows are clipped", text(t), ["222", "333"])
check("narrower: stored scrollback is kept", [len(r) for r in t.scrollback_buffer], [5, 5])
t.resize(7, 2)
check("wider: scrollback rows are padded", text(t), ["2222   ", "333    "])
check("rows are distinct cells lists of width", [len(r) for r in t.content()], [7, 7])
t.resize(3, 2)
t.resize(3, 4)
check("grown: scrollback consumed, scrolling_up clamped", (t.scrolling_up, len(t.scrollback_buffer)), (0, 0))
check("grown: height rows", text(t), ["111", "222", "333", "44 "])
# partly consumed scrollback
t = mk(4, 2); t.addstr(b"a\r\nb\r\nc\r\nd\r\ne\r\nf"); t.scroll_buffer(up=True, lines=4)
check("scrolled to the top", (t.scrolling_up, text(t)), (4, ["a   ", "b   "]))
t.resize(4, 4)
check("grown by 2: clamped to the remaining scrollback", (t.scrolling_up, len(t.scrollback_buffer)), (2, 2))
check("grown by 2: content", text(t), ["a   ", "b   ", "c   ", "d   "])
t.scroll_buffer(reset=True)
check("reset", text(t), ["c   ", "d   ", "e   ", "f   "])
# shrinking keeps the view position
t = mk(4, 3); t.addstr(b"a\r\nb\r\nc\r\nd"); t.scroll_buffer(up=True, lines=1); t.resize(2, 2)
check("shrunk while scrolled back", (t.scrolling_up, text(t)), (1, ["b ", "c "]))
check.exit()
