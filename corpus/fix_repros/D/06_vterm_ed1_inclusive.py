"""D6: ESC[1J erases from the start of the display THROUGH the cursor cell (VT100: inclusive)."""
import os, sys
sys.path.insert(0, os.path.dirname(os.path.abspath(__file__)))
from vt import mk, rows, Checker

check = Checker()
t = mk(4, 1); t.addstr(b"abcd\x1b[1;3H\x1b[1J")
check("ED 1 single row, cursor col 3", rows(t), ["   d"])
check("cursor unchanged", t.term_cursor, (2, 0))
t = mk(4, 3); t.addstr(b"abcd\r\nefgh\r\nijkl\x1b[2;2H\x1b[1J")
check("ED 1 multi row, cursor (2,2)", rows(t), ["    ", "  gh", "ijkl"])
t = mk(4, 3); t.addstr(b"abcd\r\nefgh\r\nijkl\x1b[2;1H\x1b[1J")
check("ED 1 cursor in column 1", rows(t), ["    ", " fgh", "ijkl"])
t = mk(4, 3); t.addstr(b"abcd\r\nefgh\r\nijkl\x1b[3;4H\x1b[1J")
check("ED 1 cursor at the last cell", rows(t), ["    ", "    ", "    "])
t = mk(4, 3); t.addstr(b"abcd\r\nefgh\r\nijkl\x1b[1;1H\x1b[1J")
check("ED 1 cursor at home", rows(t), [" bcd", "efgh", "ijkl"])
# same as EL 1 on the cursor's row
t = mk(4, 1); t.addstr(b"abcd\x1b[1;3H\x1b[1K")
check("EL 1 (reference)", rows(t), ["   d"])
check.exit()
