"""D5: CSI L / CSI M with the cursor outside the scrolling region must be ignored (VT102/xterm)."""
import os, sys
sys.path.insert(0, os.path.dirname(os.path.abspath(__file__)))
from vt import mk, rows, Checker

check = Checker()
full = ["aaa ", "bbb ", "ccc ", "ddd "]
fill = b"aaa\r\nbbb\r\nccc\r\nddd"
t = mk(4, 4); t.addstr(fill + b"\x1b[1;2r\x1b[4;1H\x1b[L")
check("IL below the region is ignored", rows(t), full)
t = mk(4, 4); t.addstr(fill + b"\x1b[1;2r\x1b[3;1H\x1b[M")
check("DL below the region is ignored", rows(t), full)
t = mk(4, 4); t.addstr(fill + b"\x1b[2;3r\x1b[1;1H\x1b[M")
check("DL above the region is ignored", rows(t), full)
t = mk(4, 4); t.addstr(fill + b"\x1b[2;3r\x1b[1;1H\x1b[L")
check("IL above the region is ignored", rows(t), full)
check("cursor unchanged", t.term_cursor, (0, 0))
# inside the region both still work
t = mk(4, 4); t.addstr(fill + b"\x1b[2;3r\x1b[2;1H\x1b[L")
check("IL on first line of region", rows(t), ["aaa ", "    ", "bbb ", "ddd "])
t = mk(4, 4); t.addstr(fill + b"\x1b[2;3r\x1b[3;1H\x1b[L")
check("IL on last line of region", rows(t), ["aaa ", "bbb ", "    ", "ddd "])
t = mk(4, 4); t.addstr(fill + b"\x1b[2;3r\x1b[2;1H\x1b[M")
check("DL on first line of region", rows(t), ["aaa ", "ccc ", "    ", "ddd "])
t = mk(4, 4); t.addstr(fill + b"\x1b[2;3r\x1b[3;1H\x1b[M")
check("DL on last line of region", rows(t), ["aaa ", "bbb ", "    ", "ddd "])
check.exit()
