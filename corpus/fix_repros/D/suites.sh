#!/bin/sh
cd /var/tmp/fix/wt-D
export PYTHONPATH=/var/tmp/fix/wt-D
/venv/bin/python -m pytest -q -p no:cacheprovider --timeout=900 --continue-on-collection-errors 2>&1 | tail -4
timeout 900 /venv/bin/python -m pytest -q -p no:cacheprovider tests -q 2>&1 | tail -3
git status --short
