"""D7: explicit cursor positioning must clear the pending-wrap flag (is_rotten_cursor)."""
import os, sys
sys.path.insert(0, os.path.dirname(os.path.abspath(__file__)))
from vt import mk, rows, Checker

check = Checker()


def run(w, h, data):
    t = mk(w, h)
    t.addstr(data)
    return rows(t), t.term_cursor, t.is_rotten_cursor


check("CUP to the last column", run(3, 2, b"abc\x1b[1;3HX"), (["abX", "   "], (2, 0), True))
check("HVP to the last column", run(3, 2, b"abc\x1b[1;3fX"), (["abX", "   "], (2, 0), True))
check("CHA to the last column", run(3, 2, b"abc\x1b[3GX"), (["abX", "   "], (2, 0), True))
check("CUU in the last column", run(3, 2, b"\nabc\x1b[AX"), (["  X", "abc"], (2, 0), True))
check("CUD in the last column", run(3, 2, b"abc\x1b[BX"), (["abc", "  X"], (2, 1), True))
check("VPA in the last column", run(3, 2, b"abc\x1b[2dX"), (["abc", "  X"], (2, 1), True))
check("CUF at the right margin", run(3, 2, b"abc\x1b[CX"), (["abX", "   "], (2, 0), True))
check("CUB from the right margin", run(3, 2, b"abc\x1b[DX"), (["aXc", "   "], (2, 0), False))
check("CUB then CUF", run(3, 2, b"abc\x1b[D\x1b[CX"), (["abX", "   "], (2, 0), True))
check("restore cursor (ESC 8)", run(3, 2, b"ab\x1b7c\x1b8X"), (["abX", "   "], (2, 0), True))
check("restore cursor (CSI u)", run(3, 2, b"ab\x1b[sc\x1b[uX"), (["abX", "   "], (2, 0), True))
check("CUP just clears the flag", run(3, 2, b"abc\x1b[1;3H"), (["abc", "   "], (2, 0), False))
# on a one-column terminal every column is the last one
check("CR, width 1", run(1, 3, b"a\rb")[0], ["b", " ", " "])
check("BS, width 1", run(1, 3, b"a\bb")[0], ["b", " ", " "])
check("set scroll region, width 1", run(1, 3, b"a\x1b[1;2rb")[0], ["b", " ", " "])
check("origin mode set, width 1", run(1, 3, b"a\x1b[?6hb")[0], ["b", " ", " "])
check("origin mode reset, width 1", run(1, 3, b"a\x1b[?6lb")[0], ["b", " ", " "])
# unchanged: plain autowrap, CR LF after a full line
check("autowrap", run(3, 2, b"abcd"), (["abc", "d  "], (1, 1), False))
check("full line CR LF", run(3, 2, b"abc\r\nd"), (["abc", "d  "], (1, 1), False))
check("SGR keeps the pending wrap", run(3, 2, b"abc\x1b[1md")[0:2], (["abc", "d  "], (1, 1)))
check.exit()
