"""helpers for the vterm repro scripts"""
import warnings

warnings.simplefilter("ignore")
from urwid import vterm  # noqa: E402


class W:
    def __init__(self):
        self.term_modes = vterm.TermModes()
        self.r = []

    def respond(self, x):
        self.r.append(x)

    def set_title(self, t):
        pass

    def beep(self):
        pass

    def leds(self, w):
        pass


def mk(w, h):
    return vterm.TermCanvas(w, h, W())


def rows(t):
    return [b"".join(c[2] for c in r).decode() for r in t.term]


class Checker:
    def __init__(self):
        self.bad = 0

    def __call__(self, name, got, want):
        ok = got == want
        self.bad += not ok
        print(("ok   " if ok else "FAIL ") + name, "got", got, "" if ok else f"want {want!r}")

    def exit(self):
        raise SystemExit(1 if self.bad else 0)
