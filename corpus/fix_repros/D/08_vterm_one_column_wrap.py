"""D8: one-column terminal: the character written after a wrap is in the last column, so the wrap stays pending."""
import os, sys
sys.path.insert(0, os.path.dirname(os.path.abspath(__file__)))
from vt import mk, rows, Checker

check = Checker()
t = mk(1, 3); t.addstr(b"abc")
check("1x3 'abc'", (rows(t), t.term_cursor, t.is_rotten_cursor), (["a", "b", "c"], (0, 2), True))
t = mk(1, 3); t.addstr(b"abcde")
check("1x3 'abcde' scrolls", (rows(t), t.term_cursor, len(t.scrollback_buffer)), (["c", "d", "e"], (0, 2), 2))
t = mk(1, 4); t.addstr(b"ab\r\ncd")
check("1x4 'ab CR LF cd'", (rows(t), t.term_cursor), (["a", "b", "c", "d"], (0, 3)))
# wider terminals are unchanged
t = mk(2, 3); t.addstr(b"abcde")
check("2x3 'abcde'", (rows(t), t.term_cursor, t.is_rotten_cursor), (["ab", "cd", "e "], (1, 2), False))
t = mk(2, 3); t.addstr(b"abcd")
check("2x3 'abcd'", (rows(t), t.term_cursor, t.is_rotten_cursor), (["ab", "cd", "  "], (1, 1), True))
check.exit()
