"""D9: autowrap with the cursor below the scrolling region must not scroll the region."""
import os, sys
sys.path.insert(0, os.path.dirname(os.path.abspath(__file__)))
from vt import mk, rows, Checker

check = Checker()
t = mk(2, 3); t.addstr(b"\x1b[1;2r\x1b[3;1Hxyz")
check("wrap on the last screen row below the region", (rows(t), t.term_cursor, len(t.scrollback_buffer)),
      (["  ", "  ", "zy"], (1, 2), 0))
t = mk(2, 4); t.addstr(b"aa\r\nbb\x1b[1;2r\x1b[3;1Hxyz")
check("wrap below the region moves down", (rows(t), t.term_cursor, len(t.scrollback_buffer)),
      (["aa", "bb", "xy", "z "], (1, 3), 0))
t = mk(2, 4); t.addstr(b"aa\r\nbb\r\ncc\r\ndd\x1b[2;3r\x1b[1;1Hxyz")
check("wrap above the region moves down", (rows(t), t.term_cursor, len(t.scrollback_buffer)),
      (["xy", "zb", "cc", "dd"], (1, 1), 0))
# unchanged: on the region's last line the region scrolls
t = mk(2, 4); t.addstr(b"aa\r\nbb\r\ncc\r\ndd\x1b[2;3r\x1b[3;1Hxyz")
check("wrap on the last line of the region scrolls it", (rows(t), t.term_cursor, len(t.scrollback_buffer)),
      (["aa", "xy", "z ", "dd"], (1, 2), 1))
t = mk(2, 2); t.addstr(b"abcde")
check("wrap on the last line of the full screen scrolls", (rows(t), t.term_cursor, len(t.scrollback_buffer)),
      (["cd", "e "], (1, 1), 1))
check.exit()
