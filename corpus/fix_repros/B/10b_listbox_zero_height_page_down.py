"""B10b: 'page down' / 'page up' with a zero-height focus widget must not raise ListBoxError."""
import sys
import traceback

import urwid
from urwid import ListBox, SimpleFocusListWalker, Text

fails = []
SIZE = (5, 3)


class Zero(urwid.Widget):
    _sizing = frozenset([urwid.FLOW])

    def rows(self, size, focus=False):
        return 0

    def render(self, size, focus=False):
        return urwid.SolidCanvas(" ", size[0], 0)


def run(label, widgets, focus, keys):
    lb = ListBox(SimpleFocusListWalker(widgets))
    lb.set_focus(focus)
    try:
        lb.render(SIZE)
        for key in keys:
            lb.keypress(SIZE, key)
            canv = lb.render(SIZE)
            if (canv.cols(), canv.rows()) != SIZE:
                fails.append(f"{label} {keys}: canvas size {(canv.cols(), canv.rows())}")
    except Exception:
        fails.append(f"{label} focus={focus} {keys}: {traceback.format_exc().splitlines()[-1]}")


for n in (0, 1, 2, 3, 5):
    texts = lambda: [Text(str(i)) for i in range(n)]
    for keys in (["page down"], ["page down", "page down"], ["page up"], ["page up", "page down"], ["end", "page down"]):
        run(f"{n} texts + Zero (last)", [*texts(), Zero()], n, keys)
        run(f"Zero (first) + {n} texts", [Zero(), *texts()], 0, keys)
        if n:
            run(f"{n} texts + Zero + {n} texts", [*texts(), Zero(), *texts()], n, keys)

if fails:
    print("\n".join(fails))
    print(f"{len(fails)} failures")
    sys.exit(1)
print("ok")
