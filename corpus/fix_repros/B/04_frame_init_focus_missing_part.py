"""B4: Frame(body, header=None, focus_part="header") must be rejected like the focus_position setter does."""
import sys

from urwid import Edit, Filler, Frame, SolidFill, Text

fails = []
for part in ("header", "footer"):
    try:
        f = Frame(SolidFill(), focus_part=part)
    except IndexError:
        continue
    fails.append(f"Frame(body, focus_part={part!r}) accepted: focus_position={f.focus_position!r}, focus={f.focus!r}")
    try:
        f.get_cursor_coords((10, 5))
    except AttributeError as exc:
        fails.append(f"  get_cursor_coords((10, 5)) -> AttributeError: {exc}")

# valid constructions keep working
Frame(SolidFill(), header=Text("h"), focus_part="header")
Frame(SolidFill(), footer=Text("f"), focus_part="footer")
e = Edit("x")
assert Frame(SolidFill(), header=e, focus_part=e).focus_position == "header"

if fails:
    print("\n".join(fails))
    sys.exit(1)
print("ok")
