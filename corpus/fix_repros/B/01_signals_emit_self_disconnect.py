"""B1: a handler disconnecting itself during emit must not cause the next handler to be skipped."""
import sys

import urwid
from urwid.signals import Signals

fails = []


class Obj:
    pass


# case 1: A disconnects itself -> A, B, C all called exactly once
s = Signals()
s.register(Obj, ["sig"])
o = Obj()
called = []


def a():
    called.append("A")
    s.disconnect(o, "sig", a)


def b():
    called.append("B")


def c():
    called.append("C")


s.connect(o, "sig", a)
s.connect(o, "sig", b)
s.connect(o, "sig", c)
s.emit(o, "sig")
if called != ["A", "B", "C"]:
    fails.append(f"self-disconnect: called {called}, expected ['A', 'B', 'C']")
called.clear()
s.emit(o, "sig")
if called != ["B", "C"]:
    fails.append(f"second emit: called {called}, expected ['B', 'C']")

# case 2: B disconnects the earlier handler A -> C must still be called
s2 = Signals()
s2.register(Obj, ["sig"])
o2 = Obj()
called2 = []


def a2():
    called2.append("A")


def b2():
    called2.append("B")
    s2.disconnect(o2, "sig", a2)


def c2():
    called2.append("C")


s2.connect(o2, "sig", a2)
s2.connect(o2, "sig", b2)
s2.connect(o2, "sig", c2)
s2.emit(o2, "sig")
if called2 != ["A", "B", "C"]:
    fails.append(f"disconnect earlier: called {called2}, expected ['A', 'B', 'C']")

# case 3: A disconnects the later handler C before its turn -> C must not be called
s3 = Signals()
s3.register(Obj, ["sig"])
o3 = Obj()
called3 = []


def a3():
    called3.append("A")
    s3.disconnect(o3, "sig", c3)


def b3():
    called3.append("B")


def c3():
    called3.append("C")


s3.connect(o3, "sig", a3)
s3.connect(o3, "sig", b3)
s3.connect(o3, "sig", c3)
s3.emit(o3, "sig")
if called3 != ["A", "B"]:
    fails.append(f"disconnect later: called {called3}, expected ['A', 'B']")

# return value semantics are kept
s5 = Signals()
s5.register(Obj, ["sig"])
o5 = Obj()
s5.connect(o5, "sig", lambda: True)
if s5.emit(o5, "sig") is not True:
    fails.append("emit result not True")
if s5.emit(Obj(), "sig") is not False:
    fails.append("emit with no handlers not False")

if fails:
    print("\n".join(fails))
    sys.exit(1)
print("ok")
