"""B6a: flow Pile with a fixed-only ('pack', w) child: rows() must use the child's packed rows, not its columns."""
import sys

import urwid
from urwid import BigText, Pile, Text, Thin3x3Font, Widget

fails = []


class Fixed(Widget):
    _sizing = frozenset([urwid.FIXED])

    def __init__(self, cols, rows):
        super().__init__()
        self.dims = (cols, rows)

    def pack(self, size=(), focus=False):
        return self.dims

    def render(self, size, focus=False):
        return urwid.SolidCanvas("#", *self.dims)


cases = {
    "BigText 6x3": BigText("00", Thin3x3Font()),
    "Fixed 7x2": Fixed(7, 2),
    "Fixed 2x5": Fixed(2, 5),
}
for label, child in cases.items():
    cols, rows = child.pack(())
    pile = Pile([Text("x"), ("pack", child)])
    got_item_rows = pile.get_item_rows((10,), False)
    got_rows = pile.rows((10,))
    rendered = pile.render((10,)).rows()
    if got_item_rows != [1, rows]:
        fails.append(f"{label}: get_item_rows((10,)) == {got_item_rows}, expected {[1, rows]}")
    if got_rows != 1 + rows:
        fails.append(f"{label}: rows((10,)) == {got_rows}, expected {1 + rows}")
    if got_rows != rendered:
        fails.append(f"{label}: rows((10,)) == {got_rows} but render((10,)) has {rendered} rows")

if fails:
    print("\n".join(fails))
    sys.exit(1)
print("ok")
