"""B7: Text.pack(()) must split lines the way the layout does (on "\\n" only)."""
import sys

from urwid import Text

fails = []
texts = [
    "ab\rcd",
    "abc\x0bde",
    "abc\x0cde\nf",
    "ab\x1ccd\x1def",
    "ab\x85cdef",
    "ab cdefg",
    "ab cd\nxyz",
    "ab\r\ncd",
    "plain",
    "two\nlines",
    "trailing\n",
    "\n",
    "",
]
for t in texts:
    for wrap in ("space", "any", "clip"):
        w = Text(t, wrap=wrap)
        cols, rows = w.pack(())
        # the layout never needs more columns than this to show every "\n" separated line unwrapped
        trans = w.get_line_translation(1000)
        need_cols = w.layout.pack(1000, trans)
        need_rows = len(trans)
        if (cols, rows) != (need_cols, need_rows):
            fails.append(f"{t!r} wrap={wrap}: pack(()) == {(cols, rows)}, layout needs {(need_cols, need_rows)}")
            continue
        canv = w.render(())
        if (canv.cols(), canv.rows()) != (cols, rows):
            fails.append(f"{t!r} wrap={wrap}: pack(()) == {(cols, rows)}, render(()) is {(canv.cols(), canv.rows())}")
        if cols and w.rows((cols,)) != rows:
            fails.append(f"{t!r} wrap={wrap}: pack(()) == {(cols, rows)}, rows(({cols},)) == {w.rows((cols,))}")

if fails:
    print("\n".join(fails))
    sys.exit(1)
print("ok")
