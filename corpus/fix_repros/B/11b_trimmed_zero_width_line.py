"""B11b: wrap='clip'/'ellipsis' with a line made only of zero-width characters builds an invalid (0, start, end) segment."""
import itertools
import sys
import traceback

import urwid
from urwid import Edit, Text, text_layout

urwid.set_encoding("utf-8")
fails = []
COMBINING = "́"
ZWSP = "​"

# the reported case
try:
    Text(COMBINING, wrap="clip").render((3,))
except Exception:
    fails.append(f"Text({COMBINING!r}, wrap='clip').render((3,)): {traceback.format_exc().splitlines()[-1]}")

texts = [COMBINING, ZWSP, COMBINING * 2, f"ab\n{COMBINING}\ncd", f"{COMBINING}\n", f"{COMBINING}世界", f"{ZWSP}世界x"]
for text, align, wrap, width in itertools.product(texts, ("left", "center", "right"), ("clip", "ellipsis"), range(1, 6)):
    if "世" in text and (align != "left" or width < 2):
        continue  # cutting a wide character in halves is a different defect (LayoutSegment.subseg)
    label = f"Text({text!r}, align={align!r}, wrap={wrap!r}).render(({width},))"
    for line in text_layout.default_layout.layout(text, width, align, wrap):
        for seg in line:
            try:
                text_layout.LayoutSegment(seg)
            except ValueError:
                fails.append(f"{label}: invalid layout segment {seg} in {line}")
    try:
        w = Text(text, align=align, wrap=wrap)
        canv = w.render((width,))
        if (canv.cols(), canv.rows()) != (width, w.rows((width,))):
            fails.append(f"{label}: canvas {canv.cols()}x{canv.rows()}")
    except Exception:
        fails.append(f"{label}: {traceback.format_exc().splitlines()[-1]}")

# a focused Edit also walks the layout to place the cursor
for wrap, width, key in itertools.product(("clip", "ellipsis"), range(2, 5), ("home", "end")):
    label = f"Edit({COMBINING!r}, '', wrap={wrap!r}) width={width} key={key}"
    try:
        e = Edit(COMBINING, "", wrap=wrap)
        e.keypress((width,), key)
        e.render((width,), True)
    except Exception:
        fails.append(f"{label}: {traceback.format_exc().splitlines()[-1]}")

if fails:
    uniq = list(dict.fromkeys(fails))
    print("\n".join(uniq[:25]))
    print(f"{len(uniq)} failures")
    sys.exit(1)
print("ok")
