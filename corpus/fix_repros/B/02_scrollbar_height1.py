"""B2: ScrollBar.render at view height 1 with scroll position > 0 must not raise; bar parts fill the height."""
import sys
import traceback

from urwid import Scrollable, ScrollBar, Text

fails = []
for maxrow in (1, 2, 3, 5):
    for lines in (2, 4, 9, 40):
        for pos in range(lines + 1):
            sb = ScrollBar(Scrollable(Text("\n".join(chr(97 + i % 26) for i in range(lines)))))
            sb.original_widget.set_scrollpos(pos)
            try:
                canv = sb.render((10, maxrow))
            except Exception as exc:
                fails.append(f"maxrow={maxrow} lines={lines} pos={pos}: {type(exc).__name__}: {exc}")
                continue
            if canv.rows() != maxrow or canv.cols() != 10:
                fails.append(f"maxrow={maxrow} lines={lines} pos={pos}: canvas size {canv.cols()}x{canv.rows()}")
            text = [bytes().join(t for _a, _cs, t in row) for row in canv.content()]
            if any(len(r.decode("utf-8")) != 10 for r in text):
                fails.append(f"maxrow={maxrow} lines={lines} pos={pos}: bad rows {text}")

# the case from the report
sb = ScrollBar(Scrollable(Text("a\nb\nc\nd")))
sb.original_widget.set_scrollpos(2)
try:
    sb.render((10, 1))
except Exception:
    fails.append("reported case:\n" + traceback.format_exc())

if fails:
    print("\n".join(fails[:15]))
    print(f"{len(fails)} failures")
    sys.exit(1)
print("ok")
