"""B3: GridFlow.selectable() must follow contents modifications (like Pile/Columns)."""
import sys

from urwid import Button, GridFlow, Text

fails = []


def check(label, got, expected):
    if got != expected:
        fails.append(f"{label}: selectable() == {got}, expected {expected}")


gf = GridFlow([], 5, 1, 0, "left")
check("empty", gf.selectable(), False)
gf.contents.append((Button("x"), gf.options()))
check("append Button to empty", gf.selectable(), True)

gf = GridFlow([Button("x")], 5, 1, 0, "left")
check("initial Button", gf.selectable(), True)
gf.contents = [(Text("t"), gf.options())]
check("replace Button by Text", gf.selectable(), False)

for v_sep in (0, 1, 2):
    gf = GridFlow([Text("a"), Text("b")], 5, 1, v_sep, "left")
    check(f"v_sep={v_sep} texts", gf.selectable(), False)
    gf.contents.insert(1, (Button("x"), gf.options()))
    check(f"v_sep={v_sep} insert Button", gf.selectable(), True)
    # must agree with the display widget once generated
    gf.render((12,))
    check(f"v_sep={v_sep} after render", gf.selectable(), True)
    del gf.contents[1]
    check(f"v_sep={v_sep} delete Button", gf.selectable(), False)
    gf.render((12,))
    check(f"v_sep={v_sep} after 2nd render", gf.selectable(), False)
    gf.contents[0] = (Button("y"), gf.options())
    check(f"v_sep={v_sep} setitem Button", gf.selectable(), True)

if fails:
    print("\n".join(fails))
    sys.exit(1)
print("ok")
