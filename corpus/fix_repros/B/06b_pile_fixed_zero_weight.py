"""B6b: fixed Pile (size=()) with a zero-weight non-flow child: item assignment on a frozenset raises TypeError."""
import sys
import traceback

from urwid import Pile, SolidFill, Text

fails = []
pile = Pile([("weight", 0, SolidFill("#")), ("pack", Text("abc")), ("pack", Text("de\nf"))])
try:
    got = pile.pack(())
    if got != (3, 3):
        fails.append(f"pack(()) == {got}, expected (3, 3)")
    sizes = pile.get_rows_sizes(())
    if sizes != ((0, 3, 3), (0, 1, 2), ((0, 0), (), ())) and sizes != ((0, 3, 3), (0, 1, 2), ((0, 0), (3,), (3,))):
        fails.append(f"get_rows_sizes(()) == {sizes}")
    canv = pile.render(())
    if (canv.cols(), canv.rows()) != (3, 3):
        fails.append(f"render(()) is {canv.cols()}x{canv.rows()}, expected 3x3")
    if [b"".join(t for _a, _c, t in row) for row in canv.content()] != [b"abc", b"de ", b"f  "]:
        fails.append(f"render(()) content {list(canv.content())}")
except Exception:
    fails.append(traceback.format_exc())

if fails:
    print("\n".join(fails))
    sys.exit(1)
print("ok")
