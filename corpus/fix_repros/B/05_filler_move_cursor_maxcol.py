"""B5: Filler.move_cursor_to_coords must compare the row with maxrow - bottom, not maxcol - bottom."""
import sys

from urwid import Edit, Filler

fails = []

# narrow and tall: rows 0..5 are inside the child, 6..9 are filler
f = Filler(Edit("", "a\nb\nc\nd\ne\nf"), valign="top")
for row in range(10):
    got = f.move_cursor_to_coords((3, 10), 0, row)
    expected = row < 6
    if bool(got) != expected:
        fails.append(f"narrow (3,10) row={row}: returned {got!r}, expected {expected}")
    elif expected and f.get_cursor_coords((3, 10)) != (0, row):
        fails.append(f"narrow (3,10) row={row}: cursor at {f.get_cursor_coords((3, 10))}")

# wide and short: rows below the child must be rejected
f = Filler(Edit("", "a\nb"), valign="top")
for row in range(6):
    got = f.move_cursor_to_coords((20, 6), 0, row)
    expected = row < 2
    if bool(got) != expected:
        fails.append(f"wide (20,6) row={row}: returned {got!r}, expected {expected}")

# bottom aligned
f = Filler(Edit("", "a\nb\nc\nd\ne\nf"), valign="bottom")
for row in range(10):
    got = f.move_cursor_to_coords((3, 10), 0, row)
    expected = row >= 4
    if bool(got) != expected:
        fails.append(f"bottom (3,10) row={row}: returned {got!r}, expected {expected}")

if fails:
    print("\n".join(fails))
    sys.exit(1)
print("ok")
