"""B12: CompositeCanvas.content_delta must work for any same-size pair of canvases, whatever their shards are."""
import itertools
import sys
import traceback

from urwid.canvas import CanvasCombine, CanvasJoin, CompositeCanvas, SolidCanvas, TextCanvas

fails = []


def text_canvas(lines, attr=None):
    lines = [line.encode() for line in lines]
    return TextCanvas(lines, [[(attr, len(line))] for line in lines], maxcol=len(lines[0]))


def cells(row, old_cells=None):
    """Expand a content (or delta) row to one cell per column (ASCII only)."""
    out = []
    for item in row:
        if isinstance(item, int):
            if old_cells is None:
                raise ValueError(f"unexpected skip marker in {row!r}")
            out.extend(old_cells[len(out) : len(out) + item])
        else:
            attr, cs, text = item
            out.extend((attr, cs, text[i : i + 1]) for i in range(len(text)))
    return out


def check(label, new, old):
    """Applying the delta rows to the old content must reproduce the new content."""
    assert (new.cols(), new.rows()) == (old.cols(), old.rows()), label
    try:
        delta = list(new.content_delta(old))
    except Exception:
        fails.append(f"{label}: {traceback.format_exc().splitlines()[-1]}")
        return
    expected = [cells(row) for row in new.content()]
    old_rows = [cells(row) for row in old.content()]
    if len(delta) != len(expected):
        fails.append(f"{label}: delta has {len(delta)} rows, canvas has {len(expected)}")
        return
    for y, (delta_row, old_row, expected_row) in enumerate(zip(delta, old_rows, expected)):
        got = cells(delta_row, old_row)
        if got != expected_row:
            fails.append(f"{label}: row {y}: delta {delta_row!r} applied to old gives a different row")
            return


def combine(*canvases):
    return CanvasCombine([(c, None, False) for c in canvases])


def join(*canvases):
    return CanvasJoin([(c, None, False, c.cols()) for c in canvases])


# the reported case: same size, different row bands
two_rows = text_canvas(["ab", "cd"])
row_a, row_b = text_canvas(["ab"]), text_canvas(["xy"])
a = combine(two_rows)
b = combine(row_a, row_b)
check("b(1+1 rows) vs a(2 rows)", b, a)
check("a(2 rows) vs b(1+1 rows)", a, b)

# all the ways to stack shared / not shared canvases of 1..3 rows into 4 rows
pool = {
    "A1": text_canvas(["aaa"]),
    "B1": text_canvas(["bbb"], "x"),
    "C2": text_canvas(["ccc", "CCC"]),
    "D2": text_canvas(["ddd", "DDD"], "y"),
    "E3": text_canvas(["eee", "EEE", "e3e"]),
    "S1": SolidCanvas("#", 3, 1),
    "S2": SolidCanvas("%", 3, 2),
}
stacks = [
    names
    for n in (1, 2, 3, 4)
    for names in itertools.product(pool, repeat=n)
    if sum(pool[name].rows() for name in names) == 4
]
for new_names, old_names in itertools.product(stacks, repeat=2):
    new = combine(*(pool[name] for name in new_names))
    old = combine(*(pool[name] for name in old_names))
    check(f"stack {'+'.join(new_names)} vs {'+'.join(old_names)}", new, old)

# the same in columns: shards with a different number of cviews / different widths
wide = {
    "a2": text_canvas(["ab", "cd"]),
    "b2": text_canvas(["AB", "CD"], "x"),
    "c3": text_canvas(["abc", "def"]),
    "d1": text_canvas(["x", "y"]),
    "e4": text_canvas(["wxyz", "WXYZ"], "y"),
    "s1": SolidCanvas("#", 1, 2),
}
rows_of = [
    names for n in (1, 2, 3, 4) for names in itertools.product(wide, repeat=n) if sum(wide[x].cols() for x in names) == 4
]
for new_names, old_names in itertools.product(rows_of, repeat=2):
    check(f"join {'|'.join(new_names)} vs {'|'.join(old_names)}", join(*(wide[x] for x in new_names)), join(*(wide[x] for x in old_names)))

# a canvas compared with itself / with a copy reports everything unchanged or identical content
check("same object", a, a)
check("copy", CompositeCanvas(b), b)

if fails:
    print("\n".join(fails[:25]))
    print(f"{len(fails)} failures")
    sys.exit(1)
print("ok")
