"""B11c: LayoutSegment.subseg must not emit a zero-width text segment when trimming cuts wide characters (also covers B11a/B11b cases in utf-8)."""
import itertools
import sys
import traceback

import urwid
from urwid import Edit, Text

urwid.set_encoding("utf-8")
fails = []
checked = 0


def err():
    tb = traceback.extract_tb(sys.exc_info()[2])
    where = " <- ".join(f"{f.name}:{f.lineno}" for f in reversed(tb[-3:]))
    return f"{type(sys.exc_info()[1]).__name__}: {sys.exc_info()[1]} [{where}]"


def check_text(text, align, wrap, width):
    global checked
    checked += 1
    w = Text(text, align=align, wrap=wrap)
    try:
        canv = w.render((width,))
        rows = w.rows((width,))
    except Exception:
        fails.append(f"Text({text!r}, align={align!r}, wrap={wrap!r}).render(({width},)): {err()}")
        return
    if canv.cols() != width or canv.rows() != rows:
        fails.append(f"Text({text!r}, {align!r}, {wrap!r}).render(({width},)): {canv.cols()}x{canv.rows()} rows()={rows}")
    for row in canv.content():
        cols = sum(urwid.calc_width(t, 0, len(t)) for _a, _cs, t in row)
        if cols != width:
            fails.append(f"Text({text!r}, {align!r}, {wrap!r}).render(({width},)): row {row!r} is {cols} columns wide")
            break


# reported cases
check_text("́", "left", "clip", 3)
check_text("hello world", "right", "ellipsis", 3)
check_text("世界 ok", "left", "ellipsis", 1)

texts = [
    "́",
    "á",
    "́\ń",
    "ab\ń\ncd",
    "​",
    "hello world",
    "世界 ok",
    "世",
    "a世",
    "世界",
    "a世界b",
    "é世x",
    "",
    "\n",
    "ab",
]
for text, align, wrap, width in itertools.product(
    texts, ("left", "center", "right"), ("clip", "ellipsis", "any", "space"), range(1, 8)
):
    check_text(text, align, wrap, width)


# focused Edit: the cursor forces trimming/splitting of layout segments
def check_edit(caption, edit_text, align, wrap, width, keys):
    global checked
    checked += 1
    e = Edit(caption, edit_text, wrap=wrap, align=align)
    label = f"Edit({caption!r}, {edit_text!r}, wrap={wrap!r}, align={align!r}) width={width} keys={keys}"
    try:
        for key in keys:
            e.keypress((width,), key)
        canv = e.render((width,), True)
        if canv.cols() != width or canv.rows() != e.rows((width,), True):
            fails.append(f"{label}: {canv.cols()}x{canv.rows()} rows()={e.rows((width,), True)}")
    except Exception:
        fails.append(f"{label}: {err()}")


check_edit("世 ", "b世", "right", "any", 2, ["end"])
for caption, edit_text, align, wrap, width, keys in itertools.product(
    ("", "世 ", "a", "́"),
    ("", "b世", "世界", "ab cd", "áb"),
    ("left", "center", "right"),
    ("clip", "ellipsis", "any", "space"),
    range(2, 6),
    (["home"], ["end"], ["home", "right"], ["end", "left"]),
):
    check_edit(caption, edit_text, align, wrap, width, keys)

if fails:
    uniq = list(dict.fromkeys(fails))
    print("\n".join(uniq[:40]))
    print(f"{len(uniq)} failures of {checked} checks")
    sys.exit(1)
print(f"ok ({checked} checks)")
