"""B11a: wrap='ellipsis' with a multi-column ellipsis ('...' for non-UTF-8 encodings) miscounts the text columns."""
import itertools
import sys
import traceback

import urwid
from urwid import Text, text_layout

fails = []
try:
    for encoding in ("ascii", "iso8859-1", "utf-8"):
        urwid.set_encoding(encoding)
        for text, align, width in itertools.product(
            ("hello world", "ab", "abcd", "hello\nwonderful world"), ("left", "center", "right"), range(1, 9)
        ):
            label = f"[{encoding}] Text({text!r}, align={align!r}, wrap='ellipsis').render(({width},))"
            for line in text_layout.default_layout.layout(text, width, "left", "ellipsis"):
                for seg in line:
                    if len(seg) == 3 and isinstance(seg[2], int) and seg[0] != urwid.calc_width(text, seg[1], seg[2]):
                        fails.append(f"{label}: layout segment {seg} is {urwid.calc_width(text, seg[1], seg[2])} columns wide")
                trimmed = any(len(seg) == 3 and isinstance(seg[2], bytes) for seg in line)
                if trimmed and text_layout.line_width(line) != width:
                    fails.append(f"{label}: trimmed layout line {line} is not {width} columns wide")
            try:
                canv = Text(text, align=align, wrap="ellipsis").render((width,))
            except Exception:
                fails.append(f"{label}: {traceback.format_exc().splitlines()[-1]}")
                continue
            for row in canv.text:
                if len(row.decode(encoding)) != width:
                    fails.append(f"{label}: row {row!r} is not {width} columns wide")
            if align == "right" and any(not row.endswith((b".", b"\xe2\x80\xa6", b"d", b"b", b"o")) for row in canv.text):
                fails.append(f"{label}: not right aligned: {canv.text}")
finally:
    urwid.set_encoding("utf-8")

if fails:
    uniq = list(dict.fromkeys(fails))
    print("\n".join(uniq[:25]))
    print(f"{len(uniq)} failures")
    sys.exit(1)
print("ok")
