"""B8: Pile([('weight', n, w)]) must normalise the 'weight' string to WHSettings.WEIGHT."""
import sys
import traceback
import warnings

from urwid import BigText, Pile, SolidFill, Text, Thin3x3Font, WHSettings

fails = []

pile = Pile([("pack", Text("ab")), ("weight", 1, SolidFill("#")), ("weight", 2, SolidFill("#"))])
for idx, (_w, (kind, _amount)) in enumerate(pile.contents):
    if not isinstance(kind, WHSettings):
        fails.append(f"contents[{idx}] options kind is {kind!r} ({type(kind).__name__}), expected WHSettings.WEIGHT")
try:
    pile.sizing()
    canv = pile.render((5, 3))
    assert (canv.cols(), canv.rows()) == (5, 3), (canv.cols(), canv.rows())
    Pile([("weight", 1, Text("ab")), ("weight", 2, Text("c\nd"))]).rows((5,))
except Exception:
    fails.append(traceback.format_exc())

# warning path of sizing() uses size_kind.name: doctest covers it with WHSettings.WEIGHT only
with warnings.catch_warnings():
    warnings.simplefilter("ignore")
    try:
        got = Pile([("weight", 1, BigText("0", Thin3x3Font()))]).sizing()
        if got != frozenset(("box", "flow")):
            fails.append(f"fallback sizing {got}")
    except AttributeError:
        fails.append("sizing() of Pile([('weight', 1, <fixed widget>)]):\n" + traceback.format_exc())

# Pile.options() is the other place producing options tuples from strings
for args in (("weight", 2), ("given", 3), ("pack", None)):
    kind = Pile.options(*args)[0]
    if not isinstance(kind, WHSettings):
        fails.append(f"Pile.options{args} kind is {kind!r} ({type(kind).__name__}), expected WHSettings")

if fails:
    print("\n".join(fails))
    sys.exit(1)
print("ok")
