"""B9: NumEdit with allow_negative=True must not accept a digit typed in front of the leading '-'."""
import sys
from decimal import Decimal

from urwid.numedit import FloatEdit, IntegerEdit, NumEdit

fails = []
size = (10,)

e = IntegerEdit("", allow_negative=True)
for key in ("-", "3", "home"):
    e.keypress(size, key)
assert e.edit_text == "-3" and e.edit_pos == 0, (e.edit_text, e.edit_pos)
rv = e.keypress(size, "5")
if e.edit_text != "-3":
    fails.append(f"IntegerEdit: typing '5' at offset 0 of '-3' gave {e.edit_text!r} (keypress returned {rv!r})")
else:
    if rv != "5":
        fails.append(f"IntegerEdit: rejected key should be returned unhandled, got {rv!r}")
    if e.value() != -3:
        fails.append(f"IntegerEdit: value() == {e.value()!r}")
# digits after the minus are still accepted
e.keypress(size, "right")
e.keypress(size, "7")
if e.edit_text != "-73":
    fails.append(f"IntegerEdit: typing '7' after the minus gave {e.edit_text!r}, expected '-73'")

e = IntegerEdit("", base=16, allow_negative=True)
for key in ("-", "f", "home"):
    e.keypress(size, key)
e.keypress(size, "a")
if e.edit_text != "-f":
    fails.append(f"IntegerEdit base 16: typing 'a' at offset 0 of '-f' gave {e.edit_text!r}")

e = FloatEdit("", allow_negative=True)
for key in ("-", "1", ".", "5", "home"):
    e.keypress(size, key)
for key in ("2", "."):
    e.keypress(size, key)
    if e.edit_text != "-1.5":
        fails.append(f"FloatEdit: typing {key!r} at offset 0 of '-1.5' gave {e.edit_text!r}")
        break
else:
    if e.value() != Decimal("-1.5"):
        fails.append(f"FloatEdit: value() == {e.value()!r}")

e = NumEdit("0123456789", "", "", allow_negative=True)
for key in ("-", "1", "home", "9"):
    e.keypress(size, key)
if e.edit_text != "-1":
    fails.append(f"NumEdit: typing '9' at offset 0 of '-1' gave {e.edit_text!r}")

# without a leading minus nothing changes: digit at offset 0 accepted, minus at offset 0 accepted once
e = IntegerEdit("", "3", allow_negative=True)
e.keypress(size, "home")
e.keypress(size, "5")
if e.edit_text != "53":
    fails.append(f"IntegerEdit: typing '5' at offset 0 of '3' gave {e.edit_text!r}, expected '53'")
e.keypress(size, "home")
e.keypress(size, "-")
if e.edit_text != "-53":
    fails.append(f"IntegerEdit: typing '-' at offset 0 of '53' gave {e.edit_text!r}, expected '-53'")

if fails:
    print("\n".join(fails))
    sys.exit(1)
print("ok")
