#!/bin/sh
# usage: check.sh repro.py
cd /var/tmp/fix/wt-B
export PYTHONPATH=/var/tmp/fix/wt-B
timeout 60 /venv/bin/python "$1"; echo "repro exit=$?"
timeout 1800 /venv/bin/python -m pytest -q -p no:cacheprovider --timeout=900 --continue-on-collection-errors 2>&1 | tail -6 | grep -v '^TOTAL\|^---'
timeout 1800 /venv/bin/python -m pytest -q -p no:cacheprovider tests/ -x -q 2>&1 | tail -1
git status --short
