"""B10: ListBox must render after focusing a zero-height last item with 'end' / set_focus_valign('bottom')."""
import sys
import traceback

import urwid
from urwid import ListBox, Pile, SimpleFocusListWalker, SimpleListWalker, Text

fails = []


class Zero(urwid.Widget):
    _sizing = frozenset([urwid.FLOW])

    def rows(self, size, focus=False):
        return 0

    def render(self, size, focus=False):
        return urwid.SolidCanvas(" ", size[0], 0)


def check(label, build, actions, size=(5, 3)):
    lb = build()
    try:
        canv = lb.render(size)
        for action in actions:
            action(lb, size)
            canv = lb.render(size)
        if (canv.cols(), canv.rows()) != size:
            fails.append(f"{label}: canvas size {(canv.cols(), canv.rows())}")
    except Exception:
        fails.append(f"{label}:\n{traceback.format_exc()}")


def items(zero):
    return [Text("a"), Text("b"), zero()]


for zname, zero in (("Zero", Zero), ("Pile([])", lambda: Pile([]))):
    if zero().rows((5,)) != 0:
        continue
    for wname, walker in (("SimpleFocusListWalker", SimpleFocusListWalker), ("SimpleListWalker", SimpleListWalker)):
        label = f"{zname}/{wname}"
        check(f"{label} end", lambda: ListBox(walker(items(zero))), [lambda lb, size: lb.keypress(size, "end")])
        check(
            f"{label} focus last + valign bottom",
            lambda: ListBox(walker(items(zero))),
            [lambda lb, size: (lb.set_focus(2), lb.set_focus_valign("bottom"))],
        )
        check(
            f"{label} set_focus(5, 'above')",
            lambda: ListBox(walker([Text("a"), Text("b"), Text("c"), Text("d"), Text("e"), zero()])),
            [lambda lb, size: lb.set_focus(5, "above")],
        )
        check(
            f"{label} end, home, end",
            lambda: ListBox(walker(items(zero))),
            [lambda lb, size, k=k: lb.keypress(size, k) for k in ("end", "home", "end", "up", "down", "end", "page up", "end")],
        )

if fails:
    print("\n".join(fails))
    print(f"{len(fails)} failures")
    sys.exit(1)
print("ok")
