"""B12b: content_delta must not report a canvas as unchanged when it moved horizontally (cviews continuing from the row band above shift the columns)."""
import random
import sys
import traceback

from urwid.canvas import CanvasCombine, CanvasJoin, CompositeCanvas, SolidCanvas, TextCanvas

fails = []


def text_canvas(lines, attr=None):
    lines = [line.encode() for line in lines]
    return TextCanvas(lines, [[(attr, len(line))] for line in lines], maxcol=len(lines[0]))


def cells(row, old_cells=None):
    """Expand a content (or delta) row to one cell per column (ASCII only)."""
    out = []
    for item in row:
        if isinstance(item, int):
            if old_cells is None:
                raise ValueError(f"unexpected skip marker in {row!r}")
            out.extend(old_cells[len(out) : len(out) + item])
        else:
            attr, cs, text = item
            out.extend((attr, cs, text[i : i + 1]) for i in range(len(text)))
    return out


def check(label, new, old):
    """Applying the delta rows to the old content must reproduce the new content."""
    assert (new.cols(), new.rows()) == (old.cols(), old.rows()), label
    try:
        delta = list(new.content_delta(old))
    except Exception:
        fails.append(f"{label}: {traceback.format_exc().splitlines()[-1]}")
        return
    expected = [cells(row) for row in new.content()]
    old_rows = [cells(row) for row in old.content()]
    if len(delta) != len(expected):
        fails.append(f"{label}: delta has {len(delta)} rows, canvas has {len(expected)}")
        return
    for y, (delta_row, old_row, expected_row) in enumerate(zip(delta, old_rows, expected)):
        got = cells(delta_row, old_row)
        if got != expected_row:
            fails.append(f"{label}: row {y}: delta {delta_row!r} applied to old gives a different row")
            return


def combine(*canvases):
    return CanvasCombine([(c, None, False) for c in canvases])


def join(*canvases):
    return CanvasJoin([(c, None, False, c.cols()) for c in canvases])


# deterministic case: the same 5x1 canvas W is at column 1 in the new canvas and at column 0 in the old one
tall = text_canvas(["t", "T"], "x")
wide = text_canvas(["wwwww"])
four, one = text_canvas(["ffff"]), text_canvas(["g"])
new = join(tall, combine(wide, wide))
old = join(combine(join(four, one), wide), tall)
check("moved W: T|(W/W) vs ((F|G)/W)|T", new, old)
check("moved W reversed", old, new)

# unchanged parts are still detected when nothing continues from the band above
delta = list(combine(wide, join(four, one)).content_delta(combine(wide, join(four, text_canvas(["h"])))))
if delta != [[5], [4, (None, None, b"g")]]:
    fails.append(f"aligned bands: unexpected delta {delta!r}")

# random nested joins / stacks built from a small pool of shared canvases
random.seed(12)
cache = {}


def leaf(cols, rows):
    key = (cols, rows, random.randrange(2))
    if key not in cache:
        char = random.choice("abcdefgh")
        if random.random() < 0.8:
            cache[key] = text_canvas([char * cols] * rows, random.choice([None, "x"]))
        else:
            cache[key] = SolidCanvas(char, cols, rows)
    return cache[key]


def build(cols, rows, depth):
    if depth == 0 or random.random() < 0.3:
        return leaf(cols, rows)
    if random.random() < 0.5 and rows > 1:
        cut = random.randrange(1, rows)
        return combine(build(cols, cut, depth - 1), build(cols, rows - cut, depth - 1))
    if cols > 1:
        cut = random.randrange(1, cols)
        return join(build(cut, rows, depth - 1), build(cols - cut, rows, depth - 1))
    return leaf(cols, rows)


for i in range(3000):
    cols, rows = random.randrange(1, 7), random.randrange(1, 6)
    new, old = CompositeCanvas(build(cols, rows, 3)), build(cols, rows, 3)
    check(f"random {i} ({cols}x{rows}) new={new.shards} old={getattr(old, 'shards', old)}", new, old)

if fails:
    print("\n".join(f[:400] for f in fails[:10]))
    print(f"{len(fails)} failures")
    sys.exit(1)
print("ok")
