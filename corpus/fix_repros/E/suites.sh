#!/bin/sh
cd /var/tmp/fix/wt-E
export PYTHONPATH=/var/tmp/fix/wt-E
/venv/bin/python -m pytest -q -p no:cacheprovider --timeout=900 --continue-on-collection-errors 2>&1 | tail -1
timeout 900 /venv/bin/python -m pytest -q -p no:cacheprovider tests -q 2>&1 | tail -1
git status --short
