"""ListBox.focus_position = 'x' raises TypeError instead of IndexError.
exit 1 while the defect is present"""
import sys, warnings
warnings.simplefilter("ignore")
import urwid

bad = 0
for walker_cls in (urwid.SimpleFocusListWalker, urwid.SimpleListWalker):
    lb = urwid.ListBox(walker_cls([urwid.Text("a")]))
    try:
        lb.focus_position = "x"
    except IndexError as e:
        print("ok  ", walker_cls.__name__, "IndexError", e)
    except Exception as e:
        print("FAIL", walker_cls.__name__, type(e).__name__, e)
        bad += 1
    else:
        print("FAIL", walker_cls.__name__, "accepted")
        bad += 1
sys.exit(1 if bad else 0)
