"""CompositeCanvas.trim / trim_end / pad_trim_left_right / pad_trim_top_bottom keep a cursor that lies outside
the trimmed canvas.  exit 1 while the defect is present"""
import sys
import warnings

warnings.simplefilter("ignore")
import urwid
from urwid import CompositeCanvas, Edit, Pile, SolidFill

bad = 0


def inside(c):
    cur = c.cursor
    return cur is None or (0 <= cur[0] < c.cols() and 0 <= cur[1] < c.rows())


def edit_canvas():
    urwid.CanvasCache.clear()
    return CompositeCanvas(Edit("", "abcdef").render((3,), True))  # 2 rows, cursor (2, 1)


for name, op in (
    ("trim(0, 1)", lambda c: c.trim(0, 1)),
    ("trim_end(1)", lambda c: c.trim_end(1)),
    ("pad_trim_top_bottom(0, -1)", lambda c: c.pad_trim_top_bottom(0, -1)),
    ("pad_trim_top_bottom(-1, 0)", lambda c: c.pad_trim_top_bottom(-1, 0)),
    ("pad_trim_left_right(-1, 0)", lambda c: c.pad_trim_left_right(-1, 0)),
    ("pad_trim_left_right(0, -1)", lambda c: c.pad_trim_left_right(0, -1)),
    ("pad_trim_left_right(2, 1)", lambda c: c.pad_trim_left_right(2, 1)),
    ("pad_trim_top_bottom(1, 1)", lambda c: c.pad_trim_top_bottom(1, 1)),
):
    c = edit_canvas()
    before = c.cursor
    op(c)
    ok = inside(c)
    print("ok  " if ok else "FAIL", name, "cursor", before, "->", c.cursor, "size", (c.cols(), c.rows()))
    bad += not ok

# a cursor that stays inside must be kept (and shifted)
c = edit_canvas()
c.pad_trim_top_bottom(-1, 0)
bad += c.cursor != (2, 0)
c = edit_canvas()
c.pad_trim_left_right(2, 1)
bad += c.cursor != (4, 1)

p = Pile([(5, SolidFill(" ")), ("pack", Edit("", "a"))], focus_item=1)
urwid.CanvasCache.clear()
c = p.render((1, 1), True)
print("Pile((1, 1)) cursor", c.cursor)
bad += not inside(c)
sys.exit(1 if bad else 0)
