"""Columns.render skips a 'pack' column that packs to width 0; it is no dependency of the cached canvas.  exit 1 = defect."""
import sys
import urwid
from urwid import CanvasCache
a = urwid.Text("")
top = urwid.Columns([("pack", a), urwid.Text("x")])
keep = top.render((8,))
a.set_text("abc")
cached = top.render((8,)).text
CanvasCache.clear()
fresh = top.render((8,)).text
print(cached, fresh)
sys.exit(1 if cached != fresh else 0)
