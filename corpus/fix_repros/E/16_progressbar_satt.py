"""ProgressBar with a smoothing attribute (satt): (a) a zero-length attribute run cuts the row short,
(b) UTF-8 bytes of the eighths character are inserted under a narrow encoding.
usage: 16_progressbar_satt.py [a|b] (default both).  exit 1 while the defect is present"""
import sys
import warnings

warnings.simplefilter("ignore")
import urwid
from urwid import ProgressBar, str_util

which = sys.argv[1] if len(sys.argv) > 1 else "ab"


def widths(c):
    return [sum(str_util.calc_width(t, 0, len(t)) for _a, _cs, t in row) for row in c.content()]


bad = 0
if "a" in which:
    urwid.set_encoding("utf-8")
    for cur, cols in ((33, 1), (10, 4), (5, 2), (1, 3)):
        pb = ProgressBar("n", "c", cur, 100, "s")
        c = pb.render((cols,))
        rows = [list(r) for r in c.content()]
        print("(a) utf-8", cur, "% at", cols, "columns: row widths", widths(c), rows)
        bad += widths(c) != [cols] or any(not run for row in rows for _a, _cs, run in row)
if "b" in which:
    urwid.set_encoding("ascii")
    pb = ProgressBar("n", "c", 33, 100, "s")
    c = pb.render((12,))
    print("(b) ascii, 12 columns: row widths", widths(c), c.text)
    bad += widths(c) != [12]
    urwid.set_encoding("utf-8")
    urwid.CanvasCache.clear()
    c = pb.render((12,))
    print("    utf-8, 12 columns: row widths", widths(c), [t.decode() for t in c.text], [list(r) for r in c.content()])
    bad += widths(c) != [12] or not any(a == "s" for a, _cs, _t in next(iter(c.content())))
sys.exit(1 if bad else 0)
