"""GraphVScale.set_scale does not call _invalidate().  exit 1 = defect present."""
import sys
import urwid
from urwid import CanvasCache
g = urwid.GraphVScale([(1, "a"), (3, "b")], 4)
keep = g.render((3, 4))
g.set_scale([(2, "z")], 4)
cached = g.render((3, 4)).text
CanvasCache.clear()
fresh = g.render((3, 4)).text
print(cached, fresh)
sys.exit(1 if cached != fresh else 0)
