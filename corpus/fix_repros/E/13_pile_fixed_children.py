"""Pile with ('pack', fixed-only widget) children: (a)/(b) render does not bring the narrower fixed children to
the Pile's width (ragged canvas), (c) a box Pile asks rows() of the fixed-only widget.
usage: 13_pile_fixed_children.py [a|c]  (default: both).  exit 1 while the defect is present"""
import sys
import warnings

warnings.simplefilter("ignore")
import urwid
from urwid import BigText, CanvasCache, Pile, SolidFill, Text, Thin3x3Font, str_util

which = sys.argv[1] if len(sys.argv) > 1 else "ac"
f3 = Thin3x3Font()


def widths(c):
    return [sum(str_util.calc_width(t, 0, len(t)) for _a, _cs, t in row) for row in c.content()]


bad = 0
if "a" in which:
    p = Pile([("pack", BigText("1", f3)), ("pack", BigText("12", f3))])
    c = p.render(())
    print("(a) fixed Pile: pack(())", p.pack(()), "render(()).cols()", c.cols(), "row widths", widths(c))
    bad += not (p.pack(()) == (c.cols(), c.rows()) and set(widths(c)) == {c.cols()})
    # the top-level render wrapper must accept it as well
    try:
        urwid.Filler(urwid.Padding(p, "left", "pack"), "top").render((8, 7))
    except Exception as e:
        print("    inside Padding/Filler RAISES", type(e).__name__)
        bad += 1
    CanvasCache.clear()
    p = Pile([Text("x"), ("pack", BigText("1", f3))])
    c = p.render((5,))
    print("(b) flow Pile at 5 columns: row widths", widths(c))
    bad += widths(c) != [5, 5, 5, 5]
if "c" in which:
    CanvasCache.clear()
    p = Pile([SolidFill("."), ("pack", BigText("1", f3))])
    try:
        c = p.render((5, 6))
        print("(c) box Pile (5, 6): rows", c.rows(), "text", [t.decode() for t in c.text])
        bad += c.rows() != 6
        print("    get_item_rows", p.get_item_rows((5, 6), False))
        bad += p.get_item_rows((5, 6), False) != [3, 3]
    except Exception as e:
        print("(c) box Pile RAISES", type(e).__name__, e)
        bad += 1
sys.exit(1 if bad else 0)
