"""C09 finding: GridFlow.pack((maxcol,)) uses a stale display widget, so a Pile (which sizes its items with
pack()) reports a cursor offset by the wrong number of rows before the first rendering at that width.
Exit 1 while the defect is present."""
import sys
import warnings

warnings.simplefilter("ignore")
import urwid

g = urwid.GridFlow([urwid.Text("a"), urwid.Text("b")], 5, 0, 0, "left")
p = urwid.Pile([g, urwid.Edit("", "x")])
p.focus_position = 1
before = p.get_cursor_coords((5,))          # never rendered
rendered = p.render((5,), True).cursor
after = p.get_cursor_coords((5,))
print("get_cursor_coords before any rendering:", before, "| rendered cursor:", rendered, "| after rendering:", after)
# the same after a width change
p.render((12,), True)
resized = p.get_cursor_coords((5,))
print("after rendering at (12,), get_cursor_coords((5,)):", resized, "| rendering at (5,):", p.render((5,), True).cursor)
bad = not (before == rendered == resized)
# C06 #6 / C01 F6: pack((maxcol,)) must not depend on what was asked before
g = urwid.GridFlow([urwid.Text("a"), urwid.Text("a")], 8, 0, 0, "left")
first = g.pack((8,))
g.rows((8,))
second = g.pack((8,))
print("pack((8,)) fresh:", first, "| after rows((8,)):", second)
bad = bad or first != second or first != (8, 2)
g = urwid.GridFlow([urwid.Text("abc"), urwid.Text("defg")], 4, 0, 0, "left")
got = (g.rows((9,)), g.pack((3,)), g.rows((3,)))
print("rows((9,)), pack((3,)), rows((3,)):", got)
bad = bad or got[1][1] != got[2]
sys.exit(1 if bad else 0)
