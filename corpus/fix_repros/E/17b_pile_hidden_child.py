"""Pile.render skips children of height 0; they are no dependency of the cached canvas.  exit 1 = defect present."""
import sys
import urwid
from urwid import CanvasCache
q = urwid.Pile([])
top = urwid.Pile([q, urwid.Text("t")])
keep = top.render((6,))
q.contents.append((urwid.Text("new"), q.options()))
cached, crow = top.render((6,)).text, top.rows((6,))
CanvasCache.clear()
fresh, frow = top.render((6,)).text, top.rows((6,))
print(cached, crow, fresh, frow)
sys.exit(1 if (cached, crow) != (fresh, frow) else 0)
