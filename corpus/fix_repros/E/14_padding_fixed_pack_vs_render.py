"""fixed-size Padding: pack(()) and render(()) disagree (min_width, relative rounding).  exit 1 while present"""
import sys
import warnings

warnings.simplefilter("ignore")
import urwid
from urwid import Divider, Padding, Text

bad = 0
for name, w in (
    ("pack + min_width", Padding(Text("a"), "left", "pack", min_width=2, right=1)),
    ("given + min_width", Padding(Divider("="), "center", 1, min_width=4)),
    ("relative rounding", Padding(urwid.CheckBox("世界"), "left", ("relative", 75), right=3)),
):
    urwid.CanvasCache.clear()
    c = w.render(())
    print(name, "pack(())", w.pack(()), "render(())", (c.cols(), c.rows()))
    bad += w.pack(()) != (c.cols(), c.rows())
sys.exit(1 if bad else 0)
