"""CanvasCache.store tests `w in cls._widgets` per widget: a ListBox that has a cached canvas at one size and shows an
uncacheable child (documented no_cache = ["render"]) at another size lets its decoration be cached and never invalidated.
exit 1 = defect present."""
import sys
import urwid
from urwid import CanvasCache
class NC(urwid.Widget):
    _sizing = frozenset(["flow"])
    no_cache = ["render"]
    v = 0
    def rows(self, size, focus=False):
        return 1
    def render(self, size, focus=False):
        return urwid.TextCanvas([("v%d" % self.v).encode().ljust(size[0])], maxcol=size[0])
    def bump(self):
        self.v += 1
        self._invalidate()
g = NC()
lb = urwid.ListBox(urwid.SimpleListWalker([urwid.Text("a"), g]))
top = urwid.AttrMap(lb, None)
k1 = lb.render((6, 1))                 # shows only "a": cached
k2 = top.render((6, 2))
g.bump()
cached = top.render((6, 2)).text
CanvasCache.clear()
fresh = top.render((6, 2)).text
print(cached, fresh)
sys.exit(1 if cached != fresh else 0)
