"""BarGraph.set_segment_attributes does not call _invalidate().  exit 1 = defect present."""
import sys
import urwid
from urwid import CanvasCache
b = urwid.BarGraph(["bg", "a", "b"])
b.set_data([(1,), (3,)], 3)
keep = b.render((4, 3))
b.set_segment_attributes(["bg", "x", "y"])
cached = [list(r) for r in b.render((4, 3)).content()]
CanvasCache.clear()
fresh = [list(r) for r in b.render((4, 3)).content()]
print(cached, fresh)
sys.exit(1 if cached != fresh else 0)
