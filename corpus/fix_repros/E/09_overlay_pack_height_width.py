"""Overlay with height='pack' measures the flow top widget at the overlay's full width instead of the
top widget's own width.  exit 1 while the defect is present"""
import sys
import warnings

warnings.simplefilter("ignore")
import urwid

bad = 0

# C01 F3: ValueError from the canvas layer
o = urwid.Overlay(urwid.Text("ab cd"), urwid.SolidFill("x"), "left", 1, "top", "pack")
try:
    c = o.render((7, 1))
    print("(a) render((7, 1)) ->", c.text)
    bad += not (c.cols() == 7 and c.rows() == 1)
except Exception as e:
    print("(a) render((7, 1)) RAISES", type(e).__name__, str(e)[:80])
    bad += 1

# C09 #3: the lower rows of the drawn Edit receive no clicks
hits = []


class E(urwid.Edit):
    def mouse_event(self, size, event, button, col, row, focus):
        hits.append(row)
        return super().mouse_event(size, event, button, col, row, focus)


o = urwid.Overlay(E("", "aaaa bbbb cccc dddd"), urwid.SolidFill("."), "center", 5, "middle", "pack")
canv = o.render((20, 10), True)
drawn = [y for y, line in enumerate(canv.text) if line.strip(b".").strip()]
reached = []
for y in drawn:
    del hits[:]
    o.mouse_event((20, 10), "mouse press", 1, 9, y, True)
    reached.append(bool(hits))
print("(b) rows on which the Edit is drawn:", drawn, "| press delivered:", reached)
bad += not (all(reached) and len(drawn) == 4)

l, r, t, b = o.calculate_padding_filler((20, 10), True)
print("(c) padding/filler", (l, r, t, b))
bad += 10 - t - b != 4

sys.exit(1 if bad else 0)
