"""IBMPC charset (SGR 11) selected by a 'U' run at the end of one frame is still selected in the next frame.
exit 1 while the defect is present"""
import sys
sys.path.insert(0, "/var/tmp/fix/repro-E")
import urwid
from _scr import CapScreen, FakeCanvas

urwid.set_encoding("ascii")
s = CapScreen()
s.draw_screen((2, 1), FakeCanvas([[(None, "U", b"a ")]]))
first = s.take()
s.draw_screen((2, 1), FakeCanvas([[(None, None, b"b ")]]))
second = s.take()
print(repr(first))
print(repr(second))
# frame 1 switches the IBMPC mapping on (ESC[11m) and never off; frame 2 must switch it off before printing 'b'
leaked = "\x1b[11m" in first and "\x1b[10m" not in first and "\x1b[10m" not in second
print("IBMPC mapping leaks into the next frame" if leaked else "ok")
sys.exit(1 if leaked else 0)
