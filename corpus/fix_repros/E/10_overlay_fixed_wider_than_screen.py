"""Overlay with a FIXED top widget (width='pack') wider than the screen hands a negative left offset to
CanvasOverlay: ragged rows / WidgetError.  exit 1 while the defect is present"""
import sys
import warnings

warnings.simplefilter("ignore")
import urwid
from urwid import str_util

bad = 0
for align in ("left", "center", "right"):
    o = urwid.Overlay(urwid.BigText("12", urwid.HalfBlock5x4Font()), urwid.SolidFill("#"), align, "pack", "top", "pack")
    urwid.CanvasCache.clear()
    try:
        c = o.render((5, 2))
        widths = [sum(str_util.calc_width(t, 0, len(t)) for _a, _cs, t in row) for row in c.content()]
        ok = widths == [5, 5]
        print(align, "row widths", widths, [t.decode() for t in c.text])
    except Exception as e:
        ok = False
        print(align, "RAISES", type(e).__name__, str(e)[:70].replace("\n", " "))
    bad += not ok

# the part that is shown must be the part selected by the alignment
full = urwid.BigText("12", urwid.HalfBlock5x4Font()).render(()).text
o = urwid.Overlay(urwid.BigText("12", urwid.HalfBlock5x4Font()), urwid.SolidFill("#"), "right", "pack", "top", "pack")
try:
    got = o.render((5, 4)).text
    exp = [row.decode()[-5:].encode() for row in full]
    print("right-aligned shows the right end:", got == exp)
    bad += got != exp
except Exception as e:
    print("RAISES", type(e).__name__)
    bad += 1
sys.exit(1 if bad else 0)
