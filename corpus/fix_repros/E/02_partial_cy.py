"""partial display (alternate_buffer=False): self._cy is only updated when the canvas has a cursor.
exit 1 while the defect is present"""
import sys
sys.path.insert(0, "/var/tmp/fix/repro-E")
import urwid
from _scr import CapScreen, FakeCanvas, VT

urwid.set_encoding("utf-8")
s = CapScreen()
s._rows_used = 0            # what _start(alternate_buffer=False) does
vt = VT(1, 2)
s.draw_screen((1, 2), FakeCanvas([[(None, None, b"a")], [(None, None, b"b")]]))
vt.feed(s.take())
s.draw_screen((1, 2), FakeCanvas([[(None, None, b"c")], [(None, None, b"b")]]))
vt.feed(s.take())
rows = ["".join(t for t, _cs, _sgr in row) for row in vt.grid]
print(rows, "expected ['c', 'b']")
sys.exit(0 if rows == ["c", "b"] else 1)
