"""empty GridFlow: get_pref_col / get_cursor_coords / move_cursor_to_coords / keypress raise AttributeError.
exit 1 while the defect is present"""
import sys, warnings
warnings.simplefilter("ignore")
import urwid

bad = 0
gf = urwid.GridFlow([], 10, 1, 1, "left")
pile = urwid.Pile([gf, urwid.Button("b")])
pile.focus_position = 0

def pile_down():
    pile.keypress((20,), "down")
    return pile.focus_position

for name, fn, exp in (
    ("GridFlow.get_pref_col", lambda: gf.get_pref_col((20,)), None),
    ("GridFlow.get_cursor_coords", lambda: gf.get_cursor_coords((20,)), None),
    ("GridFlow.move_cursor_to_coords", lambda: gf.move_cursor_to_coords((20,), 0, 0), False),
    ("GridFlow.keypress", lambda: gf.keypress((20,), "x"), "x"),
    ("Pile 'down' leaving empty GridFlow (focus_position)", pile_down, 1),
):
    try:
        r = fn()
    except Exception as e:
        print("FAIL", name, "raised", type(e).__name__, e)
        bad += 1
        continue
    print("ok  " if r == exp else "FAIL", name, "->", repr(r))
    bad += r != exp
sys.exit(1 if bad else 0)
