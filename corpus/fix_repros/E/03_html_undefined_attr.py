"""HtmlGenerator.draw_screen raises KeyError for a canvas attribute that was never registered
(raw_display paints it as default/default).  exit 1 while the defect is present"""
import sys
import urwid
from urwid.display import html_fragment

urwid.set_encoding("utf-8")
gen = html_fragment.HtmlGenerator()
canvas = urwid.Text(("no-such-palette-entry", "ab")).render((2,))
try:
    gen.draw_screen((2, 1), canvas)
except KeyError as e:
    print("KeyError", e)
    sys.exit(1)
print(html_fragment.screenshot_collect()[-1])
sys.exit(0)
