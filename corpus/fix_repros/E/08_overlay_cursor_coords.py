"""Overlay.get_cursor_coords: (a) unpacks None when the top widget has no cursor,
(b) hands (cols, rows) to a flow top widget (height='pack').  exit 1 while either defect is present"""
import sys
import warnings

warnings.simplefilter("ignore")
import urwid

bad = 0

o = urwid.Overlay(urwid.Filler(urwid.Text("x")), urwid.SolidFill("."), "center", 5, "middle", 3)
try:
    got = o.get_cursor_coords((10, 6))
    ok = got == o.render((10, 6), True).cursor
except TypeError as e:
    ok, got = False, "TypeError: %s" % e
print("(a) Overlay(Filler(Text)).get_cursor_coords ->", got, "| rendered cursor", o.render((10, 6), True).cursor)
bad += not ok

o = urwid.Overlay(urwid.Edit("", "ab"), urwid.SolidFill("."), "center", 5, "middle", "pack")
try:
    got = o.get_cursor_coords((10, 6))
    ok = got == o.render((10, 6), True).cursor
except ValueError as e:
    ok, got = False, "ValueError: %s" % e
print("(b) Overlay(Edit, height='pack').get_cursor_coords ->", got, "| rendered cursor", o.render((10, 6), True).cursor)
bad += not ok

# box top widget with a cursor must keep working
o = urwid.Overlay(urwid.Filler(urwid.Edit("", "ab")), urwid.SolidFill("."), "center", 5, "middle", 3)
got = o.get_cursor_coords((10, 6))
print("(c) box top widget ->", got, "| rendered cursor", o.render((10, 6), True).cursor)
bad += got != o.render((10, 6), True).cursor or got is None

sys.exit(1 if bad else 0)
