"""Pile whose selectable() is (stale) False treats any key as navigation: focus moves, None returned.
exit 1 while the defect is present"""
import sys, warnings
warnings.simplefilter("ignore")
import urwid

inner = urwid.Pile([urwid.Text("t")])
outer = urwid.Pile([urwid.Text("a"), inner])  # outer._selectable == False
inner.contents.append((urwid.Button("b"), inner.options()))  # inner becomes selectable, outer's cache is stale
r = outer.keypress((20,), "x")
print(f"keypress('x') -> {r!r}, focus_position {outer.focus_position}")
ok = r == "x" and outer.focus_position == 0
# a Pile with no selectable children at all must also hand the key back
p2 = urwid.Pile([urwid.Text("a"), urwid.Text("b")])
r2 = p2.keypress((20,), "x")
print(f"plain non-selectable pile keypress('x') -> {r2!r}")
ok = ok and r2 == "x"
sys.exit(0 if ok else 1)
