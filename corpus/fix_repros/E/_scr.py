"""helpers: a raw_display Screen that captures its output and a tiny VT100 model"""
import re

import urwid
from urwid import str_util
from urwid.display import raw


class CapScreen(raw.Screen):
    def __init__(self, bce=True):
        super().__init__(input=None, output=None)
        self._started = True
        self.back_color_erase = bce
        self.out = []

    def write(self, data):
        self.out.append(data)

    def flush(self):
        pass

    def take(self):
        data = "".join(self.out)
        self.out = []
        return data


class FakeCanvas:
    """rows: list of rows, each a list of (attr, cs, bytes)"""

    def __init__(self, rows, cursor=None):
        self._rows = rows
        self.cursor = cursor

    def rows(self):
        return len(self._rows)

    def content(self, *args, **kwargs):
        for row in self._rows:
            yield list(row)


BLANK = (" ", None, "")


class VT:
    """cells are (text, charset, sgr); the 2nd half of a wide char has text ''"""

    def __init__(self, cols, rows):
        self.cols, self.rows = cols, rows
        self.grid = [[BLANK] * cols for _ in range(rows)]
        self.x = self.y = 0
        self.pending_wrap = False
        self.insert = False
        self.shift_out = False
        self.ibmpc = False
        self.sgr = ""
        self.errors = []

    def charset(self):
        if self.ibmpc:
            return "U"
        return "0" if self.shift_out else None

    def _fix_split(self, row):
        # blank out halves of wide characters that lost their partner
        for i, (t, cs, sgr) in enumerate(row):
            wide = t != "" and str_util.get_char_width(t[0]) == 2
            if wide and (i + 1 >= len(row) or row[i + 1][0] != ""):
                row[i] = (" ", cs, sgr)
            if t == "" and (i == 0 or row[i - 1][0] == "" or str_util.get_char_width(row[i - 1][0][0]) != 2):
                row[i] = (" ", cs, sgr)

    def put(self, ch):
        w = str_util.get_char_width(ch)
        if w == 0:
            return
        if self.pending_wrap or self.x + w > self.cols:
            self.errors.append(f"autowrap at ({self.x},{self.y}) writing {ch!r}")
            self.pending_wrap = False
            self.x = 0
            if self.y == self.rows - 1:
                self.errors.append("screen scrolled")
                self.grid.pop(0)
                self.grid.append([BLANK] * self.cols)
            else:
                self.y += 1
        row = self.grid[self.y]
        cell = [(ch, self.charset(), self.sgr)] + [("", self.charset(), self.sgr)] * (w - 1)
        if self.insert:
            row[self.x : self.x] = cell
            del row[self.cols :]
        else:
            row[self.x : self.x + w] = cell
        self._fix_split(row)
        self.x += w
        if self.x >= self.cols:
            self.x = self.cols - 1
            self.pending_wrap = True

    def feed(self, data):
        i = 0
        while i < len(data):
            ch = data[i]
            if ch == "\x1b":
                m = re.compile(r"\x1b\[([?0-9;]*)([A-Za-z@])|\x1b([()])(.)").match(data, i)
                if not m:
                    self.errors.append(f"unknown escape {data[i:i+8]!r}")
                    i += 1
                    continue
                i = m.end()
                if m.group(3):
                    continue
                args, cmd = m.group(1), m.group(2)
                nums = [int(a) if a.isdigit() else 0 for a in args.split(";")] if args else []
                self.pending_wrap = False if cmd in "HABCD" else self.pending_wrap
                if cmd == "H":
                    self.y = (nums[0] if nums and nums[0] else 1) - 1
                    self.x = (nums[1] if len(nums) > 1 and nums[1] else 1) - 1
                elif cmd == "A":
                    self.y = max(0, self.y - (nums[0] if nums else 1))
                elif cmd == "B":
                    self.y = min(self.rows - 1, self.y + (nums[0] if nums else 1))
                elif cmd == "C":
                    self.x = min(self.cols - 1, self.x + (nums[0] if nums else 1))
                elif cmd == "K":
                    for x in range(self.x, self.cols):
                        self.grid[self.y][x] = (" ", None, "erased")
                    self._fix_split(self.grid[self.y])
                elif cmd in "hl":
                    if args == "4":
                        self.insert = cmd == "h"
                elif cmd == "@":
                    n = nums[0] if nums else 1
                    row = self.grid[self.y]
                    row[self.x : self.x] = [BLANK] * n
                    del row[self.cols :]
                    self._fix_split(row)
                elif cmd == "m":
                    if args == "10":
                        self.ibmpc = False
                    elif args == "11":
                        self.ibmpc = True
                    else:
                        self.sgr = args
                continue
            i += 1
            if ch == "\x08":
                self.pending_wrap = False
                self.x = max(0, self.x - 1)
            elif ch == "\r":
                self.pending_wrap = False
                self.x = 0
            elif ch == "\x0e":
                self.shift_out = True
            elif ch == "\x0f":
                self.shift_out = False
            else:
                self.put(ch)

    def texts(self):
        return [[(t, cs) for t, cs, _sgr in row] for row in self.grid]


def expected(rows, cols, encoding):
    """(text, cs) cells the canvas rows should produce"""
    out = []
    for row in rows:
        cells = []
        for _a, cs, run in row:
            for ch in run.decode(encoding):
                w = str_util.get_char_width(ch)
                cells += [(ch, cs)] + [("", cs)] * (w - 1)
        cells += [(" ", None)] * (cols - len(cells))
        out.append(cells)
    return out


def draw(rows, cols, encoding="utf-8", bce=True, screen=None):
    """draw rows on a fresh screen, return (VT, raw output, expected cells)"""
    scr = screen or CapScreen(bce)
    scr.draw_screen((cols, len(rows)), FakeCanvas(rows))
    data = scr.take()
    vt = VT(cols, len(rows))
    vt.feed(data)
    return vt, data, expected(rows, cols, encoding)


def norm(cells):
    # ignore charset of blanks produced by erase
    return [[(t, None if t == " " else cs) for t, cs in row] for row in cells]
