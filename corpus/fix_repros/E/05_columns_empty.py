"""empty Columns: keypress / get_pref_col / get_cursor_coords raise IndexError.
exit 1 while the defect is present"""
import sys, warnings
warnings.simplefilter("ignore")
import urwid

bad = 0
cols = urwid.Columns([urwid.Button("a")])
pile = urwid.Pile([cols, urwid.Button("b")])
cols.contents.clear()
for name, fn in (
    ("Pile.keypress through empty Columns", lambda: pile.keypress((20,), "x")),
    ("Columns.keypress", lambda: cols.keypress((20,), "x")),
    ("Columns.get_pref_col", lambda: cols.get_pref_col((20,))),
    ("Columns.get_cursor_coords", lambda: cols.get_cursor_coords((20,))),
):
    try:
        r = fn()
    except Exception as e:
        print("FAIL", name, "raised", type(e).__name__, e)
        bad += 1
        continue
    exp = "x" if "keypress" in name else None
    print("ok  " if r == exp else "FAIL", name, "->", repr(r))
    bad += r != exp
sys.exit(1 if bad else 0)
