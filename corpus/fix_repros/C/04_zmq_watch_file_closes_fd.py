"""C4: ZMQEventLoop.watch_file(int) wraps the descriptor in a file object that closes
the caller's descriptor when garbage-collected."""
import gc
import os
import sys
import warnings

import urwid
from urwid.event_loop.zmq_loop import ZMQEventLoop

warnings.simplefilter("ignore", ResourceWarning)

loop = ZMQEventLoop()
r, w = os.pipe()
got = []


def cb():
    got.append(os.read(r, 10))
    raise urwid.ExitMainLoop


h = loop.watch_file(r, cb)
os.write(w, b"x")
loop.alarm(1.0, lambda: got.append("timeout") or (_ for _ in ()).throw(urwid.ExitMainLoop))
loop.run()
if got != [b"x"]:
    print(f"FAIL: watch callback not run as expected: {got}")
    sys.exit(1)
if loop.remove_watch_file(h) is not True:
    print("FAIL: remove_watch_file returned False")
    sys.exit(1)
if loop.remove_watch_file(h) is not False:
    print("FAIL: second remove_watch_file returned True")
    sys.exit(1)
del h
gc.collect()
try:
    os.fstat(r)
except OSError as exc:
    print(f"FAIL: caller's descriptor was closed by the event loop: {exc}")
    sys.exit(1)
os.close(r)
os.close(w)
print("OK")
