"""C2: an idle callback removing idle callbacks (itself/another) breaks the idle round.

Runs the scenario for every event loop whose runtime is importable, each in its own subprocess.
"""
import importlib
import subprocess
import sys

LOOPS = {
    "select": ("urwid.event_loop.select_loop", "SelectEventLoop", None),
    "asyncio": ("urwid.event_loop.asyncio_loop", "AsyncioEventLoop", None),
    "tornado": ("urwid.event_loop.tornado_loop", "TornadoEventLoop", "tornado"),
    "twisted": ("urwid.event_loop.twisted_loop", "TwistedEventLoop", "twisted"),
    "trio": ("urwid.event_loop.trio_loop", "TrioEventLoop", "trio"),
    "zmq": ("urwid.event_loop.zmq_loop", "ZMQEventLoop", "zmq"),
}


def scenario(name: str) -> int:
    import logging

    import urwid

    logging.basicConfig(level=logging.ERROR)
    mod, cls, _ = LOOPS[name]
    loop = getattr(importlib.import_module(mod), cls)()

    calls = []
    handles = {}
    removed = set()
    bad = []

    def a():
        calls.append("a")
        if "a" in removed:
            bad.append("a")
            return
        # remove itself and the next one, during the idle round
        for n in ("a", "b"):
            if not loop.remove_enter_idle(handles[n]):
                bad.append(f"remove {n} returned False")
            removed.add(n)

    def b():
        calls.append("b")
        if "b" in removed:
            bad.append("b")

    def c():
        calls.append("c")

    handles["a"] = loop.enter_idle(a)
    handles["b"] = loop.enter_idle(b)
    handles["c"] = loop.enter_idle(c)

    def tick():
        calls.append("tick")

    def stop():
        raise urwid.ExitMainLoop

    loop.alarm(0.02, tick)
    loop.alarm(0.08, tick)
    loop.alarm(0.16, stop)
    try:
        loop.run()
    except BaseException as exc:  # noqa: BLE001
        print(f"  {name}: FAIL run() raised {type(exc).__name__}: {exc}; calls={calls}")
        return 1

    # idle rounds after the 2nd tick
    second = calls.index("tick", calls.index("tick") + 1) if calls.count("tick") >= 2 else None
    problems = list(bad)
    if calls.count("a") != 1:
        problems.append(f"a called {calls.count('a')} times")
    if second is None:
        problems.append("ticks missing")
    else:
        if "c" not in calls[:second]:
            problems.append("c not called in the round in which a removed callbacks")
        if "c" not in calls[second:]:
            problems.append("no idle callback ran after the round with the removal")
    if problems:
        print(f"  {name}: FAIL {problems}; calls={calls}")
        return 1
    print(f"  {name}: OK calls={calls}")
    return 0


def main() -> int:
    if len(sys.argv) > 1:
        return scenario(sys.argv[1])
    rc = 0
    for name, (_mod, _cls, dep) in LOOPS.items():
        if dep:
            try:
                importlib.import_module(dep)
            except ImportError:
                print(f"  {name}: skipped ({dep} not installed)")
                continue
        try:
            res = subprocess.run([sys.executable, __file__, name], timeout=20)
            if res.returncode != 0:
                rc = 1
        except subprocess.TimeoutExpired:
            print(f"  {name}: FAIL (timeout)")
            rc = 1
    return rc


sys.exit(main())
