"""C5: TrioEventLoop.remove_alarm / remove_watch_file before run() must succeed
(True, then False) and the removed callbacks must never run."""
import os
import sys

import urwid
from urwid.event_loop.trio_loop import TrioEventLoop

failures = []
loop = TrioEventLoop()
calls = []
r, w = os.pipe()
os.write(w, b"x")

alarm_handle = loop.alarm(0.01, lambda: calls.append("removed alarm"))
watch_handle = loop.watch_file(r, lambda: calls.append("removed watch"))
kept_handle = loop.alarm(0.02, lambda: calls.append("kept alarm"))


def stop():
    raise urwid.ExitMainLoop


loop.alarm(0.1, stop)

for label, remove, handle in (
    ("remove_alarm", loop.remove_alarm, alarm_handle),
    ("remove_watch_file", loop.remove_watch_file, watch_handle),
):
    for expected in (True, False):
        try:
            result = remove(handle)
        except BaseException as exc:  # noqa: BLE001
            failures.append(f"{label} before run() raised {type(exc).__name__}: {exc}")
            break
        if result is not expected:
            failures.append(f"{label} before run() returned {result!r}, expected {expected!r}")

try:
    loop.run()
except BaseException as exc:  # noqa: BLE001
    failures.append(f"run() raised {type(exc).__name__}: {exc}")

if "removed alarm" in calls or "removed watch" in calls:
    failures.append(f"removed callbacks ran: { {c: calls.count(c) for c in set(calls)} }")
if calls.count("kept alarm") != 1:
    failures.append(f"alarm that was not removed ran {calls.count('kept alarm')} times")

# removal after the loop has finished (outside of the trio context again)
try:
    loop.remove_alarm(kept_handle)
    pending = loop.alarm(0.01, lambda: None)  # pending again: no nursery
    if loop.remove_alarm(pending) is not True or loop.remove_alarm(pending) is not False:
        failures.append("remove_alarm after run() did not return True then False")
except BaseException as exc:  # noqa: BLE001
    failures.append(f"remove_alarm after run() raised {type(exc).__name__}: {exc}")

if failures:
    print("FAIL:")
    for f in failures:
        print("  " + f)
    sys.exit(1)
print("OK", {c: calls.count(c) for c in set(calls)})
