"""C3: ZMQEventLoop runs alarms before their due time (nothing registered in the poller,
and, with a descriptor registered, because of the millisecond truncation of the poll timeout)."""
import os
import sys
import time

import urwid
from urwid.event_loop.zmq_loop import ZMQEventLoop

EPS = 1e-4
failures = []


def check(label, with_fd):
    loop = ZMQEventLoop()
    fired = {}
    r = w = None
    if with_fd:
        r, w = os.pipe()
        rf = os.fdopen(r, closefd=False)
        loop.watch_file(rf, lambda: None)  # never readable

    def make(name):
        def cb():
            fired[name] = time.time()
            if name == "late":
                raise urwid.ExitMainLoop

        return cb

    start = time.time()
    due = {"early": start + 0.1005, "late": start + 0.3}
    loop.alarm(0.3, make("late"))
    loop.alarm(0.1005, make("early"))
    loop.run()
    for name, at in due.items():
        if name not in fired:
            failures.append(f"{label}: alarm {name} never ran")
        elif fired[name] < at - EPS:
            failures.append(f"{label}: alarm {name} ran {at - fired[name]:.4f}s before its due time")
    if fired.get("early", 0) > fired.get("late", 1e99):
        failures.append(f"{label}: alarms ran out of order")
    if with_fd:
        os.close(r)
        os.close(w)


check("no descriptor registered", False)
for _ in range(3):
    check("descriptor registered", True)

if failures:
    print("FAIL:")
    for f in failures:
        print("  " + f)
    sys.exit(1)
print("OK")
