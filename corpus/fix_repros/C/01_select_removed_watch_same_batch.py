"""C1: SelectEventLoop runs a watch callback removed earlier in the same select() batch."""
import os
import sys

import urwid
from urwid.event_loop.select_loop import SelectEventLoop

loop = SelectEventLoop()
pipes = [os.pipe() for _ in range(2)]
for _r, w in pipes:
    os.write(w, b"x")

calls = []
after_removal = []
handles = {}
removed = set()


def make_cb(i):
    def cb():
        calls.append(i)
        if i in removed:
            after_removal.append(i)
        os.read(pipes[i][0], 1)
        # first callback to run removes the watch of the other descriptor
        if len(calls) == 1:
            other = 1 - i
            assert loop.remove_watch_file(handles[other]) is True
            removed.add(other)

    return cb


for i, (r, _w) in enumerate(pipes):
    handles[i] = loop.watch_file(r, make_cb(i))


def stop():
    raise urwid.ExitMainLoop


loop.alarm(0.05, stop)
loop.run()

if after_removal:
    print(f"FAIL: watch callback(s) {after_removal} ran after remove_watch_file (calls={calls})")
    sys.exit(1)
if len(calls) != 1:
    print(f"FAIL: unexpected calls {calls}")
    sys.exit(1)
print("OK", calls)
