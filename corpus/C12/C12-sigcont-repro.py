import os, pty, signal, warnings
warnings.simplefilter("ignore")
import urwid
from urwid.display.raw import Screen
def mine(s, f): pass
signal.signal(signal.SIGCONT, mine)
signal.signal(signal.SIGWINCH, mine)
signal.signal(signal.SIGTSTP, mine)
m, s = pty.openpty()
i = os.fdopen(s, 'rb', buffering=0, closefd=False); o = os.fdopen(s, 'w', closefd=False)
scr = Screen(input=i, output=o)
def bye(l, d): raise urwid.ExitMainLoop()
ml = urwid.MainLoop(urwid.Filler(urwid.Text("x")), screen=scr)
ml.set_alarm_in(0.01, bye)
ml.run()
for n in ("SIGWINCH", "SIGTSTP", "SIGCONT"):
    print(n, signal.getsignal(getattr(signal, n)))
import sys
sys.exit(0 if signal.getsignal(signal.SIGCONT) is mine else 1)   # exit 1: the application's SIGCONT handler was lost
