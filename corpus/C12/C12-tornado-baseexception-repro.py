"""exit 1 when a BaseException-derived exception raised by a widget's keypress does not leave MainLoop.run()
under the TornadoEventLoop (it is logged by asyncio/tornado and the loop keeps running)"""
import os, pty, sys, warnings
warnings.simplefilter("ignore")
import urwid
from urwid.display.raw import Screen

class Stop(BaseException):          # like KeyboardInterrupt / SystemExit: not an Exception
    pass

class W(urwid.Edit):
    def keypress(self, size, key):
        raise Stop("from keypress")

m, s = pty.openpty()
scr = Screen(input=os.fdopen(s, "rb", buffering=0, closefd=False), output=os.fdopen(s, "w", closefd=False))
ml = urwid.MainLoop(urwid.Filler(W("x")), screen=scr, event_loop=urwid.TornadoEventLoop())
ml.set_alarm_in(0.05, lambda l, d: os.write(m, b"a"))
def end(l, d):
    raise urwid.ExitMainLoop()
ml.set_alarm_in(0.6, end)           # reached only when Stop was swallowed
try:
    ml.run()
    print("run() returned normally: the BaseException was swallowed")
    sys.exit(1)
except Stop:
    print("Stop propagated out of run()")
