"""usage: idle_exc.py tornado|trio|asyncio|select   -- exit 1 when the exception raised by the idle redraw is swallowed"""
import os, pty, sys, warnings
warnings.simplefilter("ignore")
import urwid
from urwid.display.raw import Screen

class Boom(Exception):
    pass

class W(urwid.Widget):
    _sizing = frozenset(["box"])
    no_cache = ["render"]
    renders = 0
    def render(self, size, focus=False):
        W.renders += 1
        if W.renders == 3:                 # third redraw = the idle redraw after the first alarm
            raise Boom("render failed")
        return urwid.SolidCanvas(" ", *size)

name = sys.argv[1]
loop = {"tornado": urwid.TornadoEventLoop, "trio": urwid.TrioEventLoop, "asyncio": urwid.AsyncioEventLoop,
        "select": urwid.SelectEventLoop}[name]()
m, s = pty.openpty()
scr = Screen(input=os.fdopen(s, "rb", buffering=0, closefd=False), output=os.fdopen(s, "w", closefd=False))
ml = urwid.MainLoop(W(), screen=scr, event_loop=loop)
ml.set_alarm_in(0.05, lambda l, d: None)                       # something happens -> idle redraw #3 raises Boom
def end(l, d):
    raise urwid.ExitMainLoop()
ml.set_alarm_in(0.5, end)                                      # reached only when Boom was swallowed
try:
    ml.run()
    print(name, ": run() returned normally after", W.renders, "renders: the exception was swallowed")
    sys.exit(1)
except Boom:
    print(name, ": Boom propagated out of run()")
