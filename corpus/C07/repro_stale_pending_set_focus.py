"""C07 finding: ListBox.render raises after set_focus() when the OLD focus position is deleted before the render.
exit 1 = defect present, 0 = fixed."""
import sys
import urwid

bad = 0
for W in (urwid.SimpleFocusListWalker, urwid.SimpleListWalker):
    w = W([urwid.Text(str(i)) for i in range(5)])
    lb = urwid.ListBox(w)
    w.set_focus(4)
    lb.render((5, 3), True)
    lb.set_focus(0)          # set_focus_pending = (None, <widget 4>, 4)
    del w[2:]                # position 4 no longer exists
    try:
        lb.render((5, 3), True)
    except Exception as e:   # IndexError
        print(W.__name__, "render raised", type(e).__name__, e)
        bad = 1
    w = W([urwid.Text(str(i)) for i in range(3)])
    lb = urwid.ListBox(w)
    lb.render((5, 3), True)
    lb.set_focus(2)
    del w[:]                 # the list is empty now
    try:
        lb.render((5, 3), True)
    except Exception as e:   # TypeError (SimpleFocusListWalker) / IndexError (SimpleListWalker)
        print(W.__name__, "render of the emptied list raised", type(e).__name__, e)
        bad = 1
sys.exit(bad)
