"""C07 finding: 'page down' raises ListBoxError out of ListBox.keypress with ordinary widgets (no zero-height ones):
a one-row Text, a one-row selectable widget and a two-row Text in a box of two rows; 'home', then 'page down'.
_keypress_page_down keeps candidates that lie completely above the top of the new page and asks change_focus to put
the focus there.  exit 1 = defect present, 0 = fixed."""
import sys
import urwid

lb = urwid.ListBox(urwid.SimpleFocusListWalker([urwid.Text("a"), urwid.Button("b"), urwid.Text("c0\nc1")]))
size = (8, 2)
lb.render(size, True)
bad = 0
for key in ("home", "page down"):
    try:
        lb.keypress(size, key)
        lb.render(size, True)
    except Exception as e:   # ListBoxError: Invalid offset_inset: -1, only 1 rows in target!
        print(f"{key!r} raised {type(e).__name__}: {e}")
        bad = 1
sys.exit(bad)
