"""C07 finding: set_focus_valign() does not invalidate the list box: the next render comes from the canvas
cache, the request stays pending and is completed inside the next mouse_event, so a button-1 press lands on a
different widget than the one drawn at that row.  exit 1 = defect present, 0 = fixed."""
import sys
import urwid


class Sel(urwid.WidgetWrap):
    def selectable(self):
        return True

    def keypress(self, size, key):
        return key


heights = [2, 4, 2, 3]
ws = [Sel(urwid.Text("\n".join(f"{i}:{r}" for r in range(h)))) for i, h in enumerate(heights)]
w = urwid.SimpleFocusListWalker(ws)
lb = urwid.ListBox(w)
w.set_focus(2)
size = (5, 5)
first = lb.render(size, True)                      # kept alive, as the screen does (the cache holds weak references)
lb.set_focus_valign("middle")
canv = lb.render(size, True)                       # cached canvas: the request is still pending
rows = [b"".join(t for _a, _c, t in row).decode().strip() for row in canv.content()]
shown = int(rows[2].split(":")[0])                 # the widget drawn at row 2
pending = lb.set_focus_valign_pending
lb.mouse_event(size, "mouse press", 1, 0, 2, True)
print("rows:", rows, "| pending after render:", pending, "| row 2 shows item", shown,
      "| focus after the press:", lb.focus_position)
sys.exit(0 if lb.focus_position == shown else 1)
