"""C20 finding: Scrollable.render returns early when the wrapped canvas fits the view, before
_adjust_trim_top and before the forwarding decision.  Exit 1 while the defect is present
(repaired in /repo by fix: 886d649: exits 0 now; kept as a regression script).

 (a) get_scrollpos() keeps a stale / never-clamped position although rows 0.. are shown;
 (b) mouse_event adds that stale offset to the row it forwards;
 (c) a pending scroll action survives and is applied when the content later grows;
 (d) (same root cause, outside the C20 text) _forward_keypress is never computed: an Edit that fits
     the view never receives keys.
"""
import sys
import urwid

bad = []
t = urwid.Text("\n".join("L%d" % i for i in range(10)))
s = urwid.Scrollable(t)
s.set_scrollpos(7)
s.render((4, 3))
t.set_text("L0\nL1")                      # content now fits
rows = [b"".join(x[2] for x in r) for r in s.render((4, 3)).content()]
if rows[0].strip() == b"L0" and s.get_scrollpos() != 0:
    bad.append("(a) rows from 0 are shown but get_scrollpos() = %d" % s.get_scrollpos())

seen = []
class Probe(urwid.Text):
    def mouse_event(self, size, event, button, col, row, focus):
        seen.append(row)
        return True
p = Probe("a\nb")
s2 = urwid.Scrollable(p)
s2.set_scrollpos(5)
s2.render((4, 3))
s2.mouse_event((4, 3), "mouse press", 1, 0, 1, True)
if seen != [1]:
    bad.append("(b) click on view row 1 reached the wrapped widget as row %r" % seen)

s3 = urwid.Scrollable(urwid.Text("a"))
s3.render((4, 3)); s3.keypress((4, 3), "down"); s3.render((4, 3))
s3.original_widget.set_text("a\nb\nc\nd\ne\nf")
s3.render((4, 3))
if s3.get_scrollpos() != 0:
    bad.append("(c) a 'down' pressed while nothing could scroll was applied later: position %d" % s3.get_scrollpos())

e = urwid.Edit("c", "")
s4 = urwid.Scrollable(e)
s4.render((10, 3), True)
if s4.keypress((10, 3), "x") is not None or e.edit_text != "x":
    bad.append("(d) an Edit that fits the view does not receive keys")

print("\n".join(bad) or "ok")
sys.exit(1 if bad else 0)
