"""C13 finding: TornadoEventLoop / TrioEventLoop swallow an exception raised by an idle callback (the loop
keeps running; in trio no idle callback ever runs again).  Usage: /venv/bin/python this_file tornado|trio
Exit 1 = defect present, 0 = fixed."""
import sys, os, warnings
warnings.simplefilter("ignore")
import urwid
name = sys.argv[1] if len(sys.argv) > 1 else "tornado"
loop = urwid.TornadoEventLoop() if name == "tornado" else urwid.TrioEventLoop()
class Boom(Exception): pass
log = []
def idle(): log.append("idle"); raise Boom()
loop.enter_idle(idle)
loop.alarm(0.05, lambda: log.append("a1"))
loop.alarm(0.30, lambda: log.append("late"))
def bye(): raise urwid.ExitMainLoop()
loop.alarm(0.6, bye)
try:
    loop.run()
    print("DEFECT: run() returned normally although an idle callback raised; log =", log); code = 1
except Boom:
    print("ok: Boom left run(); log =", log); code = 0
sys.stdout.flush(); os._exit(code)
