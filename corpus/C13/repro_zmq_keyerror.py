"""C13 finding: ZMQEventLoop dies with KeyError when a watch callback removes another watch that is
ready in the same poll() batch.  Exit 1 = defect present, 0 = fixed.  Run: /venv/bin/python this_file"""
import os, sys, warnings
warnings.simplefilter("ignore")
import urwid
loop = urwid.ZMQEventLoop()
r1, w1 = os.pipe(); r2, w2 = os.pipe()
calls = []
hs = {}
def cb1(): calls.append(1); os.read(r1, 1); loop.remove_watch_file(hs[2])
def cb2(): calls.append(2); os.read(r2, 1); loop.remove_watch_file(hs[1])
hs[1] = loop.watch_file(r1, cb1); hs[2] = loop.watch_file(r2, cb2)
os.write(w1, b"x"); os.write(w2, b"x")
def bye(): raise urwid.ExitMainLoop()
loop.alarm(0.2, bye)
try:
    loop.run()
except KeyError as e:
    print("DEFECT: run() raised KeyError", e, "after callbacks", calls); sys.exit(1)
print("ok: callbacks", calls); sys.exit(0 if len(calls) == 1 else 1)
