"""C13 findings on TrioEventLoop: (a) alarms overdue at the same time run in arbitrary order,
(b) the callback of a watch removed by a sibling callback of the same wake-up still runs.
Exit 1 = a defect shown, 0 = not shown (a is random: repeated 6 times).  Run: /venv/bin/python this_file"""
import os, sys, time, subprocess, warnings
warnings.simplefilter("ignore")
if len(sys.argv) > 1:
    import urwid
    loop = urwid.TrioEventLoop(); log = []
    def bye(): raise urwid.ExitMainLoop()
    if sys.argv[1] == "order":
        loop.alarm(0.05, lambda: time.sleep(0.25))         # a slow callback: the next three become overdue together
        loop.alarm(0.20, lambda: log.append("d20")); loop.alarm(0.10, lambda: log.append("d10")); loop.alarm(0.15, lambda: log.append("d15"))
        loop.alarm(0.6, bye); loop.run(); print(",".join(log))
    else:
        r1, w1 = os.pipe(); r2, w2 = os.pipe(); hs = {}
        def cb1(): log.append("w1"); os.read(r1, 1); loop.remove_watch_file(hs[2])
        def cb2(): log.append("w2"); os.read(r2, 1); loop.remove_watch_file(hs[1])
        hs[1] = loop.watch_file(r1, cb1); hs[2] = loop.watch_file(r2, cb2)
        os.write(w1, b"x"); os.write(w2, b"x"); loop.alarm(0.3, bye); loop.run(); print(",".join(log))
    sys.stdout.flush(); os._exit(0)
bad = 0
for i in range(6):
    out = subprocess.run([sys.executable, __file__, "order"], capture_output=True, text=True, timeout=30).stdout.strip()
    if out != "d10,d15,d20":
        print("DEFECT (a): overdue alarms ran in the order", out); bad = 1; break
out = subprocess.run([sys.executable, __file__, "watch"], capture_output=True, text=True, timeout=30).stdout.strip()
if len(out.split(",")) != 1:
    print("DEFECT (b): both watch callbacks ran although the first removed the other:", out); bad = 1
print("defects shown" if bad else "ok"); sys.exit(bad)
