"""C13 finding: TwistedEventLoop - after an idle callback raised, _twisted_idle_enabled stays True and no idle
callback ever runs again on this loop (seen when run() is called again, as MainLoop users do after handling
the exception).  Exit 1 = defect present, 0 = fixed.  Run: /venv/bin/python this_file"""
import os, sys, warnings
warnings.simplefilter("ignore")
import urwid
loop = urwid.TwistedEventLoop()
class Boom(Exception): pass
log = []
def bad_idle(): log.append("idle1"); raise Boom()
h = loop.enter_idle(bad_idle)
loop.alarm(0.05, lambda: log.append("kick1"))
try:
    loop.run()
except Boom:
    pass
loop.remove_enter_idle(h)
def idle2(): log.append("idle2"); raise urwid.ExitMainLoop()
loop.enter_idle(idle2)
loop.alarm(0.05, lambda: log.append("kick2"))
def guard(): log.append("guard"); raise urwid.ExitMainLoop()
loop.alarm(0.6, guard)
loop.run()
bad = "idle2" not in log
print(("DEFECT: the idle callback never ran in the second run(); log = %s" if bad else "ok: log = %s") % log)
sys.stdout.flush(); os._exit(1 if bad else 0)
